"""Variants: one small edit each, breaking exactly one rule instance while still compiling.
Each: name, prop, edits [(path, old, new)], rule (expected rule id), expect ('fire'|'quiet')."""

VARIANTS = []


def V(name, prop, path, old, new, rule=None, expect="fire"):
    VARIANTS.append({"name": name, "prop": prop, "edits": [(path, old, new)], "rule": rule, "expect": expect})


# ------------------------------------------------------------------------------- C01
V("for-continue-to-cond", "C01", "pyteal/ast/for_.py", "            block.setNextBlock(stepStart)", "            block.setNextBlock(condStart)", "R01.3")
V("while-break-to-cond", "C01", "pyteal/ast/while_.py", "            block.setNextBlock(end)", "            block.setNextBlock(condStart)", "R01.3")
V("if-swap-true-false", "C01", "pyteal/ast/if_.py", "        branchBlock.setTrueBlock(thenStart)", "        branchBlock.setFalseBlock(thenStart)", "R01.3")
V("cond-last-false-to-end", "C01", "pyteal/ast/cond.py", "        cast(TealConditionalBlock, prevBranch).setFalseBlock(errBlock)", "        cast(TealConditionalBlock, prevBranch).setFalseBlock(end)", "R01.3")
V("seq-reversed", "C01", "pyteal/ast/seq.py", "        for arg in self.args:\n            argStart, argEnd = arg.__teal__(options)", "        for arg in reversed(self.args):\n            argStart, argEnd = arg.__teal__(options)", "R01.3")
V("multi-not-reversed", "C01", "pyteal/ast/multi.py", "for slot in reversed(self.output_slots):", "for slot in self.output_slots:", "R01.3")
V("assert-v2-swap", "C01", "pyteal/ast/assert_.py", "        branchBlock.setTrueBlock(end)\n        branchBlock.setFalseBlock(errBlock)", "        branchBlock.setTrueBlock(errBlock)\n        branchBlock.setFalseBlock(end)", "R01.3")
V("nary-op-before-arg", "C01", "pyteal/ast/naryexpr.py", "                argEnd.setNextBlock(opBlock)\n                end = opBlock", "                argEnd.setNextBlock(opBlock)\n                end = argEnd", "R01.3")
V("fromop-skip-chain", "C01", "pyteal/ir/tealblock.py", "                cast(TealSimpleBlock, prevArgEnd).setNextBlock(argStart)", "                cast(TealSimpleBlock, argEnd).setNextBlock(argStart)", "R01.3")
V("while-enter-late", "C01", "pyteal/ast/while_.py", "        options.enterLoop()\n\n        condStart, condEnd = self.cond.__teal__(options)", "        condStart, condEnd = self.cond.__teal__(options)\n        options.enterLoop()", "R01.3")
# behaviour-preserving twins
V("twin-for-rename-locals", "C01", "pyteal/ast/for_.py", "            block.setNextBlock(stepStart)", "            blk = block\n            blk.setNextBlock(stepStart)", None, "quiet")


# ------------------------------------------------------------------------------- C02
V("spill-caller-return-type", "C02", "pyteal/compiler/subroutines.py", "                    reentrySubroutineCall.return_type != TealType.none\n", "                    subroutine.return_type != TealType.none\n", "R02.3")
V("spill-no-abi-output", "C02", "pyteal/compiler/subroutines.py", "                    or reentrySubroutineCall.has_abi_output\n", "", "R02.3")
V("spill-cover-off-by-one", "C02", "pyteal/compiler/subroutines.py", "                        after.append(TealOp(None, Op.cover, len(slots)))", "                        after.append(TealOp(None, Op.cover, len(slots) - 1))", "R02.3")
V("spill-restore-not-reversed", "C02", "pyteal/compiler/subroutines.py", "                for slot in slots[::-1]:", "                for slot in slots:", "R02.3")
V("spill-uncover-distance", "C02", "pyteal/compiler/subroutines.py", "                    stackDistance = len(slots) + numArgs - 1", "                    stackDistance = len(slots) + numArgs", "R02.3")
V("scratch-prologue-not-reversed", "C02", "pyteal/ast/subroutine.py", "                var.slot.store() for var, _ in arg_var_n_frame_index_pairs[::-1]", "                var.slot.store() for var, _ in arg_var_n_frame_index_pairs", "R02.2")
V("fp-dig-index-off-by-one", "C02", "pyteal/ast/subroutine.py", "            argument_var = None\n            loaded_var = FrameVar(proto, dig_index).load()", "            argument_var = None\n            loaded_var = FrameVar(proto, dig_index + 1).load()", "R02.2")
V("proto-returns-ignores-abi", "C02", "pyteal/ast/subroutine.py", "            1\n            if subroutine.has_abi_output\n            else int(subroutine.return_type != TealType.none)", "            int(subroutine.return_type != TealType.none)", "R02.2")
V("callsub-args-reversed", "C02", "pyteal/ast/subroutine.py", "*[handle_arg(x) for x in self.args])", "*[handle_arg(x) for x in reversed(self.args)])", "R02.1")
V("recursion-points-direct-only", "C02", "pyteal/compiler/subroutines.py", "            if graph_search(subroutineGraph, callee, subroutine)", "            if callee == subroutine", "R02.4")
V("twin-spill-rename", "C02", "pyteal/compiler/subroutines.py", "                numArgs = reentrySubroutineCall.argument_count()", "                calleeDef = reentrySubroutineCall\n                numArgs = calleeDef.argument_count()", None, "quiet")
