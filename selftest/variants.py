"""Variants: one small edit each, breaking exactly one rule instance while still compiling.
Each: name, prop, edits [(path, old, new)], rule (expected rule id), expect ('fire'|'quiet')."""

VARIANTS = []


def V(name, prop, path, old, new, rule=None, expect="fire"):
    VARIANTS.append({"name": name, "prop": prop, "edits": [(path, old, new)], "rule": rule, "expect": expect})


# ------------------------------------------------------------------------------- C01
V("for-continue-to-cond", "C01", "pyteal/ast/for_.py", "            block.setNextBlock(stepStart)", "            block.setNextBlock(condStart)", "R01.3")
V("while-break-to-cond", "C01", "pyteal/ast/while_.py", "            block.setNextBlock(end)", "            block.setNextBlock(condStart)", "R01.3")
V("if-swap-true-false", "C01", "pyteal/ast/if_.py", "        branchBlock.setTrueBlock(thenStart)", "        branchBlock.setFalseBlock(thenStart)", "R01.3")
V("cond-last-false-to-end", "C01", "pyteal/ast/cond.py", "        cast(TealConditionalBlock, prevBranch).setFalseBlock(errBlock)", "        cast(TealConditionalBlock, prevBranch).setFalseBlock(end)", "R01.3")
V("seq-reversed", "C01", "pyteal/ast/seq.py", "        for arg in self.args:\n            argStart, argEnd = arg.__teal__(options)", "        for arg in reversed(self.args):\n            argStart, argEnd = arg.__teal__(options)", "R01.3")
V("multi-not-reversed", "C01", "pyteal/ast/multi.py", "for slot in reversed(self.output_slots):", "for slot in self.output_slots:", "R01.3")
V("assert-v2-swap", "C01", "pyteal/ast/assert_.py", "        branchBlock.setTrueBlock(end)\n        branchBlock.setFalseBlock(errBlock)", "        branchBlock.setTrueBlock(errBlock)\n        branchBlock.setFalseBlock(end)", "R01.3")
V("nary-op-before-arg", "C01", "pyteal/ast/naryexpr.py", "                argEnd.setNextBlock(opBlock)\n                end = opBlock", "                argEnd.setNextBlock(opBlock)\n                end = argEnd", "R01.3")
V("fromop-skip-chain", "C01", "pyteal/ir/tealblock.py", "                cast(TealSimpleBlock, prevArgEnd).setNextBlock(argStart)", "                cast(TealSimpleBlock, argEnd).setNextBlock(argStart)", "R01.3")
V("while-enter-late", "C01", "pyteal/ast/while_.py", "        options.enterLoop()\n\n        condStart, condEnd = self.cond.__teal__(options)", "        condStart, condEnd = self.cond.__teal__(options)\n        options.enterLoop()", "R01.3")
# behaviour-preserving twins
V("twin-for-rename-locals", "C01", "pyteal/ast/for_.py", "            block.setNextBlock(stepStart)", "            blk = block\n            blk.setNextBlock(stepStart)", None, "quiet")


# ------------------------------------------------------------------------------- C02
V("spill-caller-return-type", "C02", "pyteal/compiler/subroutines.py", "                    reentrySubroutineCall.return_type != TealType.none\n", "                    subroutine.return_type != TealType.none\n", "R02.3")
V("spill-no-abi-output", "C02", "pyteal/compiler/subroutines.py", "                    or reentrySubroutineCall.has_abi_output\n", "", "R02.3")
V("spill-cover-off-by-one", "C02", "pyteal/compiler/subroutines.py", "                        after.append(TealOp(None, Op.cover, len(slots)))", "                        after.append(TealOp(None, Op.cover, len(slots) - 1))", "R02.3")
V("spill-restore-not-reversed", "C02", "pyteal/compiler/subroutines.py", "                for slot in slots[::-1]:", "                for slot in slots:", "R02.3")
V("spill-uncover-distance", "C02", "pyteal/compiler/subroutines.py", "                    stackDistance = len(slots) + numArgs - 1", "                    stackDistance = len(slots) + numArgs", "R02.3")
V("scratch-prologue-not-reversed", "C02", "pyteal/ast/subroutine.py", "                var.slot.store() for var, _ in arg_var_n_frame_index_pairs[::-1]", "                var.slot.store() for var, _ in arg_var_n_frame_index_pairs", "R02.2")
V("fp-dig-index-off-by-one", "C02", "pyteal/ast/subroutine.py", "            argument_var = None\n            loaded_var = FrameVar(proto, dig_index).load()", "            argument_var = None\n            loaded_var = FrameVar(proto, dig_index + 1).load()", "R02.2")
V("proto-returns-ignores-abi", "C02", "pyteal/ast/subroutine.py", "            1\n            if subroutine.has_abi_output\n            else int(subroutine.return_type != TealType.none)", "            int(subroutine.return_type != TealType.none)", "R02.2")
V("callsub-args-reversed", "C02", "pyteal/ast/subroutine.py", "*[handle_arg(x) for x in self.args])", "*[handle_arg(x) for x in reversed(self.args)])", "R02.1")
V("recursion-points-direct-only", "C02", "pyteal/compiler/subroutines.py", "            if graph_search(subroutineGraph, callee, subroutine)", "            if callee == subroutine", "R02.4")
V("twin-spill-rename", "C02", "pyteal/compiler/subroutines.py", "                numArgs = reentrySubroutineCall.argument_count()", "                calleeDef = reentrySubroutineCall\n                numArgs = calleeDef.argument_count()", None, "quiet")

# ------------------------------------------------------------------------------- C05
V("wideratio-cover-1", "C16", "pyteal/ast/widemath.py", "                    TealOp(expr, Op.cover, 2),  # stack: [..., A*C, B, C]", "                    TealOp(expr, Op.cover, 1),  # stack: [..., A*C, B, C]", None)
V("wideratio-drop-pop", "C05", "pyteal/ast/widemath.py", "                TealOp(self, Op.pop),  # pop remainder low word\n", "", "R05.3")
V("suffix-dig-0", "C05", "pyteal/ast/substring.py", "                    TealOp(self, Op.dig, 1),\n                    TealOp(self, Op.len),", "                    TealOp(self, Op.dig, 0),\n                    TealOp(self, Op.len),", "R05.3")
V("dupn-off-by-one", "C05", "pyteal/ast/frame.py", "        op = TealOp(self, Op.dupn, self.repetition)", "        op = TealOp(self, Op.dupn, self.repetition + 1)", "R05.3")
V("localseg-count", "C05", "pyteal/ast/frame.py", "        return DupN(self.auto_instance, self.count - 1).__teal__(options)", "        return DupN(self.auto_instance, self.count).__teal__(options)", "R05.3")
V("multivalue-stores-forward", "C05", "pyteal/ast/multi.py", "for slot in reversed(self.output_slots):", "for slot in self.output_slots:", "R05.3")
V("require-type-anytype-none", "C05", "pyteal/types.py", "        expected == TealType.none\n        or actual == TealType.none\n        or ", "        expected == TealType.none\n        or ", "R05.6")
V("while-cond-unchecked", "C05", "pyteal/ast/while_.py", "        require_type(cond, TealType.uint64)\n", "", "R05.4")
V("for-step-unchecked", "C05", "pyteal/ast/for_.py", "        require_type(step, TealType.none)\n", "", "R05.4")
V("seq-check-all-but-first", "C05", "pyteal/ast/seq.py", "            if i + 1 < len(exprs):", "            if 0 < i + 1 < len(exprs) - 1:", "R05.4")

# ------------------------------------------------------------------------------- C04
V("sweep-mode-dropped", "C04", "pyteal/compiler/compiler.py", "        verifyOpsForMode(components, options.mode)\n", "", None)
V("sweep-version-off-by-one", "C04", "pyteal/compiler/compiler.py", "            if op.min_version > version:", "            if op.min_version > version + 1:", "R04.5")
V("sweep-before-flatten", "C04", "pyteal/compiler/compiler.py", "        verifyOpsForVersion(components, options.version)\n", "        verifyOpsForVersion(components, options.version) if False else None\n", "R04.5")
V("assemble-accepts-slot", "C04", "pyteal/ir/tealop.py", "            if isinstance(arg, ScratchSlot):\n                raise TealInternalError(\"Slot not assigned: {}\".format(arg))\n", "", "R04.6")
V("assignslot-first-only", "C04", "pyteal/ir/tealop.py", "            if slot == arg:\n                self.args[i] = location", "            if slot == arg:\n                self.args[i] = location\n                break", "R04.6")
V("label-prefix-missing-sep", "C04", "pyteal/compiler/flatten.py", "        labelPrefix = label + \"_\"", "        labelPrefix = label", "R04.7")
V("sub-label-no-index", "C04", "pyteal/compiler/subroutines.py", "        subroutineToLabel[subroutine] = \"{}_{}\".format(safer_name, index)", "        subroutineToLabel[subroutine] = \"{}_{}\".format(safer_name, len(safer_name))", "R04.7")
V("if-has-return-or", "C04", "pyteal/ast/if_.py", "        return self.thenBranch.has_return() and self.elseBranch.has_return()", "        return self.thenBranch.has_return() or self.elseBranch.has_return()", "R04.8")
V("seq-has-return-nonempty", "C04", "pyteal/ast/seq.py", "        return self.args[-1].has_return()", "        return self.args[0].has_return() or self.args[-1].has_return() or len(self.args) > 2", "R04.8")
V("op-minversion-accessor", "C04", "pyteal/ir/ops.py", "        return self.value.min_version", "        return min(self.value.min_version, 2)", "R04.0")
V("op-row-version", "C04", "pyteal/ir/ops.py", "OpType(\"sha3_256\",            Mode.Signature | Mode.Application,  7)", "OpType(\"sha3_256\",            Mode.Signature | Mode.Application,  6)", "R04.1")
V("constants-at-v2", "C04", "pyteal/compiler/compiler.py", "            if self.version < 3:", "            if self.version < 2:", "R04.5")
V("twin-sweep-rename", "C04", "pyteal/compiler/compiler.py", "        verifyOpsForVersion(components, options.version)\n        verifyOpsForMode(components, options.mode)", "        verifyOpsForMode(components, options.mode)\n        verifyOpsForVersion(components, options.version)", None, "quiet")

# ------------------------------------------------------------------------------- C03
V("opt-scan-from-current", "C03", "pyteal/compiler/optimizer/optimizer.py", "    for block in TealBlock.Iterate(start):\n        for i, op in enumerate(block.ops):", "    for block in TealBlock.Iterate(cur_block):\n        for i, op in enumerate(block.ops):", "R03.2")
V("opt-skip-ignored", "C03", "pyteal/compiler/optimizer/optimizer.py", "        if set(op.getSlots()).issubset(skip_slots):\n            continue\n", "", "R03.3")
V("opt-skip-no-globals", "C03", "pyteal/compiler/scratchslots.py", "    unoptimized_slots.update(global_slots)\n", "", "R03.1")
V("opt-skip-no-dynamic", "C03", "pyteal/compiler/scratchslots.py", "                if op.op == Op.int or slot.isReservedSlot:", "                if slot.isReservedSlot:", "R03.1")
V("opt-default-v8", "C03", "pyteal/compiler/compiler.py", "DEFAULT_SCRATCH_SLOT_OPTIMIZE_VERSION = 9", "DEFAULT_SCRATCH_SLOT_OPTIMIZE_VERSION = 8", "R03.4")
V("fp-true-below-8-accepted", "C03", "pyteal/compiler/optimizer/optimizer.py", "        if self._frame_pointers:\n            verifyProgramVersion(", "        if self._frame_pointers and version < 0:\n            verifyProgramVersion(", "R03.4")
V("opt-different-slot-cancel", "C03", "pyteal/compiler/optimizer/optimizer.py", "        if cur_slots[0] != next_slots[0]:\n            continue\n", "", "R03.3")

# ------------------------------------------------------------------------------- C08
V("callconfig-call-eq-zero", "C08", "pyteal/ast/router.py", "            case CallConfig.CALL:\n                return Txn.application_id() != Int(0)", "            case CallConfig.CALL:\n                return Txn.application_id() == Int(0)", "R08.1")
V("methodconfig-pair-swap", "C08", "pyteal/ast/router.py", "            (self.opt_in, OnComplete.OptIn),\n            (self.close_out, OnComplete.CloseOut),\n            (self.update_application", "            (self.opt_in, OnComplete.CloseOut),\n            (self.close_out, OnComplete.OptIn),\n            (self.update_application", "R08.1")
V("methodconfig-all-short-circuit", "C08", "pyteal/ast/router.py", "        elif all(config == CallConfig.ALL for config, _ in config_oc_pairs):", "        elif any(config == CallConfig.ALL for config, _ in config_oc_pairs):", "R08.1")
V("bare-pair-swap", "C08", "pyteal/ast/router.py", "            (OnComplete.UpdateApplication, self.update_application),\n            (OnComplete.DeleteApplication, self.delete_application),\n        ]\n        if all(oca.is_empty()", "            (OnComplete.UpdateApplication, self.delete_application),\n            (OnComplete.DeleteApplication, self.update_application),\n        ]\n        if all(oca.is_empty()", "R08.2")
V("bare-create-unguarded", "C08", "pyteal/ast/router.py", "                case CallConfig.ALL:\n                    cond_body = wrapped_handler\n                case CallConfig.CALL | CallConfig.CREATE:", "                case CallConfig.ALL | CallConfig.CREATE:\n                    cond_body = wrapped_handler\n                case CallConfig.CALL:", "R08.2")
V("method-assert-after-handler", "C08", "pyteal/ast/router.py", "            res = Seq(Assert(self.condition), res)", "            res = Seq(res, Assert(self.condition))", "R08.4")
V("bare-no-numargs-guard", "C08", "pyteal/ast/router.py", "                        cond := Txn.application_args.length() == Int(0),", "                        cond := Txn.application_args.length() >= Int(0),", "R08.4")
V("never-method-registered", "C08", "pyteal/ast/router.py", "        if method_config.is_never():\n            raise TealInputError(\n                f\"registered method {method_signature} is never executed\"\n            )\n", "", "R08.5")
V("clear-state-approve-default", "C08", "pyteal/ast/router.py", "            Reject()\n            if clear_state is None", "            Approve()\n            if clear_state is None", "R08.5")
V("wrap-no-approve", "C08", "pyteal/ast/router.py", "                    return handler if handler.has_return() else Seq(handler, Approve())", "                    return handler", "R08.2")

# ------------------------------------------------------------------------------- C09
V("decode-index-off-by-one", "C09", "pyteal/ast/router.py", "            app_arg.decode(Txn.application_args[idx + 1])", "            app_arg.decode(Txn.application_args[idx])", "R09.1")
V("cutoff-slice-one-side", "C09", "pyteal/ast/router.py", "            app_arg_vals = app_arg_vals[: METHOD_ARG_NUM_CUTOFF - 1]", "            app_arg_vals = app_arg_vals[: METHOD_ARG_NUM_CUTOFF]", "R09.1")
V("cutoff-ge", "C09", "pyteal/ast/router.py", "        tuplify = len(app_arg_vals) > METHOD_ARG_NUM_CUTOFF", "        tuplify = len(app_arg_vals) >= METHOD_ARG_NUM_CUTOFF", "R09.1")
V("txn-index-plus", "C09", "pyteal/ast/router.py", "                    arg_val._set_index(Txn.group_index() - Int(txn_arg_len - idx))", "                    arg_val._set_index(Txn.group_index() - Int(txn_arg_len - idx - 1))", "R09.1")
V("txn-type-assert-dropped", "C09", "pyteal/ast/router.py", "                if type(spec) is not abi.TransactionTypeSpec:", "                if type(spec) is abi.TransactionTypeSpec and False:", "R09.1")
V("frame-index-ignores-output", "C09", "pyteal/ast/router.py", "                arg_val._stored_value = FrameVar(proto, i + index_start_from)", "                arg_val._stored_value = FrameVar(proto, i)", "R09.1")
V("detuple-wrong-element", "C09", "pyteal/ast/router.py", "                tupled_arg[idx].store_into(arg_val)\n                for idx, arg_val in enumerate(tupled_app_args)", "                tupled_arg[idx].store_into(arg_val)\n                for idx, arg_val in enumerate(reversed(tupled_app_args))", "R09.1")
V("vanilla-no-method-return", "C09", "pyteal/ast/router.py", "                handler_evald.store_into(output_temp),\n                abi.MethodReturn(output_temp),\n                Approve(),", "                handler_evald.store_into(output_temp),\n                Approve(),", "R09.4")
V("fp-double-log", "C09", "pyteal/ast/router.py", "                returned_val.store_into(output_temp),\n                abi.MethodReturn(output_temp),\n            ]", "                returned_val.store_into(output_temp),\n                abi.MethodReturn(output_temp),\n                abi.MethodReturn(output_temp),\n            ]", "R09.4")
V("contract-name-mismatch", "C09", "pyteal/ast/router.py", "            meth.name = overriding_name\n", "            pass\n", "R09.5")
V("method-return-order", "C09", "pyteal/ast/abi/method_return.py", "Log(Concat(Bytes(RETURN_HASH_PREFIX), self.arg.encode()))", "Log(Concat(self.arg.encode(), Bytes(RETURN_HASH_PREFIX)))", "R09.4")

# ------------------------------------------------------------------------------- C06
V("bool-seq-length-floor", "C06", "pyteal/ast/abi/bool.py", "    return (num_bools + NUM_BITS_IN_BYTE - 1) // NUM_BITS_IN_BYTE", "    return max(1, num_bools // NUM_BITS_IN_BYTE)", None)
V("static-array-bool-unpacked", "C06", "pyteal/ast/abi/array_static.py", "        if value_type == BoolTypeSpec():\n            return _bool_sequence_length(length)\n", "", "R06.1")
V("uint-encode-16-wrong-suffix", "C06", "pyteal/ast/abi/uint.py", "        return Suffix(Itob(uint_var), Int(6))", "        return Suffix(Itob(uint_var), Int(5))", "R06.3")
V("uint-set-no-assert-32", "C06", "pyteal/ast/abi/uint.py", "    if checked or size == 64:", "    if checked or size >= 32:", "R06.3")
V("tuple-head-dynamic-4", "C06", "pyteal/ast/abi/tuple.py", "        if elemType.is_dynamic():\n            head_length_static += 2", "        if elemType.is_dynamic():\n            head_length_static += 4", "R06.2")
V("tuple-accumulator-always", "C06", "pyteal/ast/abi/tuple.py", "                    tail_offset.get() + Len(encoded_tail.load())", "                    tail_offset.get() + Len(tail_holder.load())", "R06.2")
V("dyn-array-no-prefix", "C06", "pyteal/ast/abi/array_base.py", "            encoded = Concat(length_prefix, encoded)", "            encoded = Concat(encoded, length_prefix)", "R06.4")
V("address-str", "C06", "pyteal/ast/abi/address.py", "        return \"address\"", "        return \"byte[32]\"", "R06.1")
V("string-not-dynamic", "C06", "pyteal/ast/abi/array_dynamic.py", "    def is_dynamic(self) -> bool:\n        return True", "    def is_dynamic(self) -> bool:\n        return self.value_type_spec().is_dynamic()", "R06.1")

# ------------------------------------------------------------------------------- C16
V("wideratio-swap-missing", "C16", "pyteal/ast/widemath.py", "                TealOp(self, Op.swap),  # swap quotient high and low words\n", "", "R16.1")
V("wideratio-addw", "C16", "pyteal/ast/widemath.py", "                    TealOp(\n                        expr, Op.add\n                    ),", "                    TealOp(\n                        expr, Op.addw\n                    ),", None)
V("wideratio-one-factor-highword-after", "C16", "pyteal/ast/widemath.py", "        start.setNextBlock(highword)\n        highword.setNextBlock(fac0Start)\n\n        end = fac0End", "        start.setNextBlock(fac0Start)\n        fac0End.setNextBlock(highword)\n\n        end = highword", "R16.1")
V("wideratio-dig-0", "C16", "pyteal/ast/widemath.py", "                    TealOp(expr, Op.dig, 1),  # stack: [..., B, C, A, C]", "                    TealOp(expr, Op.dig, 0),  # stack: [..., B, C, A, C]", "R16.1")
V("wideratio-no-assert", "C16", "pyteal/ast/widemath.py", "                TealOp(self, Op.logic_not),\n                TealOp(self, Op.assert_),  # assert quotient high word is 0", "                TealOp(self, Op.pop),", "R16.1")
