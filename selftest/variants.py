"""Variants: one small edit each, breaking exactly one rule instance while still compiling.
Each: name, prop, edits [(path, old, new)], rule (expected rule id), expect ('fire'|'quiet')."""

VARIANTS = []


def V(name, prop, path, old, new, rule=None, expect="fire"):
    VARIANTS.append({"name": name, "prop": prop, "edits": [(path, old, new)], "rule": rule, "expect": expect})


# ------------------------------------------------------------------------------- C01
V("for-continue-to-cond", "C01", "pyteal/ast/for_.py", "            block.setNextBlock(stepStart)", "            block.setNextBlock(condStart)", "R01.3")
V("while-break-to-cond", "C01", "pyteal/ast/while_.py", "            block.setNextBlock(end)", "            block.setNextBlock(condStart)", "R01.3")
V("if-swap-true-false", "C01", "pyteal/ast/if_.py", "        branchBlock.setTrueBlock(thenStart)", "        branchBlock.setFalseBlock(thenStart)", "R01.3")
V("cond-last-false-to-end", "C01", "pyteal/ast/cond.py", "        cast(TealConditionalBlock, prevBranch).setFalseBlock(errBlock)", "        cast(TealConditionalBlock, prevBranch).setFalseBlock(end)", "R01.3")
V("seq-reversed", "C01", "pyteal/ast/seq.py", "        for arg in self.args:\n            argStart, argEnd = arg.__teal__(options)", "        for arg in reversed(self.args):\n            argStart, argEnd = arg.__teal__(options)", "R01.3")
V("multi-not-reversed", "C01", "pyteal/ast/multi.py", "for slot in reversed(self.output_slots):", "for slot in self.output_slots:", "R01.3")
V("assert-v2-swap", "C01", "pyteal/ast/assert_.py", "        branchBlock.setTrueBlock(end)\n        branchBlock.setFalseBlock(errBlock)", "        branchBlock.setTrueBlock(errBlock)\n        branchBlock.setFalseBlock(end)", "R01.3")
V("nary-op-before-arg", "C01", "pyteal/ast/naryexpr.py", "                argEnd.setNextBlock(opBlock)\n                end = opBlock", "                argEnd.setNextBlock(opBlock)\n                end = argEnd", "R01.3")
V("fromop-skip-chain", "C01", "pyteal/ir/tealblock.py", "                cast(TealSimpleBlock, prevArgEnd).setNextBlock(argStart)", "                cast(TealSimpleBlock, argEnd).setNextBlock(argStart)", "R01.3")
V("while-enter-late", "C01", "pyteal/ast/while_.py", "        options.enterLoop()\n\n        condStart, condEnd = self.cond.__teal__(options)", "        condStart, condEnd = self.cond.__teal__(options)\n        options.enterLoop()", "R01.3")
# behaviour-preserving twins
V("twin-for-rename-locals", "C01", "pyteal/ast/for_.py", "            block.setNextBlock(stepStart)", "            blk = block\n            blk.setNextBlock(stepStart)", None, "quiet")
V("twin-if-reorder", "C01", "pyteal/ast/if_.py", "        branchBlock.setTrueBlock(thenStart)\n        condEnd.setNextBlock(branchBlock)", "        condEnd.setNextBlock(branchBlock)\n        branchBlock.setTrueBlock(thenStart)", None, "quiet")
