"""Variants: one small edit each, breaking exactly one rule instance while still compiling.
Each: name, prop, edits [(path, old, new)], rule (expected rule id), expect ('fire'|'quiet')."""

VARIANTS = []


def V(name, prop, path, old, new, rule=None, expect="fire"):
    VARIANTS.append({"name": name, "prop": prop, "edits": [(path, old, new)], "rule": rule, "expect": expect})


def rename_local(func: str, old: str, new: str):
    """behaviour-preserving edit: rename a local variable inside one function - NAME tokens only (never string
    literals, attribute names after a dot, or keyword-argument names)"""
    import io
    import re
    import tokenize

    def edit(src: str):
        lines = src.split("\n")
        start = None
        for i, l in enumerate(lines):
            if re.match(r"\s*(async\s+)?def\s+" + re.escape(func) + r"\b", l):
                start = i
                break
        if start is None:
            return None
        indent = len(lines[start]) - len(lines[start].lstrip())
        # the function ends before the next line at the same or lower indentation that is not inside brackets
        depth, end = 0, len(lines)
        for j in range(start, len(lines)):
            l = lines[j]
            if j > start and depth == 0 and l.strip() and (len(l) - len(l.lstrip())) <= indent and not l.lstrip().startswith("#"):
                end = j
                break
            for ch in re.sub(r"(\"[^\"]*\"|'[^']*')", "", l):
                if ch in "([{":
                    depth += 1
                elif ch in ")]}":
                    depth -= 1
        body = "\n".join(lines[start:end]) + "\n"
        try:
            toks = list(tokenize.generate_tokens(io.StringIO(body).readline))
        except (tokenize.TokenError, IndentationError):
            return None
        edits = []
        for k, t in enumerate(toks):
            if t.type == tokenize.NAME and t.string == old:
                prev = toks[k - 1] if k else None
                nxt = toks[k + 1] if k + 1 < len(toks) else None
                if prev is not None and prev.type == tokenize.OP and prev.string == ".":
                    continue
                if nxt is not None and nxt.type == tokenize.OP and nxt.string == "=" and prev is not None and prev.type == tokenize.OP and prev.string in ("(", ","):
                    # keyword argument name in a call:  f(x=...)  - but a plain assignment target starts a statement
                    continue
                edits.append((t.start, t.end))
        if not edits:
            return None
        blines = body.split("\n")
        for (r0, c0), (r1, c1) in sorted(edits, reverse=True):
            blines[r0 - 1] = blines[r0 - 1][:c0] + new + blines[r0 - 1][c1:]
        out = "\n".join(lines[:start] + blines[:-1] + lines[end:])
        try:
            compile(out, "<twin>", "exec")
        except SyntaxError:
            return None
        return out

    return edit


def T(name, props, path, func, old, new):
    """twin: rename a local; every listed property's check must stay quiet"""
    for p_ in props:
        VARIANTS.append({"name": f"twin-rename-{name}-{p_}", "prop": p_, "edits": [(path, rename_local(func, old, new), None)], "rule": None, "expect": "quiet"})


# ------------------------------------------------------------------------------- C01
V("for-continue-to-cond", "C01", "pyteal/ast/for_.py", "            block.setNextBlock(stepStart)", "            block.setNextBlock(condStart)", "R01.3")
V("while-break-to-cond", "C01", "pyteal/ast/while_.py", "            block.setNextBlock(end)", "            block.setNextBlock(condStart)", "R01.3")
V("if-swap-true-false", "C01", "pyteal/ast/if_.py", "        branchBlock.setTrueBlock(thenStart)", "        branchBlock.setFalseBlock(thenStart)", "R01.3")
V("cond-last-false-to-end", "C01", "pyteal/ast/cond.py", "        cast(TealConditionalBlock, prevBranch).setFalseBlock(errBlock)", "        cast(TealConditionalBlock, prevBranch).setFalseBlock(end)", "R01.3")
V("seq-reversed", "C01", "pyteal/ast/seq.py", "        for arg in self.args:\n            argStart, argEnd = arg.__teal__(options)", "        for arg in reversed(self.args):\n            argStart, argEnd = arg.__teal__(options)", "R01.3")
V("multi-not-reversed", "C01", "pyteal/ast/multi.py", "for slot in reversed(self.output_slots):", "for slot in self.output_slots:", "R01.3")
V("assert-v2-swap", "C01", "pyteal/ast/assert_.py", "        branchBlock.setTrueBlock(end)\n        branchBlock.setFalseBlock(errBlock)", "        branchBlock.setTrueBlock(errBlock)\n        branchBlock.setFalseBlock(end)", "R01.3")
V("nary-op-before-arg", "C01", "pyteal/ast/naryexpr.py", "                argEnd.setNextBlock(opBlock)\n                end = opBlock", "                argEnd.setNextBlock(opBlock)\n                end = argEnd", "R01.3")
V("fromop-skip-chain", "C01", "pyteal/ir/tealblock.py", "                cast(TealSimpleBlock, prevArgEnd).setNextBlock(argStart)", "                cast(TealSimpleBlock, argEnd).setNextBlock(argStart)", "R01.3")
V("while-enter-late", "C01", "pyteal/ast/while_.py", "        options.enterLoop()\n\n        condStart, condEnd = self.cond.__teal__(options)", "        condStart, condEnd = self.cond.__teal__(options)\n        options.enterLoop()", "R01.3")
# behaviour-preserving twins
V("twin-for-rename-locals", "C01", "pyteal/ast/for_.py", "            block.setNextBlock(stepStart)", "            blk = block\n            blk.setNextBlock(stepStart)", None, "quiet")


# ------------------------------------------------------------------------------- C02
V("spill-caller-return-type", "C02", "pyteal/compiler/subroutines.py", "                    reentrySubroutineCall.return_type != TealType.none\n", "                    subroutine.return_type != TealType.none\n", "R02.3")
V("spill-no-abi-output", "C02", "pyteal/compiler/subroutines.py", "                    or reentrySubroutineCall.has_abi_output\n", "", "R02.3")
V("spill-cover-off-by-one", "C02", "pyteal/compiler/subroutines.py", "                        after.append(TealOp(None, Op.cover, len(slots)))", "                        after.append(TealOp(None, Op.cover, len(slots) - 1))", "R02.3")
V("spill-restore-not-reversed", "C02", "pyteal/compiler/subroutines.py", "                for slot in slots[::-1]:", "                for slot in slots:", "R02.3")
V("spill-uncover-distance", "C02", "pyteal/compiler/subroutines.py", "                    stackDistance = len(slots) + numArgs - 1", "                    stackDistance = len(slots) + numArgs", "R02.3")
V("scratch-prologue-not-reversed", "C02", "pyteal/ast/subroutine.py", "                var.slot.store() for var, _ in arg_var_n_frame_index_pairs[::-1]", "                var.slot.store() for var, _ in arg_var_n_frame_index_pairs", "R02.2")
V("fp-dig-index-off-by-one", "C02", "pyteal/ast/subroutine.py", "            argument_var = None\n            loaded_var = FrameVar(proto, dig_index).load()", "            argument_var = None\n            loaded_var = FrameVar(proto, dig_index + 1).load()", "R02.2")
V("proto-returns-ignores-abi", "C02", "pyteal/ast/subroutine.py", "            1\n            if subroutine.has_abi_output\n            else int(subroutine.return_type != TealType.none)", "            int(subroutine.return_type != TealType.none)", "R02.2")
V("callsub-args-reversed", "C02", "pyteal/ast/subroutine.py", "*[handle_arg(x) for x in self.args])", "*[handle_arg(x) for x in reversed(self.args)])", "R02.1")
V("recursion-points-direct-only", "C02", "pyteal/compiler/subroutines.py", "            if graph_search(subroutineGraph, callee, subroutine)", "            if callee == subroutine", "R02.4")
V("twin-spill-rename", "C02", "pyteal/compiler/subroutines.py", "                numArgs = reentrySubroutineCall.argument_count()", "                calleeDef = reentrySubroutineCall\n                numArgs = calleeDef.argument_count()", None, "quiet")

# ------------------------------------------------------------------------------- C05
V("wideratio-cover-1", "C16", "pyteal/ast/widemath.py", "                    TealOp(expr, Op.cover, 2),  # stack: [..., A*C, B, C]", "                    TealOp(expr, Op.cover, 1),  # stack: [..., A*C, B, C]", None)
V("wideratio-drop-pop", "C05", "pyteal/ast/widemath.py", "                TealOp(self, Op.pop),  # pop remainder low word\n", "", "R05.3")
V("suffix-dig-0", "C05", "pyteal/ast/substring.py", "                    TealOp(self, Op.dig, 1),\n                    TealOp(self, Op.len),", "                    TealOp(self, Op.dig, 0),\n                    TealOp(self, Op.len),", "R05.3")
V("dupn-off-by-one", "C05", "pyteal/ast/frame.py", "        op = TealOp(self, Op.dupn, self.repetition)", "        op = TealOp(self, Op.dupn, self.repetition + 1)", "R05.3")
V("localseg-count", "C05", "pyteal/ast/frame.py", "        return DupN(self.auto_instance, self.count - 1).__teal__(options)", "        return DupN(self.auto_instance, self.count).__teal__(options)", "R05.3")
V("multivalue-stores-forward", "C05", "pyteal/ast/multi.py", "for slot in reversed(self.output_slots):", "for slot in self.output_slots:", "R05.3")
V("require-type-anytype-none", "C05", "pyteal/types.py", "        expected == TealType.none\n        or actual == TealType.none\n        or ", "        expected == TealType.none\n        or ", "R05.6")
V("while-cond-unchecked", "C05", "pyteal/ast/while_.py", "        require_type(cond, TealType.uint64)\n", "", "R05.10")
V("for-step-unchecked", "C05", "pyteal/ast/for_.py", "        require_type(step, TealType.none)\n", "", "R05.10")
V("seq-check-all-but-first", "C05", "pyteal/ast/seq.py", "            if i + 1 < len(exprs):", "            if 0 < i + 1 < len(exprs) - 1:", "R05.10")

# ------------------------------------------------------------------------------- C04
V("sweep-mode-dropped", "C04", "pyteal/compiler/compiler.py", "        verifyOpsForMode(components, options.mode)\n", "", None)
V("sweep-version-off-by-one", "C04", "pyteal/compiler/compiler.py", "            if op.min_version > version:", "            if op.min_version > version + 1:", "R04.5")
V("sweep-before-flatten", "C04", "pyteal/compiler/compiler.py", "        verifyOpsForVersion(components, options.version)\n", "        verifyOpsForVersion(components, options.version) if False else None\n", "R04.5")
V("assemble-accepts-slot", "C04", "pyteal/ir/tealop.py", "            if isinstance(arg, ScratchSlot):\n                raise TealInternalError(\"Slot not assigned: {}\".format(arg))\n", "", "R04.6")
V("assignslot-first-only", "C04", "pyteal/ir/tealop.py", "            if slot == arg:\n                self.args[i] = location", "            if slot == arg:\n                self.args[i] = location\n                break", "R04.6")
V("label-prefix-missing-sep", "C04", "pyteal/compiler/flatten.py", "        labelPrefix = label + \"_\"", "        labelPrefix = label", "R04.7")
V("sub-label-no-index", "C04", "pyteal/compiler/subroutines.py", "        subroutineToLabel[subroutine] = \"{}_{}\".format(safer_name, index)", "        subroutineToLabel[subroutine] = \"{}_{}\".format(safer_name, len(safer_name))", "R04.7")
V("if-has-return-or", "C04", "pyteal/ast/if_.py", "        return self.thenBranch.has_return() and self.elseBranch.has_return()", "        return self.thenBranch.has_return() or self.elseBranch.has_return()", "R04.8")
V("seq-has-return-nonempty", "C04", "pyteal/ast/seq.py", "        return self.args[-1].has_return()", "        return self.args[0].has_return() or self.args[-1].has_return() or len(self.args) > 2", "R04.8")
V("op-minversion-accessor", "C04", "pyteal/ir/ops.py", "        return self.value.min_version", "        return min(self.value.min_version, 2)", "R04.0")
V("op-row-version", "C04", "pyteal/ir/ops.py", "OpType(\"sha3_256\",            Mode.Signature | Mode.Application,  7)", "OpType(\"sha3_256\",            Mode.Signature | Mode.Application,  6)", "R04.1")
V("constants-at-v2", "C04", "pyteal/compiler/compiler.py", "            if self.version < 3:", "            if self.version < 2:", "R04.5")
V("twin-sweep-rename", "C04", "pyteal/compiler/compiler.py", "        verifyOpsForVersion(components, options.version)\n        verifyOpsForMode(components, options.mode)", "        verifyOpsForMode(components, options.mode)\n        verifyOpsForVersion(components, options.version)", None, "quiet")

# ------------------------------------------------------------------------------- C03
V("opt-scan-from-current", "C03", "pyteal/compiler/optimizer/optimizer.py", "    for block in TealBlock.Iterate(start):\n        for i, op in enumerate(block.ops):", "    for block in TealBlock.Iterate(cur_block):\n        for i, op in enumerate(block.ops):", "R03.2")
V("opt-skip-ignored", "C03", "pyteal/compiler/optimizer/optimizer.py", "        if set(op.getSlots()).issubset(skip_slots):\n            continue\n", "", "R03.3")
V("opt-skip-no-globals", "C03", "pyteal/compiler/scratchslots.py", "    unoptimized_slots.update(global_slots)\n", "", "R03.1")
V("opt-skip-no-dynamic", "C03", "pyteal/compiler/scratchslots.py", "                if op.op == Op.int or slot.isReservedSlot:", "                if slot.isReservedSlot:", "R03.1")
V("opt-default-v8", "C03", "pyteal/compiler/compiler.py", "DEFAULT_SCRATCH_SLOT_OPTIMIZE_VERSION = 9", "DEFAULT_SCRATCH_SLOT_OPTIMIZE_VERSION = 8", "R03.4")
V("fp-true-below-8-accepted", "C03", "pyteal/compiler/optimizer/optimizer.py", "        if self._frame_pointers:\n            verifyProgramVersion(", "        if self._frame_pointers and version < 0:\n            verifyProgramVersion(", "R03.4")
V("opt-different-slot-cancel", "C03", "pyteal/compiler/optimizer/optimizer.py", "        if cur_slots[0] != next_slots[0]:\n            continue\n", "", "R03.3")

# ------------------------------------------------------------------------------- C08
V("callconfig-call-eq-zero", "C08", "pyteal/ast/router.py", "            case CallConfig.CALL:\n                return Txn.application_id() != Int(0)", "            case CallConfig.CALL:\n                return Txn.application_id() == Int(0)", "R08.1")
V("methodconfig-pair-swap", "C08", "pyteal/ast/router.py", "            (self.opt_in, OnComplete.OptIn),\n            (self.close_out, OnComplete.CloseOut),\n            (self.update_application", "            (self.opt_in, OnComplete.CloseOut),\n            (self.close_out, OnComplete.OptIn),\n            (self.update_application", "R08.1")
V("methodconfig-all-short-circuit", "C08", "pyteal/ast/router.py", "        elif all(config == CallConfig.ALL for config, _ in config_oc_pairs):", "        elif any(config == CallConfig.ALL for config, _ in config_oc_pairs):", "R08.1")
V("bare-pair-swap", "C08", "pyteal/ast/router.py", "            (OnComplete.UpdateApplication, self.update_application),\n            (OnComplete.DeleteApplication, self.delete_application),\n        ]\n        if all(oca.is_empty()", "            (OnComplete.UpdateApplication, self.delete_application),\n            (OnComplete.DeleteApplication, self.update_application),\n        ]\n        if all(oca.is_empty()", "R08.2")
V("bare-create-unguarded", "C08", "pyteal/ast/router.py", "                case CallConfig.ALL:\n                    cond_body = wrapped_handler\n                case CallConfig.CALL | CallConfig.CREATE:", "                case CallConfig.ALL | CallConfig.CREATE:\n                    cond_body = wrapped_handler\n                case CallConfig.CALL:", "R08.2")
V("method-assert-after-handler", "C08", "pyteal/ast/router.py", "            res = Seq(Assert(self.condition), res)", "            res = Seq(res, Assert(self.condition))", "R08.4")
V("bare-no-numargs-guard", "C08", "pyteal/ast/router.py", "                        cond := Txn.application_args.length() == Int(0),", "                        cond := Txn.application_args.length() >= Int(0),", "R08.4")
V("never-method-registered", "C08", "pyteal/ast/router.py", "        if method_config.is_never():\n            raise TealInputError(\n                f\"registered method {method_signature} is never executed\"\n            )\n", "", "R08.5")
V("clear-state-approve-default", "C08", "pyteal/ast/router.py", "            Reject()\n            if clear_state is None", "            Approve()\n            if clear_state is None", "R08.5")
V("wrap-no-approve", "C08", "pyteal/ast/router.py", "                    return handler if handler.has_return() else Seq(handler, Approve())", "                    return handler", "R08.2")

# ------------------------------------------------------------------------------- C09
V("decode-index-off-by-one", "C09", "pyteal/ast/router.py", "            app_arg.decode(Txn.application_args[idx + 1])", "            app_arg.decode(Txn.application_args[idx])", "R09.1")
V("cutoff-slice-one-side", "C09", "pyteal/ast/router.py", "            app_arg_vals = app_arg_vals[: METHOD_ARG_NUM_CUTOFF - 1]", "            app_arg_vals = app_arg_vals[: METHOD_ARG_NUM_CUTOFF]", "R09.1")
V("cutoff-ge", "C09", "pyteal/ast/router.py", "        tuplify = len(app_arg_vals) > METHOD_ARG_NUM_CUTOFF", "        tuplify = len(app_arg_vals) >= METHOD_ARG_NUM_CUTOFF", "R09.1")
V("txn-index-plus", "C09", "pyteal/ast/router.py", "                    arg_val._set_index(Txn.group_index() - Int(txn_arg_len - idx))", "                    arg_val._set_index(Txn.group_index() - Int(txn_arg_len - idx - 1))", "R09.1")
V("txn-type-assert-dropped", "C09", "pyteal/ast/router.py", "                if type(spec) is not abi.TransactionTypeSpec:", "                if type(spec) is abi.TransactionTypeSpec and False:", "R09.1")
V("frame-index-ignores-output", "C09", "pyteal/ast/router.py", "                arg_val._stored_value = FrameVar(proto, i + index_start_from)", "                arg_val._stored_value = FrameVar(proto, i)", "R09.1")
V("detuple-wrong-element", "C09", "pyteal/ast/router.py", "                tupled_arg[idx].store_into(arg_val)\n                for idx, arg_val in enumerate(tupled_app_args)", "                tupled_arg[idx].store_into(arg_val)\n                for idx, arg_val in enumerate(reversed(tupled_app_args))", "R09.1")
V("vanilla-no-method-return", "C09", "pyteal/ast/router.py", "                handler_evald.store_into(output_temp),\n                abi.MethodReturn(output_temp),\n                Approve(),", "                handler_evald.store_into(output_temp),\n                Approve(),", "R09.4")
V("fp-double-log", "C09", "pyteal/ast/router.py", "                returned_val.store_into(output_temp),\n                abi.MethodReturn(output_temp),\n            ]", "                returned_val.store_into(output_temp),\n                abi.MethodReturn(output_temp),\n                abi.MethodReturn(output_temp),\n            ]", "R09.4")
V("contract-name-mismatch", "C09", "pyteal/ast/router.py", "            meth.name = overriding_name\n", "            pass\n", "R09.5")
V("method-return-order", "C09", "pyteal/ast/abi/method_return.py", "Log(Concat(Bytes(RETURN_HASH_PREFIX), self.arg.encode()))", "Log(Concat(self.arg.encode(), Bytes(RETURN_HASH_PREFIX)))", "R09.4")

# ------------------------------------------------------------------------------- C06
V("bool-seq-length-floor", "C06", "pyteal/ast/abi/bool.py", "    return (num_bools + NUM_BITS_IN_BYTE - 1) // NUM_BITS_IN_BYTE", "    return max(1, num_bools // NUM_BITS_IN_BYTE)", None)
V("static-array-bool-unpacked", "C06", "pyteal/ast/abi/array_static.py", "        if value_type == BoolTypeSpec():\n            return _bool_sequence_length(length)\n", "", "R06.1")
V("uint-encode-16-wrong-suffix", "C06", "pyteal/ast/abi/uint.py", "        return Suffix(Itob(uint_var), Int(6))", "        return Suffix(Itob(uint_var), Int(5))", "R06.3")
V("uint-set-no-assert-32", "C06", "pyteal/ast/abi/uint.py", "    if checked or size == 64:", "    if checked or size >= 32:", "R06.3")
V("tuple-head-dynamic-4", "C06", "pyteal/ast/abi/tuple.py", "        if elemType.is_dynamic():\n            head_length_static += 2", "        if elemType.is_dynamic():\n            head_length_static += 4", "R06.2")
V("tuple-accumulator-always", "C06", "pyteal/ast/abi/tuple.py", "                    tail_offset.get() + Len(encoded_tail.load())", "                    tail_offset.get() + Len(tail_holder.load())", "R06.2")
V("dyn-array-no-prefix", "C06", "pyteal/ast/abi/array_base.py", "            encoded = Concat(length_prefix, encoded)", "            encoded = Concat(encoded, length_prefix)", "R06.4")
V("address-str", "C06", "pyteal/ast/abi/address.py", "        return \"address\"", "        return \"byte[32]\"", "R06.1")
V("string-not-dynamic", "C06", "pyteal/ast/abi/array_dynamic.py", "    def is_dynamic(self) -> bool:\n        return True", "    def is_dynamic(self) -> bool:\n        return self.value_type_spec().is_dynamic()", "R06.1")

# ------------------------------------------------------------------------------- C16
V("wideratio-swap-missing", "C16", "pyteal/ast/widemath.py", "                TealOp(self, Op.swap),  # swap quotient high and low words\n", "", "R16.1")
V("wideratio-addw", "C16", "pyteal/ast/widemath.py", "                    TealOp(\n                        expr, Op.add\n                    ),", "                    TealOp(\n                        expr, Op.addw\n                    ),", None)
V("wideratio-one-factor-highword-after", "C16", "pyteal/ast/widemath.py", "        start.setNextBlock(highword)\n        highword.setNextBlock(fac0Start)\n\n        end = fac0End", "        start.setNextBlock(fac0Start)\n        fac0End.setNextBlock(highword)\n\n        end = highword", "R16.1")
V("wideratio-dig-0", "C16", "pyteal/ast/widemath.py", "                    TealOp(expr, Op.dig, 1),  # stack: [..., B, C, A, C]", "                    TealOp(expr, Op.dig, 0),  # stack: [..., B, C, A, C]", "R16.1")
V("wideratio-no-assert", "C16", "pyteal/ast/widemath.py", "                TealOp(self, Op.logic_not),\n                TealOp(self, Op.assert_),  # assert quotient high word is 0", "                TealOp(self, Op.pop),", "R16.1")


# ------------------------------------------------------------------------------- behaviour-preserving twins (local renames)
T("sort-order", ["C01"], "pyteal/compiler/sort.py", "sortBlocks", "order", "ordered")
T("sort-visited", ["C01"], "pyteal/compiler/sort.py", "sortBlocks", "visited", "seen")
T("flatten-code", ["C01", "C04"], "pyteal/compiler/flatten.py", "flattenBlocks", "code", "ops_of_block")
T("flatten-trueindex", ["C01", "C04"], "pyteal/compiler/flatten.py", "flattenBlocks", "trueIndex", "tIdx")
T("flatten-references", ["C01", "C04"], "pyteal/compiler/flatten.py", "flattenBlocks", "references", "refcount")
T("normalize-outgoing", ["C01", "C20"], "pyteal/ir/tealblock.py", "NormalizeBlocks", "outgoingBlock", "succ")
T("normalize-prev", ["C01", "C20"], "pyteal/ir/tealblock.py", "NormalizeBlocks", "prev", "pred")
T("compile-ret-expr", ["C01"], "pyteal/compiler/compiler.py", "compileSubroutine", "ret_expr", "implicit_return")
T("compile-start", ["C01", "C20"], "pyteal/compiler/compiler.py", "compileSubroutine", "deferred_start", "dstart")
T("impl-components", ["C04", "C12", "C15"], "pyteal/compiler/compiler.py", "_compile_impl", "components", "comps")
T("impl-teal-code", ["C15", "C04"], "pyteal/compiler/compiler.py", "_compile_impl", "teal_code", "program_text")
T("impl-options", ["C03", "C04", "C11", "C17"], "pyteal/compiler/compiler.py", "_compile_impl", "options", "copts")
T("impl-start-blocks", ["C03", "C11", "C17"], "pyteal/compiler/compiler.py", "_compile_impl", "subroutine_start_blocks", "starts")
T("spill-before", ["C02", "C05"], "pyteal/compiler/subroutines.py", "spillLocalSlotsDuringRecursion", "before", "pre_ops")
T("spill-slots", ["C02", "C05", "C11"], "pyteal/compiler/subroutines.py", "spillLocalSlotsDuringRecursion", "slots", "spilled")
T("spill-k", ["C02"], "pyteal/compiler/subroutines.py", "spillLocalSlotsDuringRecursion", "k", "caller_def")
T("assign-allslots", ["C10", "C11", "C17", "C20"], "pyteal/compiler/scratchslots.py", "assignScratchSlotsToSubroutines", "allSlots", "every_slot")
T("assign-slotids", ["C10", "C20"], "pyteal/compiler/scratchslots.py", "assignScratchSlotsToSubroutines", "slotIds", "taken")
T("assign-errors", ["C17", "C10"], "pyteal/compiler/scratchslots.py", "assignScratchSlotsToSubroutines", "errors", "problems")
T("optimizer-slots-to-remove", ["C03", "C05", "C18"], "pyteal/compiler/optimizer/optimizer.py", "_apply_slot_to_stack", "slots_to_remove", "dead")
T("constants-intblock", ["C12"], "pyteal/compiler/constants.py", "createConstantBlocks", "intBlock", "int_block")
T("constants-assembled", ["C12"], "pyteal/compiler/constants.py", "createConstantBlocks", "assembled", "out")
T("router-method-signature", ["C08", "C09"], "pyteal/ast/router.py", "add_method_handler", "method_signature", "sig")
T("router-meth", ["C08", "C09"], "pyteal/ast/router.py", "add_method_handler", "meth", "spec_obj")
T("router-decode-instr", ["C09"], "pyteal/ast/router.py", "__decode_constructions_and_args", "decode_instructions", "steps")
T("router-tuplify", ["C09"], "pyteal/ast/router.py", "__decode_constructions_and_args", "tuplify", "needs_tuple")
T("router-approval-pairs", ["C08"], "pyteal/ast/router.py", "approval_cond", "config_oc_pairs", "pairs")
T("methodcall-app-args", ["C14", "C19"], "pyteal/ast/itxn.py", "MethodCall", "app_args", "call_args")
T("methodcall-arg", ["C14", "C19"], "pyteal/ast/itxn.py", "MethodCall", "arg", "given")
T("invoke-arg-type", ["C19", "C02"], "pyteal/ast/subroutine.py", "invoke", "arg_type", "expected")
T("evaluate-body-ops", ["C02"], "pyteal/ast/subroutine.py", "evaluate", "body_ops", "prologue")
T("encode-tuple-heads", ["C06"], "pyteal/ast/abi/tuple.py", "_encode_tuple", "heads", "head_exprs")
T("index-tuple-offset", ["C07"], "pyteal/ast/abi/tuple.py", "_index_tuple", "offset", "byte_off")
T("validate-slots-current", ["C17", "C20"], "pyteal/ir/tealblock.py", "validateSlots", "currentSlotsInUse", "live")
T("vlq-results", ["C15"], "pyteal/compiler/sourcemap.py", "_base64vlq_decode", "results", "out")
T("tojson-mappings", ["C15"], "pyteal/compiler/sourcemap.py", "to_json", "mappings", "lines_out")
T("assert-conds", ["C18", "C01"], "pyteal/ast/assert_.py", "__teal__", "conds", "operands")
T("return-op", ["C02", "C01"], "pyteal/ast/return_.py", "__teal__", "op", "opcode")
T("wideratio-combine", ["C05", "C16"], "pyteal/ast/widemath.py", "__teal__", "combine", "tail")
T("cleaning-context", ["C10", "C11"], "pyteal/ast/router.py", "_cleaning_context", "starting_slot_id", "saved_id")
T("frame-context", ["C11"], "pyteal/ast/subroutine.py", "_frame_pointer_context", "tmp", "saved")
T("validate-tree-pending", ["C20"], "pyteal/ir/tealblock.py", "validateTree", "pending", "todo")

# ------------------------------------------------------------------------------- more fire variants
V("sort-end-not-last", "C01", "pyteal/compiler/sort.py", "    order.pop(endIndex)\n    order.append(end)\n", "", "R01.5")
V("sort-no-visited-check", "C01", "pyteal/compiler/sort.py", "        if id(n) in visited:\n            continue\n", "        if id(n) in visited and len(order) > 3:\n            continue\n", "R01.5")
V("flatten-bz-bnz-swapped", "C01", "pyteal/compiler/flatten.py", "                code.append(TealOp(root_expr, Op.bz, indexToLabel(falseIndex)))  # T2PT5", "                code.append(TealOp(root_expr, Op.bnz, indexToLabel(falseIndex)))  # T2PT5", "R01.4")
V("normalize-start-noop", "C01", "pyteal/ir/tealblock.py", "                        start = outgoingBlock", "                        start = block", "R01.6")
V("replace-outgoing-elif", "C20", "pyteal/ir/tealconditionalblock.py", "        if self.falseBlock is oldBlock:", "        elif self.falseBlock is oldBlock:", "R01.7")
V("minus-uses-add", "C01", "pyteal/ast/binaryexpr.py", "    return BinaryExpr(Op.minus, TealType.uint64, TealType.uint64, left, right)", "    return BinaryExpr(Op.add, TealType.uint64, TealType.uint64, left, right)", "R01.8")
V("lt-operands-swapped", "C01", "pyteal/ast/binaryexpr.py", "    return BinaryExpr(Op.lt, TealType.uint64, TealType.uint64, left, right)", "    return BinaryExpr(Op.lt, TealType.uint64, TealType.uint64, right, left)", "R01.1")
V("expr-sub-reflected", "C01", "pyteal/ast/expr.py", "        return Minus(self, other)", "        return Minus(other, self)", "R01.8")
V("implicit-return-dropped", "C01", "pyteal/compiler/compiler.py", "    if not ast.has_return():\n        if ast.type_of() == TealType.none:", "    if not ast.has_return() and False:\n        if ast.type_of() == TealType.none:", "R01.10")
V("frame-context-no-finally", "C11", "pyteal/ast/subroutine.py", "    try:\n        yield proto\n    finally:\n        SubroutineEval._current_proto = tmp", "    yield proto\n    SubroutineEval._current_proto = tmp", "R11.3")
V("new-global-cache", "C11", "pyteal/ast/int.py", "        super().__init__()\n\n        if type(value) is not int:", "        super().__init__()\n        Int._seen = getattr(Int, '_seen', 0) + 1\n        if type(value) is not int:", "R11.1")
V("spill-unsorted", "C11", "pyteal/compiler/subroutines.py", "        slots = list(sorted(slot for slot in localSlots[subroutine]))", "        slots = list(localSlots[subroutine])", "R11.4")
V("teal-stores-state", "C11", "pyteal/ast/seq.py", "        start = TealSimpleBlock([])\n        end = start\n        for arg in self.args:", "        start = TealSimpleBlock([])\n        self.last_start = start\n        end = start\n        for arg in self.args:", "R11.5")
V("validate-slots-recursion-assert", "C20", "pyteal/compiler/flatten.py", "    teal: list[TealComponent] = []\n    root_expr = None", "    teal: list[TealComponent] = []\n    assert len(codeblocks) == len(blocks)\n    root_expr = None", "R20.1")
V("block-structural-compare", "C20", "pyteal/compiler/optimizer/optimizer.py", "            if block is cur_block and i == pos:", "            if block == cur_block and i == pos:", "R20.3")
V("slot-limit-ge", "C10", "pyteal/compiler/scratchslots.py", "    if len(allSlots) > NUM_SLOTS:", "    if len(allSlots) >= NUM_SLOTS:", "R10.1")
V("r7-dup-request-only-among-unshared", "C10", "pyteal/compiler/scratchslots.py", "    for slot in allSlots:\n        if not slot.isReservedSlot:\n            continue\n\n        # If there are two", "    for slot in allSlots - global_slots:\n        if not slot.isReservedSlot:\n            continue\n\n        # If there are two", "R10.1")
V("r7-dup-request-sorted-walk-twin", "C10", "pyteal/compiler/scratchslots.py", "    for slot in allSlots:\n        if not slot.isReservedSlot:\n            continue\n\n        # If there are two", "    for slot in sorted(allSlots, key=lambda s: s.id):\n        if not slot.isReservedSlot:\n            continue\n\n        # If there are two", None, "quiet")
V("r7-slot0-not-reserved-c03", "C03", "pyteal/ast/scratch.py", "            self.id = requestedSlotId\n            self.isReservedSlot = True", "            self.id = requestedSlotId\n            self.isReservedSlot = bool(requestedSlotId)", "R10.2")
V("r7-acct-field-version-c01", "C01", "pyteal/ast/acct.py", 'TealType.uint64, 8)  # noqa: E221\n    total_num_byte_slice', 'TealType.uint64, 6)  # noqa: E221\n    total_num_byte_slice', "R04.2")
V("r8-recursive-path-visited-late", "C20", "pyteal/compiler/subroutines.py", "        visited.add(x)\n        loop.append(x)", "        loop.append(x)", "R02.4p")
V("r8-recursive-path-visited-late-c02", "C02", "pyteal/compiler/subroutines.py", "        visited.add(x)\n        loop.append(x)", "        loop.append(x)", "R02.4p")
V("r8-recursive-path-twin", "C02", "pyteal/compiler/subroutines.py", "        visited.add(x)\n        loop.append(x)", "        loop.append(x)\n        visited.add(x)", None, "quiet")
V("slot-requested-range", "C10", "pyteal/ast/scratch.py", "            if requestedSlotId < 0 or requestedSlotId >= NUM_SLOTS:", "            if requestedSlotId < 0 or requestedSlotId > NUM_SLOTS:", "R10.2")
V("slot-eq-by-id", "C10", "pyteal/ast/scratch.py", "    def __repr__(self):\n        return \"ScratchSlot({})\".format(self.id)", "    def __eq__(self, other):\n        return isinstance(other, ScratchSlot) and self.id == other.id\n\n    def __hash__(self):\n        return hash(self.id)\n\n    def __repr__(self):\n        return \"ScratchSlot({})\".format(self.id)", "R10.2")
V("validate-memo-block-only", "C17", "pyteal/ir/tealblock.py", "                visitedKey = (id(block), *sorted(slot.id for slot in inUse))", "                visitedKey = (id(block),)", "R17.1")
V("validate-store-after-load", "C17", "pyteal/ir/tealblock.py", "                if op.getOp() == Op.store:\n                    for slot in op.getSlots():\n                        currentSlotsInUse.add(slot)\n\n                if op.getOp() == Op.load:", "                if op.getOp() == Op.load:", None)
V("index-tuple-dynamic-head-4", "C07", "pyteal/ast/abi/tuple.py", "        if typeBefore.is_dynamic():\n            offset += 2\n            continue", "        if typeBefore.is_dynamic():\n            offset += 4\n            continue", "R07.1")
V("uint-decode-16-uses-32", "C07", "pyteal/ast/abi/uint.py", "    if size == 16:\n        return uint_var.store(ExtractUint16(encoded, start_index))", "    if size == 16:\n        return uint_var.store(ExtractUint32(encoded, start_index))", "R07.2")
V("array-elem-no-prefix-skip", "C07", "pyteal/ast/abi/array_base.py", "        if arrayType.is_length_dynamic():\n            byteIndex = byteIndex + Int(Uint16TypeSpec().byte_length_static())", "        if arrayType.is_length_dynamic() and False:\n            byteIndex = byteIndex + Int(Uint16TypeSpec().byte_length_static())", "R07.3")
V("constants-enum-value", "C12", "pyteal/compiler/constants.py", "    \"CloseOut\": 2,", "    \"CloseOut\": 3,", "R12.2")
V("constants-byte-index-sorted", "C12", "pyteal/compiler/constants.py", "                index = blockBytes.index(byteValue)", "                index = sortedBytes.index(byteValue)", None, "quiet")
V("constants-small-int-threshold", "C12", "pyteal/compiler/constants.py", "        if intFreqs[val] > 1 and (i < 4 or isinstance(val, str) or val >= 2**7)", "        if intFreqs[val] > 1 and (i < 4 or isinstance(val, str) or val >= 2**8)", None, "quiet")
V("escape-no-quote-escape", "C13", "pyteal/util.py", "    s = s.replace('\"', '\\\\\"')\n\n    # Surround", "    # Surround", "R13.3")
V("base32-lowercase-ok", "C13", "pyteal/types.py", "r\"^(?:[A-Z2-7]{8})*(?:([A-Z2-7]{2}([=]{6})?)", "r\"^(?:[A-Za-z2-7]{8})*(?:([A-Z2-7]{2}([=]{6})?)", "R13.2")
V("int-accepts-bool", "C13", "pyteal/ast/int.py", "        if type(value) is not int:", "        if not isinstance(value, int):", "R13.2")
V("methodcall-asset-one-based", "C14", "pyteal/ast/itxn.py", "                    case abi.AssetTypeSpec():\n                        app_args.append(\n                            Bytes(\n                                algosdk.abi.ABIType.from_string(\"uint8\").encode(\n                                    len(assets)\n                                )", "                    case abi.AssetTypeSpec():\n                        app_args.append(\n                            Bytes(\n                                algosdk.abi.ABIType.from_string(\"uint8\").encode(\n                                    len(assets) + 1\n                                )", "R14.1")
V("methodcall-next-before", "C14", "pyteal/ast/itxn.py", "            *[Seq(ttp, InnerTxnBuilder.Next()) for ttp in txns_to_pass],", "            *[Seq(InnerTxnBuilder.Next(), ttp) for ttp in txns_to_pass],", "R14.1")
V("vlq-sign-bit", "C15", "pyteal/compiler/sourcemap.py", "        v = (abs(v) << 1) | int(v < 0)", "        v = (abs(v) << 1) | int(v <= 0)", "R15.4")
V("sourcemap-branch-on-frames", "C15", "pyteal/compiler/flatten.py", "        if block.isTerminal():\n            continue\n", "        if block.isTerminal() or (block._sframes_container is None and False):\n            continue\n", "R15.1")
V("identity-check-dropped", "C15", "pyteal/compiler/compiler.py", "            _PyTealSourceMapper._validate_teal_identical(\n                teal_code_wo,\n                teal_code,\n                msg=\"FATAL ERROR. Program without sourcemaps (LEFT) differs from Program with (RIGHT)\",\n            )\n", "            pass\n", None)
V("comment-splitlines-dropped", "C18", "pyteal/ast/comment.py", "    lines = comment.splitlines()", "    lines = [comment]", "R18.1")
V("nonce-child-first", "C18", "pyteal/ast/nonce.py", "        self.seq = Seq([Pop(self.nonce_bytes), self.child])", "        self.seq = Seq([self.child, Pop(self.nonce_bytes)])", "R18.1")
V("assignable-uint-any-size", "C19", "pyteal/ast/abi/util.py", "            return a.size == b.size", "            return a.size <= b.size", "R19.1")
V("assignable-static-length-ignored", "C19", "pyteal/ast/abi/util.py", "                case StaticArrayTypeSpec(), StaticArrayTypeSpec():\n                    a, b = cast(StaticArrayTypeSpec, a), cast(StaticArrayTypeSpec, b)\n                    return a.length_static() == b.length_static()", "                case StaticArrayTypeSpec(), StaticArrayTypeSpec():\n                    return True", "R19.1")

# ------------------------------------------------------------------------------- behaviour-preserving twins (restructuring)
V("twin-for-reorder-edges", "C01", "pyteal/ast/for_.py", "        stepEnd.setNextBlock(condStart)\n        stepEnd._sframes_container = self\n        doEnd.setNextBlock(stepStart)", "        doEnd.setNextBlock(stepStart)\n        stepEnd.setNextBlock(condStart)\n        stepEnd._sframes_container = self", None, "quiet")
V("twin-router-table-order", "C08", "pyteal/ast/router.py", "        self.method_sig_to_selector[method_signature] = method_selector\n        self.method_selector_to_sig[method_selector] = method_signature", "        self.method_selector_to_sig[method_selector] = method_signature\n        self.method_sig_to_selector[method_signature] = method_selector", None, "quiet")
V("twin-optimizer-split-if", "C03", "pyteal/compiler/optimizer/optimizer.py", "        if type(next_op) is not TealOp or next_op.op != Op.load:\n            continue", "        if type(next_op) is not TealOp:\n            continue\n        if next_op.op != Op.load:\n            continue", None, "quiet")
V("twin-escape-split-chain", "C13", "pyteal/util.py", "    s = s.encode(\"utf-8\").decode(\"latin-1\").encode(\"unicode-escape\").decode(\"latin-1\")", "    raw = s.encode(\"utf-8\").decode(\"latin-1\")\n    s = raw.encode(\"unicode-escape\").decode(\"latin-1\")", None, "quiet")
V("twin-uint-encode-computed", "C06", "pyteal/ast/abi/uint.py", "    if size == 16:\n        return Suffix(Itob(uint_var), Int(6))\n    if size == 32:\n        return Suffix(Itob(uint_var), Int(4))", "    if size in (16, 32):\n        return Suffix(Itob(uint_var), Int(8 - size // 8))", None, "quiet")
V("twin-index-tuple-augassign", "C07", "pyteal/ast/abi/tuple.py", "        if typeBefore.is_dynamic():\n            offset += 2\n            continue", "        if typeBefore.is_dynamic():\n            offset = offset + 2\n            continue", None, "quiet")
V("twin-spill-helper-var", "C02", "pyteal/compiler/subroutines.py", "                    stackDistance = len(slots) + numArgs - 1", "                    nslots = len(slots)\n                    stackDistance = nslots + numArgs - 1", None, "quiet")
V("twin-approval-cond-elif", "C08", "pyteal/ast/router.py", "        if all(config == CallConfig.NEVER for config, _ in config_oc_pairs):\n            return 0\n        elif all(config == CallConfig.ALL for config, _ in config_oc_pairs):\n            return 1\n        else:", "        if all(config == CallConfig.NEVER for config, _ in config_oc_pairs):\n            return 0\n        if all(config == CallConfig.ALL for config, _ in config_oc_pairs):\n            return 1\n        if True:", None, "quiet")
V("twin-validate-slots-listcomp", "C17", "pyteal/ir/tealblock.py", "                visitedKey = (id(block), *sorted(slot.id for slot in inUse))", "                visitedKey = (id(block), *sorted([slot.id for slot in inUse]))", None, "quiet")
V("twin-has-return-if-explicit", "C04", "pyteal/ast/seq.py", "        if len(self.args) == 0:\n            return False\n        return self.args[-1].has_return()", "        if not self.args:\n            return False\n        last = self.args[-1]\n        return last.has_return()", None, "quiet")
V("twin-error-message", "C20", "pyteal/compiler/scratchslots.py", "\"Too many slots in use: {}, maximum is {}\".format(len(allSlots), NUM_SLOTS)", "\"Too many scratch slots are in use: {} (maximum {})\".format(len(allSlots), NUM_SLOTS)", None, "quiet")
V("twin-decode-enumerate-start", "C09", "pyteal/ast/router.py", "            app_arg.decode(Txn.application_args[idx + 1])\n            for idx, app_arg in enumerate(app_arg_vals)", "            app_arg.decode(Txn.application_args[idx])\n            for idx, app_arg in enumerate(app_arg_vals, start=1)", None, "quiet")

# ------------------------------------------------------------------------------- round 2: semantic graph / object-world rules
V("normalize-ops-order", "C01", "pyteal/ir/tealblock.py", "                    block.ops = prev.ops + block.ops", "                    block.ops = block.ops + prev.ops", "R01.6e")
V("normalize-merge-when-two-incoming", "C01", "pyteal/ir/tealblock.py", "            if len(block.incoming) == 1:\n                prev = block.incoming[0]", "            if len(block.incoming) >= 1:\n                prev = block.incoming[0]", "R01.6e")
V("twin-normalize-local-name", "C01", "pyteal/ir/tealblock.py", "                prevOutgoing = prev.getOutgoing()\n                if len(prevOutgoing) == 1 and prevOutgoing[0] is block:", "                outs = prev.getOutgoing()\n                if len(outs) == 1 and outs[0] is block:", None, "quiet")
V("flatten-bz-to-true", "C01", "pyteal/compiler/flatten.py", "                code.append(TealOp(root_expr, Op.bz, indexToLabel(falseIndex)))  # T2PT5", "                code.append(TealOp(root_expr, Op.bz, indexToLabel(trueIndex)))  # T2PT5", "R01.4e")
V("flatten-skip-referer", "C20", "pyteal/compiler/flatten.py", "            references[falseIndex] += 1\n            add_if_new(falseIndex, i)\n            code.append(TealOp(root_expr, Op.b, indexToLabel(falseIndex)))  # T2PT5", "            references[falseIndex] += 1\n            code.append(TealOp(root_expr, Op.b, indexToLabel(falseIndex)))  # T2PT5", "R01.4e")
V("twin-flatten-label-helper", "C01", "pyteal/compiler/flatten.py", "        if index not in labelRefs:\n            labelRefs[index] = LabelReference(\"l{}\".format(index))\n        return labelRefs[index]", "        ref = labelRefs.get(index)\n        if ref is None:\n            ref = LabelReference(\"l{}\".format(index))\n            labelRefs[index] = ref\n        return ref", None, "quiet")
V("isterminal-last-op-only", "C18", "pyteal/ir/tealblock.py", "        for op in self.ops:\n            if op.getOp() in (Op.return_, Op.retsub, Op.err):\n                return True\n        return len(self.getOutgoing()) == 0", "        if self.ops and self.ops[-1].getOp() in (Op.return_, Op.retsub, Op.err):\n            return True\n        return len(self.getOutgoing()) == 0", "R01.13")
V("twin-isterminal-any", "C01", "pyteal/ir/tealblock.py", "        for op in self.ops:\n            if op.getOp() in (Op.return_, Op.retsub, Op.err):\n                return True\n        return len(self.getOutgoing()) == 0", "        if any(op.getOp() in (Op.return_, Op.retsub, Op.err) for op in self.ops):\n            return True\n        return len(self.getOutgoing()) == 0", None, "quiet")
V("suffix-immediate-range", "C07", "pyteal/ast/substring.py", "        if s < 2**8:\n            return Op.extract\n        else:\n            return Op.substring3\n\n    def __teal__(self, options: \"CompileOptions\"):\n        op = self.__get_op(options)", "        if s < 2**9:\n            return Op.extract\n        else:\n            return Op.substring3\n\n    def __teal__(self, options: \"CompileOptions\"):\n        op = self.__get_op(options)", "R04.4")
V("substring-extract-length-off-by-one", "C07", "pyteal/ast/substring.py", "        if op == Op.extract:\n            length = end - start\n            return TealBlock.FromOp(", "        if op == Op.extract:\n            length = end - start + 1\n            return TealBlock.FromOp(", "R07.4")
V("extract-to-substring3-args", "C07", "pyteal/ast/substring.py", "        elif op == Op.extract3:\n            return TealBlock.FromOp(\n                options,\n                TealOp(self, op),\n                self.stringArg,\n                self.startArg,\n                self.lenArg,\n            )", "        elif op == Op.extract3:\n            return TealBlock.FromOp(\n                options,\n                TealOp(self, Op.substring3),\n                self.stringArg,\n                self.startArg,\n                self.lenArg,\n            )", "R07.4")
V("twin-substring-length-inline", "C07", "pyteal/ast/substring.py", "        elif op == Op.extract3:\n            length = end - start\n            return TealBlock.FromOp(\n                options,\n                TealOp(self, op),\n                self.stringArg,\n                self.startArg,\n                Int(length),\n            )", "        elif op == Op.extract3:\n            return TealBlock.FromOp(\n                options,\n                TealOp(self, op),\n                self.stringArg,\n                self.startArg,\n                Int(end - start),\n            )", None, "quiet")
V("index-tuple-bool-run-not-reset", "C07", "pyteal/ast/abi/tuple.py", "                boolLength = _consecutive_bool_type_spec_num(value_types, i)\n                nextDynamicValueOffset += _bool_sequence_length(boolLength)\n                ignoreNext = boolLength - 1\n                continue", "                boolLength = _consecutive_bool_type_spec_num(value_types, i)\n                nextDynamicValueOffset += _bool_sequence_length(boolLength)\n                ignoreNext = boolLength\n                continue", "R07.1")
V("graph-search-shared-visited", "C02", "pyteal/compiler/subroutines.py", "        if current in visited:\n            continue\n        visited.add(current)\n        if end == current:\n            return True", "        if current in visited:\n            continue\n        if end == current:\n            return True\n        visited.add(current)", None, "quiet")
V("graph-search-no-start-cycle", "C02", "pyteal/compiler/subroutines.py", "    stack: List[Node] = list(graph[start])", "    stack: List[Node] = [n for n in graph[start] if n != start]", "R02.4")
V("slot-classes-three-routines", "C02", "pyteal/compiler/scratchslots.py", "        global_slots |= slots & allOtherSlots\n        local_slots[subroutine] = slots - global_slots", "        global_slots ^= slots & allOtherSlots\n        local_slots[subroutine] = slots - global_slots", "R03.1b")
V("deferred-bury-only-without-return", "C03", "pyteal/ast/subroutine.py", "            if not abi_output_kwargs and proto.num_returns > 0 and local_size > 0:", "            if not abi_output_kwargs and proto.num_returns > 0 and local_size > 1:", "R02.2")
V("twin-deferred-bury-names", "C02", "pyteal/ast/subroutine.py", "            local_size = len(proto.mem_layout.local_stack_types)", "            local_size = len(list(proto.mem_layout.local_stack_types))", None, "quiet")
V("framevar-store-untyped", "C05", "pyteal/ast/frame.py", "        return FrameBury(\n            value,\n            self.frame_index,\n            inferred_type=self.stack_type,\n        )", "        return FrameBury(\n            value,\n            self.frame_index,\n        )", "R05.7")
V("scratchvar-store-untyped", "C05", "pyteal/ast/scratchvar.py", "        require_type(value, self.type)\n", "", "R05.7")
V("framedig-load-untyped", "C05", "pyteal/ast/frame.py", "        return FrameDig(self.frame_index, inferred_type=self.stack_type)", "        return FrameDig(self.frame_index)", "R05.7")
V("router-method-never-as-omitted", "C08", "pyteal/ast/router.py", "            if all(oc is None for oc in ocs.values()):", "            if not any(ocs.values()):", "R08.7")
V("twin-router-method-generator", "C08", "pyteal/ast/router.py", "            if all(oc is None for oc in ocs.values()):", "            if not [oc for oc in ocs.values() if oc is not None]:", None, "quiet")
V("setfield-dedupe", "C14", "pyteal/ast/itxn.py", "                return Seq(\n                    *[\n                        InnerTxnFieldExpr(field, cast(Expr, valueIter))\n                        for valueIter in value\n                    ]\n                )", "                return Seq(\n                    *[\n                        InnerTxnFieldExpr(field, cast(Expr, valueIter))\n                        for n_, valueIter in enumerate(value)\n                        if all(valueIter is not w for w in value[:n_])\n                    ]\n                )", "R14.3")
V("setfields-reversed", "C14", "pyteal/ast/itxn.py", "        fieldsToSet = [cls.SetField(field, value) for field, value in fields.items()]", "        fieldsToSet = [cls.SetField(field, value) for field, value in reversed(list(fields.items()))]", "R14.3")
V("frame-file-prefix-strip", "C15", "pyteal/stack_frame.py", "                self._file = os.path.relpath(path) if self.rel_paths else path", "                self._file = (path[len(self.root()):].lstrip(os.sep) if path.startswith(self.root()) else os.path.relpath(path)) if self.rel_paths else path", "R15.6")
V("twin-frame-file-relpath-start", "C15", "pyteal/stack_frame.py", "                self._file = os.path.relpath(path) if self.rel_paths else path", "                self._file = os.path.relpath(path, os.getcwd()) if self.rel_paths else path", None, "quiet")
V("constants-reuse-op-object", "C15", "pyteal/compiler/constants.py", "                if index == 0:\n                    assembled.append(TealOp(op.expr, Op.intc_0, \"//\", *op.args))", "                if index == 0:\n                    assembled.append(TealOp(None, Op.intc_0, \"//\", *op.args))", "R12.1")
V("wideratio-cancel-shared", "C16", "pyteal/ast/widemath.py", "        self.numeratorFactors = numeratorFactors\n        self.denominatorFactors = denominatorFactors", "        shared = [x for x in numeratorFactors if any(x is y for y in denominatorFactors)]\n        self.numeratorFactors = [x for x in numeratorFactors if not any(x is s for s in shared)] or numeratorFactors\n        self.denominatorFactors = [x for x in denominatorFactors if not any(x is s for s in shared)] or denominatorFactors", "R16.2")
V("twin-wideratio-copy-lists", "C16", "pyteal/ast/widemath.py", "        self.numeratorFactors = numeratorFactors\n        self.denominatorFactors = denominatorFactors", "        self.numeratorFactors = list(numeratorFactors)\n        self.denominatorFactors = list(denominatorFactors)", None, "quiet")
V("validate-slots-count-memo", "C17", "pyteal/ir/tealblock.py", "                visitedKey = (id(block), *sorted(slot.id for slot in inUse))", "                visitedKey = (id(block), len(inUse))", "R17.1")
V("uint-set-any-uint", "C19", "pyteal/ast/abi/uint.py", "        if isinstance(value, BaseType) and not (\n            isinstance(value.type_spec(), UintTypeSpec)\n            and self.type_spec().bit_size()\n            == cast(UintTypeSpec, value.type_spec()).bit_size()\n        ):", "        if isinstance(value, BaseType) and not (\n            isinstance(value.type_spec(), UintTypeSpec)\n        ):", "R19.3")
V("twin-uint-set-size-names", "C19", "pyteal/ast/abi/uint.py", "        if isinstance(value, BaseType) and not (\n            isinstance(value.type_spec(), UintTypeSpec)\n            and self.type_spec().bit_size()\n            == cast(UintTypeSpec, value.type_spec()).bit_size()\n        ):", "        mine = self.type_spec().bit_size()\n        if isinstance(value, BaseType) and not (\n            isinstance(value.type_spec(), UintTypeSpec)\n            and mine == cast(UintTypeSpec, value.type_spec()).bit_size()\n        ):", None, "quiet")
V("valid-base64-match", "C13", "pyteal/types.py", "    if pattern.fullmatch(s) is None:\n        raise TealInputError(\"{} is not a valid RFC 4648 base 64 string\".format(s))", "    if pattern.match(s) is None:\n        raise TealInputError(\"{} is not a valid RFC 4648 base 64 string\".format(s))", "R13.2")
V("twin-valid-base64-hoisted", "C13", "pyteal/types.py", "def valid_base64(s: str):\n    \"\"\"check if s is a valid base64 encoding string\"\"\"\n    pattern = re.compile(\n        r\"^(?:[A-Za-z0-9+/]{4})*(?:[A-Za-z0-9+/]{2}==|[A-Za-z0-9+/]{3}=)?$\"\n    )\n", "_B64_PATTERN = re.compile(\n    r\"^(?:[A-Za-z0-9+/]{4})*(?:[A-Za-z0-9+/]{2}==|[A-Za-z0-9+/]{3}=)?$\"\n)\n\n\ndef valid_base64(s: str):\n    \"\"\"check if s is a valid base64 encoding string\"\"\"\n    pattern = _B64_PATTERN\n", None, "quiet")
V("reference-type-byte-length", "C09", "pyteal/ast/abi/reference_type.py", "    def byte_length_static(self) -> int:\n        return 1", "    def byte_length_static(self) -> int:\n        return self.bit_size()", "R06.1")
V("method-spec-cached", "C09", "pyteal/ast/subroutine.py", "        return sdk_abi.Method.undictify(spec)", "        self._spec_cache = getattr(self, \"_spec_cache\", None) or sdk_abi.Method.undictify(spec)\n        return self._spec_cache", "R09.5")
V("invoke-check-memo", "C19", "pyteal/ast/subroutine.py", "                if not type_spec_is_assignable_to(arg.type_spec(), arg_type):\n                    raise TealInputError(\n                        f\"supplied argument {arg} at index {i} \"", "                if (i, type(arg)) in self.__dict__.setdefault(\"_seen\", set()):\n                    continue\n                self._seen.add((i, type(arg)))\n                if not type_spec_is_assignable_to(arg.type_spec(), arg_type):\n                    raise TealInputError(\n                        f\"supplied argument {arg} at index {i} \"", "R19.2")
V("probe-handler-narrowed", "C02", "pyteal/ast/abi/type.py", "            declaration = self.computation.subroutine.get_declaration_by_option(False)\n        except Exception:\n            pass", "            declaration = self.computation.subroutine.get_declaration_by_option(False)\n        except TealInputError:\n            pass", "R02.6")
V("allocator-limit-counts-auto-only", "C04", "pyteal/compiler/scratchslots.py", "    if len(allSlots) > NUM_SLOTS:", "    if len(allSlots) - len(slotIds) > NUM_SLOTS:", "R10.1")
V("itxn-extra-fields-set-order", "C11", "pyteal/ast/itxn.py", "            InnerTxnBuilder.SetFields({} if extra_fields is None else extra_fields),", "            InnerTxnBuilder.SetFields({} if extra_fields is None else {k: extra_fields[k] for k in extra_fields.keys() - {TxnField.type_enum}}),", "R11.4")
V("flatten-fresh-label-each-call", "C04", "pyteal/compiler/flatten.py", "        return labelRefs[index]", "        return LabelReference(\"l{}\".format(index))", "R01.4e")
V("deferred-only-first-retsub", "C01", "pyteal/compiler/compiler.py", "                for prev in deferred_start.incoming:\n                    prev.replaceOutgoing(block, deferred_start)\n", "                for prev in deferred_start.incoming:\n                    prev.replaceOutgoing(block, deferred_start)\n                break\n", "R01.14")
V("deferred-start-not-replaced", "C01", "pyteal/compiler/compiler.py", "                if block is start:\n                    # this is the start block, replace start\n                    start = deferred_start", "                if block is start and False:\n                    # this is the start block, replace start\n                    start = deferred_start", "R01.14")
V("deferred-built-once", "C01", "pyteal/compiler/compiler.py", "        if deferred_expr := decl.deferred_expr:\n            # this represents code that should be inserted before each retsub op\n            for block in TealBlock.Iterate(start):", "        if deferred_expr := decl.deferred_expr:\n            deferred_pair = deferred_expr.__teal__(options)\n            # this represents code that should be inserted before each retsub op\n            for block in TealBlock.Iterate(start):", None, "quiet")
V("return-value-dropped", "C01", "pyteal/compiler/compiler.py", "            ret_expr = Return(ast)  # T2PT3", "            ret_expr = Return()  # T2PT3", "R01.1")
V("new-subroutines-skip-known", "C01", "pyteal/compiler/compiler.py", "    newSubroutines = referencedSubroutines - subroutine_start_blocks.keys()", "    newSubroutines = referencedSubroutines - subroutine_start_blocks.keys() - set(subroutineGraph.keys())", None, "quiet")
V("call-graph-not-recorded", "C01", "pyteal/compiler/compiler.py", "    if currentSubroutine is not None:\n        subroutineGraph[currentSubroutine] = referencedSubroutines", "    if currentSubroutine is not None and referencedSubroutines:\n        subroutineGraph[currentSubroutine] = referencedSubroutines", "R01.14")
V("twin-compile-subroutine-rename", "C01", "pyteal/compiler/compiler.py", "    newSubroutines = referencedSubroutines - subroutine_start_blocks.keys()\n    for subroutine in sorted(newSubroutines, key=lambda subroutine: subroutine.id):", "    pending = referencedSubroutines - subroutine_start_blocks.keys()\n    for subroutine in sorted(pending, key=lambda subroutine: subroutine.id):", None, "quiet")
VARIANTS.append({"name": "twin-named-ints-from-sdk", "prop": "C08", "edits": [("pyteal/compiler/constants.py", "from algosdk import encoding\n", "from algosdk import encoding\nfrom algosdk.transaction import OnComplete as SdkOnComplete\n"), ("pyteal/compiler/constants.py", "    \"CloseOut\": 2,", "    \"CloseOut\": int(SdkOnComplete.CloseOutOC),")], "rule": None, "expect": "quiet"})
VARIANTS.append({"name": "named-ints-from-sdk-wrong-member", "prop": "C12", "edits": [("pyteal/compiler/constants.py", "from algosdk import encoding\n", "from algosdk import encoding\nfrom algosdk.transaction import OnComplete as SdkOnComplete\n"), ("pyteal/compiler/constants.py", "    \"CloseOut\": 2,", "    \"CloseOut\": int(SdkOnComplete.ClearStateOC),")], "rule": "R12.2", "expect": "fire"})
V("subroutine-branch-labels-not-prefixed", "C04", "pyteal/compiler/flatten.py", "                stmt.getLabelRef().addPrefix(labelPrefix)", "                pass", "R04.")
V("subroutine-labels-unsorted-order", "C02", "pyteal/compiler/subroutines.py", "    subroutineOrder = sorted(allButMainRoutine, key=lambda subroutine: subroutine.id)", "    subroutineOrder = list(allButMainRoutine)", None)
V("subroutine-label-without-index", "C04", "pyteal/compiler/subroutines.py", "        subroutineToLabel[subroutine] = \"{}_{}\".format(safer_name, index)", "        subroutineToLabel[subroutine] = \"{}\".format(safer_name)", "R04.")
V("subroutine-label-after-body", "C04", "pyteal/compiler/flatten.py", "        combinedOps.append(TealLabel(dexpr, LabelReference(label), comment))  # T2PT1\n        combinedOps += subroutineOps", "        combinedOps += subroutineOps\n        combinedOps.append(TealLabel(dexpr, LabelReference(label), comment))  # T2PT1", "R04.9")
V("subroutine-no-implicit-retsub", "C02", "pyteal/compiler/compiler.py", "    if not ast.has_return():", "    if not ast.has_return() and currentSubroutine is None:", "R04.9")
V("twin-flatten-subroutines-local", "C04", "pyteal/compiler/flatten.py", "        comment = subroutine.name()\n        labelPrefix = label + \"_\"", "        labelPrefix = label + \"_\"\n        comment = subroutine.name()", None, "quiet")

# ------------------------------------------------------------------------------- round 3 rules
V("asset-name-declared-uint64", "C05", "pyteal/ast/asset.py", "            TealType.bytes,\n            immediate_args=[\"AssetName\"],", "            TealType.uint64,\n            immediate_args=[\"AssetName\"],", "R05.8")
V("asset-reserve-reads-freeze", "C05", "pyteal/ast/asset.py", "            immediate_args=[\"AssetReserve\"],", "            immediate_args=[\"AssetFreeze\"],", "R05.8")
V("cond-compares-with-previous-arm-only", "C05", "pyteal/ast/cond.py", "                require_type(arg[1], value_type)\n", "                require_type(arg[1], value_type)\n                value_type = None\n", "R05.10")
V("assert-extra-conds-skip-last", "C05", "pyteal/ast/assert_.py", "        for cond_single in additional_conds:\n", "        for cond_single in additional_conds[:-1]:\n", "R05.10")
V("twin-while-do-check-via-local", "C05", "pyteal/ast/while_.py", "        require_type(doBlock, TealType.none)\n", "        wanted = TealType.none\n        require_type(doBlock, wanted)\n", None, "quiet")
V("binary-lowering-without-value-checks", "C05", "pyteal/ast/binaryexpr.py", "        require_type(self.argLeft, TealType.anytype)\n        require_type(self.argRight, TealType.anytype)\n", "", "R05.11")
V("returned-value-receiver-by-class", "C19", "pyteal/ast/abi/type.py", "        if output.type_spec() != self.produced_type_spec():", "        if type(output.type_spec()) is not type(self.produced_type_spec()):", "R19.7")
V("named-field-index-reversed", "C07", "pyteal/ast/abi/tuple.py", "            self.__field_index[name] = index\n", "            self.__field_index[name] = len(anns) - 1 - index\n", "R07.9")
V("flatten-asks-for-fixed-convention", "C11", "pyteal/compiler/flatten.py", "subroutine.get_declaration_by_option(options.use_frame_pointers)", "subroutine.get_declaration_by_option(True)", "R11.9")
V("twin-flatten-convention-via-local", "C11", "pyteal/compiler/flatten.py", "            dexpr = subroutine.get_declaration_by_option(options.use_frame_pointers)", "            fp = options.use_frame_pointers\n            dexpr = subroutine.get_declaration_by_option(fp)", None, "quiet")
V("router-clear-map-from-approval-mapper", "C15", "pyteal/ast/router.py", "            clear_sourcemap = self.clear_sourcemapper.get_sourcemap(self.clear_teal)", "            clear_sourcemap = self.approval_sourcemapper.get_sourcemap(self.clear_teal)", "R15.10")
V("router-clear-compiled-under-approval-filename", "C15", "pyteal/ast/router.py", "                teal_filename=input.clear_filename,", "                teal_filename=input.approval_filename,", "R15.10")
V("twin-router-results-via-locals", "C15", "pyteal/ast/router.py", "            clear_sourcemap = self.clear_sourcemapper.get_sourcemap(self.clear_teal)", "            mapper = self.clear_sourcemapper\n            clear_sourcemap = mapper.get_sourcemap(self.clear_teal)", None, "quiet")
V("recompile-without-type-track-setting", "C15", "pyteal/compiler/compiler.py", "                assembly_type_track=self.assembly_type_track,\n                optimize=self.optimize,\n            )\n\n            _PyTealSourceMapper", "                optimize=self.optimize,\n            )\n\n            _PyTealSourceMapper", "R15.11")
V("scratch-output-created-in-callers-context", "C02", "pyteal/ast/subroutine.py", "                with _frame_pointer_context(None):\n                    output_carrying_abi = output_kwarg_info.abi_type.new_instance()", "                if True:\n                    output_carrying_abi = output_kwarg_info.abi_type.new_instance()", "R02.2")
V("normalize-parent-membership-by-equality", "C01", "pyteal/ir/tealblock.py", "                        if id(prev) not in [id(b) for b in outgoingBlock.incoming]:", "                        if prev not in outgoingBlock.incoming:", "R01.6e")
V("twin-normalize-parent-membership-by-any", "C01", "pyteal/ir/tealblock.py", "                        if id(prev) not in [id(b) for b in outgoingBlock.incoming]:", "                        if not any(prev is b for b in outgoingBlock.incoming):", None, "quiet")
V("if-chain-else-unchecked", "C05", "pyteal/ast/if_.py", "            require_type(self.elseBranch, self.thenBranch.type_of())\n\n        return", "            pass\n\n        return", "R05.9")
V("if-chain-only-plain-else-checked", "C05", "pyteal/ast/if_.py", "            require_type(self.elseBranch, self.thenBranch.type_of())\n\n        return", "            if not isinstance(self.elseBranch, If):\n                require_type(self.elseBranch, self.thenBranch.type_of())\n\n        return", "R05.9")
V("twin-if-chain-local-type", "C05", "pyteal/ast/if_.py", "            require_type(self.elseBranch, self.thenBranch.type_of())\n\n        return", "            then_type = self.thenBranch.type_of()\n            require_type(self.elseBranch, then_type)\n\n        return", None, "quiet")
V("scratchload-literal-id", "C10", "pyteal/ast/scratch.py", "        op = TealOp(self, Op.load, s)", "        op = TealOp(self, Op.load, s.id if s.isReservedSlot else s)", "R10.7")
V("int-accepts-subclasses", "C12", "pyteal/ast/int.py", "        if type(value) is not int:", "        if not isinstance(value, int) or isinstance(value, bool):", "R12.5")
V("twin-int-type-check-form", "C12", "pyteal/ast/int.py", "        if type(value) is not int:", "        if not (type(value) is int):", None, "quiet")
V("string-set-casefold", "C13", "pyteal/ast/abi/string.py", "                return self._stored_value.store(_encoded_byte_string(value.encode()))", "                return self._stored_value.store(_encoded_byte_string(value.strip().encode()))", "R13.5")
V("twin-string-set-explicit-utf8", "C13", "pyteal/ast/abi/string.py", "                return self._stored_value.store(_encoded_byte_string(value.encode()))", "                return self._stored_value.store(_encoded_byte_string(value.encode(\"utf-8\")))", None, "quiet")
V("methodsig-escaped", "C13", "pyteal/ast/methodsig.py", "        op = TealOp(self, Op.method_signature, '\"{}\"'.format(self.methodName))", "        op = TealOp(self, Op.method_signature, '\"{}\"'.format(self.methodName.encode(\"unicode-escape\").decode()))", "R13.1")
V("assert-mutates-cond-list", "C15", "pyteal/ast/assert_.py", "            conds: list[Expr] = [self.cond[0]]", "            conds: list[Expr] = self.cond", "R15.7")
V("module-level-int", "C15", "pyteal/ast/abi/bool.py", "class BoolTypeSpec(TypeSpec):", "_ONE = Int(1)\n\n\nclass BoolTypeSpec(TypeSpec):", "R15.8")
V("pragma-swallow-blank", "C18", "pyteal/pragma/pragma.py", "            (?P<op><|<=|>=|>|=|\\^|~|)                       # Operator, can be empty", "            (?P<op><|<=|>=|>|=|\\^|~|)\\s*                    # Operator, can be empty", "R18.5")
V("label-assemble-format-template", "C18", "pyteal/ir/teallabel.py", "        return \"{}{}:\".format(comment, self.label.getLabel())", "        return (comment + \"{}:\").format(self.label.getLabel())", "R18.3")
V("twin-label-assemble-fstring", "C18", "pyteal/ir/teallabel.py", "        return \"{}{}:\".format(comment, self.label.getLabel())", "        return f\"{comment}{self.label.getLabel()}:\"", None, "quiet")
V("namedtuple-eq-by-fields-only", "C19", "pyteal/ast/abi/tuple.py", "            and self.instance_class == other.instance_class\n            and self.value_type_specs() == other.value_type_specs()", "            and self.value_type_specs() == other.value_type_specs()", "R19.4")
V("sdk-uint-next-wider", "C19", "pyteal/ast/abi/util.py", "                    match t.bit_size:\n                        case 8:\n                            return Uint8TypeSpec()", "                    match t.bit_size:\n                        case 8 | 4:\n                            return Uint8TypeSpec()\n                        case 24:\n                            return Uint32TypeSpec()", "R19.5")
V("array-set-checks-first-only", "C19", "pyteal/ast/abi/array_base.py", "        for index, value in enumerate(values):\n            if self.type_spec().value_type_spec() != value.type_spec():", "        for index, value in enumerate(values[:1]):\n            if self.type_spec().value_type_spec() != value.type_spec():", "R19.3")
V("trace-as-frames", "C20", "pyteal/ast/expr.py", "        self.trace = traceback.format_stack()[0:-1]", "        self.trace = traceback.extract_stack()[0:-1]", "R20.4")
V("twin-trace-sliced-differently", "C20", "pyteal/ast/expr.py", "        self.trace = traceback.format_stack()[0:-1]", "        self.trace = traceback.format_stack()[:-1]", None, "quiet")
V("address-set-list-only", "C06", "pyteal/ast/abi/address.py", "            case CollectionSequence():", "            case list():", "R06.5")
V("dynamic-array-length-holder", "C07", "pyteal/ast/abi/array_dynamic.py", "        output = Uint16()\n        return Seq(", "        self._len = getattr(self, \"_len\", None) or Uint16()\n        output = self._len\n        return Seq(", "R07.5")
V("static-array-length-not-int", "C07", "pyteal/ast/abi/array_static.py", "        self.array_length: Final = int(array_length)", "        self.array_length: Final = array_length", "R07.6")
V("tuple-annotation-slip", "C07", "pyteal/ast/abi/tuple.py", "                return Tuple4[v0, v1, v2, v3]  # type: ignore[valid-type]", "                return Tuple4[v0, v1, v3, v2]  # type: ignore[valid-type]", "R07.7")
V("router-build-without-optimize", "C05", "pyteal/ast/router.py", "            ap, csp, contract = self._build_program(\n                version=input.version, optimize=input.optimize\n            )", "            ap, csp, contract = self._build_program(version=input.version)", "R08.8")
V("spill-only-without-frame-pointers", "C16", "pyteal/compiler/compiler.py", "        spillLocalSlotsDuringRecursion(\n            self.version, subroutineMapping, subroutineGraph, localSlotAssignments\n        )", "        if not options.use_frame_pointers:\n            spillLocalSlotsDuringRecursion(\n                self.version, subroutineMapping, subroutineGraph, localSlotAssignments\n            )", "R02.4")
V("validate-slots-int-is-store", "C17", "pyteal/ir/tealblock.py", "                if op.getOp() == Op.store:\n                    for slot in op.getSlots():", "                if op.getOp() in (Op.store, Op.int):\n                    for slot in op.getSlots():", "R17.1")
V("twin-validate-slots-names", "C17", "pyteal/ir/tealblock.py", "            block, inUse, isRoot = pending.pop()", "            entry = pending.pop()\n            block, inUse, isRoot = entry", None, "quiet")
V("compile-error-eq-overloaded", "C17", "pyteal/errors.py", "        return self.msg == other.msg and self.sourceExpr is other.sourceExpr", "        return self.msg == other.msg and self.sourceExpr == other.sourceExpr", "R17.1")
V("method-signature-python-name", "C08", "pyteal/ast/subroutine.py", "        if overriding_name is None:\n            overriding_name = self.name()\n        return f\"{overriding_name}", "        if overriding_name is None:\n            overriding_name = self.subroutine.implementation.__name__\n        return f\"{overriding_name}", "R09.5")
V("methodcall-16-arguments-accepted", "C14", "pyteal/ast/itxn.py", "        if num_app_args > 15:", "        if num_app_args > 16:", "R14.1")
V("label-getlabel-underscore", "C18", "pyteal/ir/labelref.py", "    def getLabel(self) -> str:\n        return self.label", "    def getLabel(self) -> str:\n        return (\"_\" + self.label) if self.label[:1].isdigit() else self.label", "R04.9")
V("annotation-uint16-reads-uint32", "C07", "pyteal/ast/abi/util.py", "        return Uint16TypeSpec()\n\n    if origin is Uint32:", "        return Uint32TypeSpec()\n\n    if origin is Uint32:", "R07.8")
V("annotation-static-array-args-swapped", "C07", "pyteal/ast/abi/array_static.py", "        return StaticArray[  # type: ignore[misc]\n            self.value_spec.annotation_type(), Literal[self.array_length]  # type: ignore\n        ]", "        return StaticArray[  # type: ignore[misc]\n            Literal[self.array_length], self.value_spec.annotation_type()  # type: ignore\n        ]", "R07.")
VARIANTS.append({"name": "twin-txntype-from-sdk-constants", "prop": "C09", "edits": [("pyteal/ast/txn.py", "from pyteal.types import TealType, require_type\n", "from algosdk import constants\nfrom pyteal.types import TealType, require_type\n"), ("pyteal/ast/txn.py", "    AssetFreeze = EnumInt(\"afrz\")  # T2PT7", "    AssetFreeze = EnumInt(constants.ASSETFREEZE_TXN)  # T2PT7")], "rule": None, "expect": "quiet"})
V("txntype-freeze-is-transfer", "C09", "pyteal/ast/txn.py", "    AssetFreeze = EnumInt(\"afrz\")  # T2PT7", "    AssetFreeze = EnumInt(\"axfer\")  # T2PT7", "R12.2")
V("maybevalue-load-memo", "C17", "pyteal/ast/maybe.py", "        return self.output_slots[0].load(self.types[0])", "        self._v = getattr(self, \"_v\", None) or self.output_slots[0].load(self.types[0])\n        return self._v", "R11.8")
V("validate-slots-state-budget", "C17", "pyteal/ir/tealblock.py", "                visited.add(visitedKey)\n\n            currentSlotsInUse = set(inUse)", "                if len(visited) > 5000:\n                    break\n                visited.add(visitedKey)\n\n            currentSlotsInUse = set(inUse)", "R17.5")
V("relation-array-direction", "C19", "pyteal/ast/abi/util.py", "            if not type_spec_is_assignable_to(a.value_type_spec(), b.value_type_spec()):", "            if not type_spec_is_assignable_to(b.value_type_spec(), a.value_type_spec()):", "R19.1")
V("index-tuple-bool-before-type-check", "C19", "pyteal/ast/abi/tuple.py", "    valueType = value_types[index]\n    if output.type_spec() != valueType:\n        raise TypeError(\"Output type does not match value type\")\n\n    if type(output) is Bool:", "    valueType = value_types[index]\n    if type(output) is not Bool and output.type_spec() != valueType:\n        raise TypeError(\"Output type does not match value type\")\n\n    if type(output) is Bool:", "R19.6")
V("gateway-by-name-only", "C15", "pyteal/stack_frame.py", "        return (k := f.function) in cls._compilation_gateways and f.filename.endswith(\n            cls._compilation_gateways[k]\n        )", "        return f.function in cls._compilation_gateways", "R15.9")
V("label-hash-suffix", "C11", "pyteal/compiler/subroutines.py", "        subroutineToLabel[subroutine] = \"{}_{}\".format(safer_name, index)", "        subroutineToLabel[subroutine] = \"{}_{}\".format(safer_name or hash(subroutine.name()) % 97, index)", "R11.7")
V("cleaning-context-default-rewind", "C11", "pyteal/ast/router.py", "            ScratchSlot.reset_slot_numbering(starting_slot_id)", "            ScratchSlot.reset_slot_numbering()", "R11.6")
V("bytes-accepts-short-base-names", "C12", "pyteal/ast/bytes.py", "            elif self.base == \"base64\":", "            elif self.base in (\"base64\", \"b64\"):", "R12.6")
V("comment-op-application-only", "C18", "pyteal/ir/ops.py", "    comment             = OpType(\"//\",                  Mode.Signature | Mode.Application,  0)", "    comment             = OpType(\"//\",                  Mode.Application,                   0)", "R18.3")
V("encode-tuple-last-by-identity", "C06", "pyteal/ast/abi/tuple.py", "            notLastDynamicValue = any(\n                [nextValue.type_spec().is_dynamic() for nextValue in values[i + 1 :]]\n            )", "            notLastDynamicValue = elem is not [v_ for v_ in values if v_.type_spec().is_dynamic()][-1]", "R06.2")
V("evaluate-scratch-without-context", "C05", "pyteal/ast/subroutine.py", "        with _frame_pointer_context(proto if self.use_frame_pt else None):\n            subroutine_body = subroutine.implementation(\n                *loaded_args, **abi_output_kwargs\n            )", "        if self.use_frame_pt:\n            with _frame_pointer_context(proto):\n                subroutine_body = subroutine.implementation(\n                    *loaded_args, **abi_output_kwargs\n                )\n        else:\n            subroutine_body = subroutine.implementation(\n                *loaded_args, **abi_output_kwargs\n            )", "R02.2")
V("sweep-skips-user-ops", "C02", "pyteal/compiler/compiler.py", "    for stmt in teal:\n        if isinstance(stmt, TealOp):\n            op = stmt.getOp()\n            if op.min_version > version:", "    for stmt in teal:\n        if isinstance(stmt, TealOp) and stmt.expr is None:\n            op = stmt.getOp()\n            if op.min_version > version:", "R04.5")
