#!/usr/bin/env python3
"""Self-test of the checkers: each variant is a small edit applied to a scratch copy of the
repository's python packages (under $TMPDIR, removed afterwards); the named property check must
report a violation (exit 1) naming the expected rule, and every check must be silent on the clean
twin.  Information only: never part of a check's verdict.

usage: selftest/run.py [-j N] [-k substring] [--props C01,C02]
"""
from __future__ import annotations

import argparse
import concurrent.futures as cf
import json
import os
import shutil
import subprocess
import sys
import tempfile

VERIF = os.path.dirname(os.path.dirname(os.path.abspath(__file__)))
REPO = os.environ.get("VERIF_ROOT", "/repo")
PY = "/venv/bin/python"

sys.path.insert(0, VERIF)
from selftest.variants import VARIANTS  # noqa: E402


def make_copy(dst: str) -> None:
    for pkg in ("pyteal", "feature_gates"):
        shutil.copytree(
            os.path.join(REPO, pkg),
            os.path.join(dst, pkg),
            ignore=shutil.ignore_patterns("__pycache__", "*_test.py", "*.pyc"),
        )


def run_variant(v: dict) -> dict:
    tmp = tempfile.mkdtemp(prefix="verif_st_")
    try:
        make_copy(tmp)
        for path, old, new in v["edits"]:
            p = os.path.join(tmp, path)
            src = open(p).read()
            if callable(old):
                out = old(src)
                if out is None or out == src:
                    return {"name": v["name"], "status": "EDIT-FAILED", "detail": f"{path}: programmatic edit did not apply"}
                open(p, "w").write(out)
            else:
                if src.count(old) != 1:
                    return {"name": v["name"], "status": "EDIT-FAILED", "detail": f"{path}: pattern occurs {src.count(old)} times"}
                open(p, "w").write(src.replace(old, new))
            try:
                compile(open(p).read(), p, "exec")
            except SyntaxError as e:
                return {"name": v["name"], "status": "EDIT-FAILED", "detail": f"syntax: {e}"}
        env = dict(os.environ, VERIF_ROOT=tmp, VERIF_SELFTEST="1")
        r = subprocess.run([PY, "-m", "sa.check", v["prop"], "--root", tmp, "--no-evidence"], cwd=VERIF, env=env, capture_output=True, text=True)
        out = r.stdout + r.stderr
        fired = r.returncode == 1 and "VIOLATION" in out
        rule_ok = (v.get("rule") is None) or any(v["rule"] in line for line in out.splitlines() if line.startswith("  "))
        if v.get("expect", "fire") == "fire":
            status = "OK" if (fired and rule_ok) else ("WRONG-RULE" if fired else f"MISSED(exit={r.returncode})")
        else:
            status = "OK" if r.returncode == 0 else f"FALSE-ALARM(exit={r.returncode})"
        return {"name": v["name"], "prop": v["prop"], "status": status, "detail": "\n".join(l for l in out.splitlines() if l.startswith("  ") or "ANALYSIS" in l)[:600]}
    finally:
        shutil.rmtree(tmp, ignore_errors=True)


def main():
    ap = argparse.ArgumentParser()
    ap.add_argument("-j", type=int, default=16)
    ap.add_argument("-k", default="")
    ap.add_argument("--props", default="")
    ap.add_argument("-v", action="store_true")
    a = ap.parse_args()
    props = set(a.props.split(",")) if a.props else None
    vs = [v for v in VARIANTS if a.k in v["name"] and (props is None or v["prop"] in props)]
    bad = 0
    with cf.ThreadPoolExecutor(a.j) as ex:
        for r in ex.map(run_variant, vs):
            if r["status"] != "OK" or a.v:
                print(f"{r['status']:14s} {r.get('prop','')} {r['name']}")
                if r["status"] != "OK":
                    bad += 1
                    print("      " + r.get("detail", "").replace("\n", "\n      "))
    print(f"selftest: {len(vs)} variants, {bad} not as expected")
    return 1 if bad else 0


if __name__ == "__main__":
    sys.exit(main())
