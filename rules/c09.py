"""C09 - routed methods receive ARC-4 arguments and log ARC-4 results (structural clauses)."""
from __future__ import annotations

import ast
import os
import re

from sa import q
from sa.astutil import u, walk_local, try_const
from sa.minieval import MiniEval, Raised, Rec, Sym, Unknown, run_function, model_ctor_fields
from sa.model import AnalysisError

CUTOFF = 15  # ARC-4: at most 15 application arguments besides the selector; the 15th carries a tuple of the rest


def _strip(x) -> str:
    return re.sub(r"#\d+", "", repr(x))


class ArgWorld:
    """symbolic ABI argument instances for a method with the given parameter kinds"""

    def __init__(self, ctx, kinds, has_output):
        self.ctx = ctx
        self.kinds = kinds
        self.has_output = has_output
        self.me = None
        self.decoded = []
        self.vals = []
        for i, k in enumerate(kinds):
            self.vals.append(self.instance(f"arg{i}", k))

    def instance(self, name, kind):
        is_txn = kind.startswith("txn")
        sv = Sym(f"storage:{name}", methods={"storage_type": lambda: f"T({name})"})
        spec = Sym(f"spec:{name}", attrs={"$type": Rec("name", "abi.TransactionTypeSpec" if kind == "txn" else f"abi.{kind}TypeSpec"), "$isa": {"TypeSpec"}})
        spec.methods["txn_type_enum"] = lambda: Rec("name", f"TxnType.{kind}")
        spec.methods["new_instance"] = lambda: self.instance(name + "'", kind)
        v = Sym(f"abi:{name}", attrs={"_stored_value": sv, "$isa": {"BaseType"} | ({"Transaction"} if is_txn else set())})
        v.methods["type_spec"] = lambda: spec
        v.methods["decode"] = lambda src, v=v: Rec("call", Rec("name", "decode"), [v.name, src], {})
        v.methods["_set_index"] = lambda e, v=v: Rec("call", Rec("name", "set_index"), [v.name, e], {})
        v.methods["get"] = lambda v=v: Rec("name", f"{v.name}.get()")
        v.methods["store_into"] = lambda tgt, v=v: Rec("call", Rec("name", "store_into"), [v.name, tgt.name], {})
        v.methods["__getitem__"] = lambda i, v=v: Sym(f"{v.name}[{i}]", methods={"store_into": lambda tgt, i=i: Rec("call", Rec("name", "store_elem_into"), [v.name, i, tgt.name], {})})
        return v

    def oracle(self, extra=None):
        def o(e, me):
            t = u(e)
            if t == "abi":
                def tuple_spec(*specs):
                    ts = Sym("spec:tuple", attrs={"members": list(specs)})
                    ts.methods["new_instance"] = lambda: self.tuple_instance(specs)
                    return ts
                return Sym("abi", attrs={"Transaction": Rec("name", "abi.Transaction"), "TransactionTypeSpec": Rec("name", "abi.TransactionTypeSpec"), "TransactionTypeSpecs": [], "TupleTypeSpec": tuple_spec}, methods={"contains_type_spec": lambda *a: False, "MethodReturn": lambda x: Rec("call", Rec("name", "MethodReturn"), [x.name], {})})
            if t == "METHOD_ARG_NUM_CUTOFF":
                return self.cutoff
            if extra is not None:
                return extra(e, me)
            raise Unknown()

        return o

    def tuple_instance(self, specs):
        v = self.instance("tupled", "Tuple")
        v.attrs["members"] = list(specs)
        self.tupled = v
        return v

    def setup(self, me):
        self.me = me
        me.expr_compare = True
        me.ctor_fields = model_ctor_fields(self.ctx.model)

        def isa(v, cname):
            cname = cname.split(".")[-1]
            if isinstance(v, Sym) and "$isa" in v.attrs:
                return cname in v.attrs["$isa"]
            if isinstance(v, Rec):
                return cname == "Expr"
            return None

        me.isinstance_hook = isa


def r09_1_decode(ctx):
    ctx.rule("R09.1", "argument decoding follows ARC-4: plain argument i comes from application argument i+1; with more than 15 plain arguments the first 14 are direct and the rest are elements of a tuple carried by argument 15; transaction parameter j of k is the group transaction at index group_index - (k - j) with its type asserted; under frame pointers argument i lives in frame cell i (+1 behind an ABI output)")
    ab = ctx.model.find_class("ASTBuilder", "pyteal.ast.router")
    dec = ab.methods["__decode_constructions_and_args"]
    gen = ab.methods["__subroutine_argument_instance_generate"]
    ctx.analysed(dec.fq, gen.fq)
    cfg = ctx.model.module("pyteal.config")
    ok, cutoff = try_const(ctx.model, cfg, cfg.assigns["METHOD_ARG_NUM_CUTOFF"])
    ctx.check(ok and cutoff == CUTOFF, "R09.1", "config.METHOD_ARG_NUM_CUTOFF", f"METHOD_ARG_NUM_CUTOFF = {cutoff}; ARC-4 fixes {CUTOFF}", "pyteal/config.py", fact={"cutoff": cutoff})
    shapes = {
        "no args": [],
        "3 plain": ["p"] * 3,
        "14 plain": ["p"] * 14,
        "15 plain": ["p"] * 15,
        "16 plain": ["p"] * 16,
        "20 plain": ["p"] * 20,
        "txn first, 2 plain": ["txnpay", "p", "p"],
        "plain, txn, plain, generic txn": ["p", "txnaxfer", "p", "txn"],
        "14 plain + 2 txn": ["p"] * 14 + ["txnpay", "txnappl"],
        "15 plain + 1 txn in the middle": ["p"] * 7 + ["txnpay"] + ["p"] * 8,
        "16 plain + 2 txn interleaved": ["txn"] + ["p"] * 10 + ["txnkeyreg"] + ["p"] * 6,
    }
    for sname, kinds in shapes.items():
        for has_output in (False, True):
            for use_fp in (False, True):
                W = ArgWorld(ctx, kinds, has_output)
                W.cutoff = cutoff
                arg_vals = list(W.vals)
                app = [v for v, k in zip(arg_vals, kinds) if not k.startswith("txn")]
                txn = [v for v, k in zip(arg_vals, kinds) if k.startswith("txn")]
                out_info = Sym("out-info", attrs={"abi_type": Sym("spec:out", methods={"storage_type": lambda: "T(out)"})}) if has_output else None
                sub = Sym("handler", attrs={"output_kwarg_info": out_info})
                construct = f"decode[{sname},{'output' if has_output else 'void'},{'fp' if use_fp else 'scratch'}]"
                try:
                    val, _ = run_function(dec.node, {"arg_vals": arg_vals, "app_arg_vals": list(app), "txn_arg_vals": list(txn), "subroutine": sub, "use_frame_pt": use_fp}, W.oracle(), dec.fq, permissive=True, setup=W.setup)
                except Raised as r:
                    ctx.bad("R09.1", construct, f"raises {r.exc_text[:60]}", dec.where)
                    continue
                instrs, ret_vals, proto = val
                problems = []
                texts = [_strip(x) for x in instrs]
                n = len(app)
                # --- expected plain-argument sources
                direct = app if n <= CUTOFF else app[: CUTOFF - 1]
                want = [f"decode('{v.name}', Txn.application_args[{i + 1}])" for i, v in enumerate(direct)]
                if n > CUTOFF:
                    want.append(f"decode('abi:tupled', Txn.application_args[{CUTOFF}])")
                got_dec = [t for t in texts if t.startswith("decode(")]
                if got_dec != want:
                    problems.append(f"plain arguments are decoded as {got_dec[:3]}...{got_dec[-2:]}; ARC-4 says {want[:2]}...{want[-2:]}")
                if n > CUTOFF:
                    rest = app[CUTOFF - 1:]
                    want_el = [f"store_elem_into('abi:tupled', {j}, '{v.name}')" for j, v in enumerate(rest)]
                    got_el = [t for t in texts if t.startswith("store_elem_into(")]
                    if got_el != want_el:
                        problems.append(f"tuple elements are unpacked as {got_el[:3]}; expected {want_el[:3]}")
                    members = getattr(W, "tupled", None).attrs.get("members") if getattr(W, "tupled", None) else None
                    if not members or [m.name for m in members] != [v.methods["type_spec"]().name for v in rest]:
                        problems.append("the tuple's member types are not the types of arguments 15.. in order")
                    # de-tupling after the tuple is decoded
                    if got_el and texts.index(got_el[0]) < texts.index(want[-1]) if want[-1] in texts else False:
                        problems.append("tuple elements are read before the tuple is decoded")
                elif any(t.startswith("store_elem_into(") for t in texts):
                    problems.append("a tuple is unpacked although there are at most 15 plain arguments")
                # --- transactions
                k = len(txn)
                for j, v in enumerate(txn):
                    w = f"set_index('{v.name}', $binop:Sub(Txn.group_index(), Int({k - j})))"
                    if w not in texts:
                        problems.append(f"transaction parameter {j} of {k} is not bound to group_index - {k - j} ({[t for t in texts if t.startswith('set_index') and v.name in t]})")
                    kind = [kk for vv, kk in zip(arg_vals, kinds) if vv is v][0]
                    asserted = [t for t in texts if t.startswith("Assert(") and v.name + ".get()" in t]
                    if kind != "txn" and not any(f"TxnType.{kind}" in t and "$cmp:Eq" in t for t in asserted):
                        problems.append(f"the type of transaction parameter {j} ({kind}) is not asserted")
                    if kind == "txn" and asserted:
                        problems.append(f"a generic transaction parameter gets a type assertion")
                if ret_vals != arg_vals:
                    problems.append("the argument list handed to the method is not the declared parameter list in order")
                # --- frame pointers
                if use_fp:
                    base = 1 if has_output else 0
                    if not (isinstance(proto, Rec) and proto.is_call("Proto") and proto.args[:2] == [0, 0]):
                        problems.append(f"the caster routine must be proto 0 0; got {_strip(proto)}")
                    else:
                        lay = proto.kwargs.get("mem_layout")
                        locs = lay.args[1] if isinstance(lay, Rec) and lay.is_call("ProtoStackLayout") else None
                        want_locs = (["T(out)"] if has_output else []) + [f"T({v.name[4:]})" for v in arg_vals] + ([f"T(tupled)"] if n > CUTOFF else [])
                        if locs != want_locs or lay.args[0] != [] or lay.args[2] != 0:
                            problems.append(f"frame locals are {locs}; expected {want_locs} (output first, then every parameter, then the tuple)")
                    for i, v in enumerate(arg_vals):
                        m = re.fullmatch(r"FrameVar\(.*, (\d+)\)", _strip(v.attrs["_stored_value"]))
                        if not m or int(m.group(1)) != i + base:
                            problems.append(f"parameter {i} is stored in {_strip(v.attrs['_stored_value'])}; expected frame cell {i + base}")
                    if n > CUTOFF:
                        m = re.fullmatch(r"FrameVar\(.*, (\d+)\)", _strip(W.tupled.attrs["_stored_value"]))
                        last = len(arg_vals) + base
                        if not m or int(m.group(1)) != last:
                            problems.append(f"the tuple is stored in {_strip(W.tupled.attrs['_stored_value'])}; expected the last frame cell {last}")
                elif proto is not None:
                    problems.append("a proto is produced without frame pointers")
                ctx.check(not problems, "R09.1", construct, "; ".join(problems[:3]), dec.where, fact={"instructions": texts[:4] + (["..."] if len(texts) > 6 else []) + texts[-2:]})
    # the generator splits parameters into application arguments and transactions without reordering
    W = ArgWorld(ctx, ["p", "txnpay", "p", "txn"], False)
    specs = [v.methods["type_spec"]() for v in W.vals]
    made = []
    for s, v in zip(specs, W.vals):
        s.methods["new_instance"] = (lambda v: lambda: (made.append(v), v)[1])(v)
    sub = Sym("handler", attrs={"subroutine": Sym("def", attrs={"expected_arg_types": specs})})
    val, _ = run_function(gen.node, {"subroutine": sub}, W.oracle(), gen.fq, permissive=True, setup=W.setup)
    a, b, c = val
    ctx.check(a == W.vals and b == [W.vals[0], W.vals[2]] and c == [W.vals[1], W.vals[3]], "R09.1", "argument_instance_generate:partition", f"parameters must be split into application arguments {['arg0', 'arg2']} and transactions {['arg1', 'arg3']} keeping declaration order; got {[x.name for x in b]} / {[x.name for x in c]}", gen.where, fact={})
    ctx.require_min("R09.1", 40)


def r09_4_glue_and_logging(ctx):
    ctx.rule("R09.4", "method glue: decode, then call the handler with the declared parameters in order; a non-void result is stored and logged exactly once (MethodReturn) before Approve, a void method logs nothing; MethodReturn logs the ARC-4 return prefix 0x151f7c75 followed by the encoding")
    ab = ctx.model.find_class("ASTBuilder", "pyteal.ast.router")
    for mname, fp in (("__de_abify_subroutine_vanilla", False), ("__de_abify_subroutine_frame_pointers", True)):
        f = ab.methods[mname]
        ctx.analysed(f.fq)
        for void in (True, False):
            W = ArgWorld(ctx, ["p", "p"], not void)
            W.cutoff = CUTOFF
            call_rec = Rec("name", "CALL")
            returned = Sym("returned-value", attrs={"computation": Sym("subcall", attrs={"subroutine": "SUBDEF"}), "$isa": {"ReturnedValue"}})
            returned.methods["store_into"] = lambda tgt: Rec("call", Rec("name", "store_result_into"), [tgt.name], {})
            void_call = Sym("subcall", attrs={"subroutine": "SUBDEF", "$isa": {"SubroutineCall", "Expr"}})
            called_with = []
            out_spec = Sym("spec:out", methods={"new_instance": lambda: W.instance("output_temp", "Uint64"), "storage_type": lambda: "T(out)"})
            handler = Sym("handler", attrs={"output_kwarg_info": None if void else Sym("oki", attrs={"abi_type": out_spec})}, methods={"type_of": lambda: "void" if void else "uint64", "name": lambda: "meth", "__call__": lambda *a: (called_with.append(list(a)), void_call if void else returned)[1]})
            proto = Rec("call", Rec("name", "Proto"), [0, 0], {"mem_layout": Sym("layout", methods={"_succinct_repr": lambda: [Rec("name", "ALLOC-LOCALS")]})})

            def extra(e, me):
                t = u(e)
                if t == "ASTBuilder":
                    return Sym("ASTBuilder", methods={
                        "_ASTBuilder__filter_invalid_handlers_and_typecast": lambda h: h, "__filter_invalid_handlers_and_typecast": lambda h: h,
                        "__subroutine_argument_instance_generate": lambda h: (list(W.vals), list(W.vals), []),
                        "__decode_constructions_and_args": lambda *a, **k: ([Rec("name", "DECODE0"), Rec("name", "DECODE1")], list(W.vals), proto if k.get("use_frame_pt") else None),
                    })
                if t == "sdk_abi":
                    return Sym("sdk_abi", attrs={"Returns": Sym("Returns", attrs={"VOID": "void"})})
                if t == "Subroutine":
                    return lambda ty, name: (lambda fn: (lambda: Rec("call", Rec("name", "caster-call"), [fn()], {})))
                raise Unknown()

            val, _ = run_function(f.node, {"handler": handler}, W.oracle(extra), f.fq, permissive=True, setup=W.setup)
            expr, subdef = val
            txt = _strip(expr)
            construct = f"{mname.strip('_')}[{'void' if void else 'returns'}]"
            problems = []
            if subdef != "SUBDEF":
                problems.append("the subroutine definition returned for source mapping is not the called handler's")
            if called_with != [list(W.vals)]:
                problems.append(f"the handler is called {len(called_with)} time(s) with {[[x.name for x in c] for c in called_with]}; expected once with the declared parameters in order")
            seq = expr
            if fp:
                if not (isinstance(seq, Rec) and seq.is_call("Seq") and len(seq.args) == 2 and isinstance(seq.args[0], Rec) and seq.args[0].is_call("caster-call") and _strip(seq.args[1]) == "Approve()"):
                    problems.append(f"frame-pointer glue must be Seq(<caster call>, Approve()); got {txt[:120]}")
                    inner = []
                else:
                    inner = list(seq.args[0].args[0].args) + [seq.args[1]]
            else:
                inner = list(seq.args) if isinstance(seq, Rec) and seq.is_call("Seq") else []
            items = [_strip(x) if not isinstance(x, Sym) else x.name for x in inner]
            want = (["ALLOC-LOCALS"] if fp else []) + ["DECODE0", "DECODE1"] + (["subcall"] if void else ["store_result_into('abi:output_temp')", "MethodReturn('abi:output_temp')"]) + ["Approve()"]
            if items != want:
                problems.append(f"glue sequence is {items}; expected {want}")
            if not void and fp:
                # the result temp lives in frame cell 0
                pass
            ctx.check(not problems, "R09.4", construct, "; ".join(problems[:3]), f.where, fact={"sequence": items})
    # MethodReturn
    mr = ctx.model.find_class("MethodReturn", "pyteal.ast.abi.method_return")
    teal = mr.methods["__teal__"]
    ctx.analysed(teal.fq)
    logs = [c for c in q.calls_named(teal.node, "Log", into_nested=False)]
    lg = q.one(logs, "MethodReturn.__teal__: Log")
    ok = u(lg.args[0]).replace(" ", "") == "Concat(Bytes(RETURN_HASH_PREFIX),self.arg.encode())"
    ctx.check(ok, "R09.4", "MethodReturn:log-prefix-then-encoding", f"MethodReturn must lower to Log(Concat(Bytes(RETURN_HASH_PREFIX), self.arg.encode())); found Log({u(lg.args[0])})", teal.where, fact={})
    cfg = ctx.model.module("pyteal.config")
    src = cfg.assigns.get("RETURN_HASH_PREFIX")
    ok_src = src is not None and u(src) == "ABI_RETURN_HASH" and cfg.imports.get("ABI_RETURN_HASH", "").startswith("algosdk.")
    val = None
    if ok_src:
        # read the constant from the installed algosdk source, statically
        import sysconfig
        for base in [sysconfig.get_paths()["purelib"]] + [p for p in __import__("sys").path if p.endswith("site-packages")]:
            fn = os.path.join(base, "algosdk", "atomic_transaction_composer.py")
            if os.path.exists(fn):
                tree = ast.parse(open(fn, encoding="utf-8").read())
                for st in tree.body:
                    if isinstance(st, ast.Assign) and any(isinstance(t, ast.Name) and t.id == "ABI_RETURN_HASH" for t in st.targets):
                        try:
                            val = ast.literal_eval(st.value)
                        except Exception:
                            val = u(st.value)
                break
    ctx.check(ok_src and val == b"\x15\x1f\x7c\x75", "R09.4", "RETURN_HASH_PREFIX", f"the return prefix must be 0x151f7c75 (ARC-4); pyteal.config binds it to {u(src) if src is not None else None} = {val!r}", "pyteal/config.py", fact={"value": repr(val)})
    ctx.require_min("R09.4", 6)


def r09_5_contract_names(ctx):
    ctx.rule("R09.5", "contract/selector agreement: the method object recorded in the contract carries the same name that enters the signature whose selector is compiled into the program, with and without an overriding name")
    f = ctx.model.find_func("Router.add_method_handler", "pyteal.ast.router")
    ctx.analysed(f.fq)
    for override in (None, "foo"):
        spec = Sym("method-spec", attrs={"name": "pyname", "desc": None})
        mc = Sym("method_call", attrs={"$isa": {"ABIReturnSubroutine"}}, methods={"method_signature": lambda n=None: f"{n if n is not None else 'pyname'}(uint64)void", "method_spec": lambda: spec})
        registered = []
        selfs = Sym("router", attrs={"methods": [], "method_sig_to_selector": {}, "method_selector_to_sig": {}, "method_configs": {}, "approval_ast": Sym("ast", methods={"add_method_to_ast": lambda *a: registered.append(a)})})
        cfg = Sym("cfg", methods={"is_never": lambda: False, "approval_cond": lambda: 1})

        def oracle(e, me):
            t = u(e)
            if isinstance(e, ast.Call) and t.startswith("encoding.checksum("):
                return b"abcdefgh"
            raise Unknown()

        def setup(me):
            me.isinstance_hook = lambda v, c: (c.split(".")[-1] in v.attrs.get("$isa", ())) if isinstance(v, Sym) else None

        run_function(f.node, {"self": selfs, "method_call": mc, "overriding_name": override, "method_config": cfg, "description": None}, oracle, f.fq, permissive=True, setup=setup)
        sig = registered[0][0] if registered else None
        rec = selfs.attrs["methods"][0] if selfs.attrs["methods"] else None
        name_in_sig = sig.split("(")[0] if sig else None
        name_in_contract = rec.attrs.get("name") if isinstance(rec, Sym) else None
        ctx.check(name_in_sig is not None and name_in_sig == name_in_contract, "R09.5", f"add_method_handler[overriding_name={override!r}]", f"the program dispatches on `{name_in_sig}` but the contract lists the method as `{name_in_contract}`", f.where, fact={"signature": sig, "contract_name": name_in_contract})
    # the name in the signature is the routine's registered name (an overriding name given at construction included), not the Python function's
    ars_ = ctx.model.find_class("ABIReturnSubroutine", "pyteal.ast.subroutine")
    msf, nmf = ars_.methods["method_signature"], ars_.methods["name"]
    sub_def = Sym("subroutine-definition", attrs={"abi_args": {"a": "uint64", "b": "string"}, "implementation": Sym("python-function", attrs={"__name__": "python_name"})}, methods={"name": lambda: "registered_name"})
    handler = Sym("abi-subroutine", attrs={"subroutine": sub_def}, methods={"is_abi_routable": lambda: True, "type_of": lambda: "void"})
    handler.methods["name"] = lambda: run_function(nmf.node, {"self": handler}, lambda e, me: (_ for _ in ()).throw(Unknown()), nmf.fq, permissive=True)[0]

    def ms_oracle(e, me):
        if u(e) == "abi":
            return Sym("abi", attrs={"TypeSpec": Rec("name", "abi.TypeSpec"), "TransactionTypeSpecs": [], "ReferenceTypeSpecs": []}, methods={"contains_type_spec": lambda *a: False})
        raise Unknown()

    for given, want_name in ((None, "registered_name"), ("explicit", "explicit")):
        try:
            sig_, _ = run_function(msf.node, {"self": handler, "overriding_name": given}, ms_oracle, msf.fq, permissive=True, setup=lambda me: setattr(me, "isinstance_hook", lambda v, c: False if isinstance(v, str) else None))
        except Raised as r:
            sig_ = f"raises {r.exc_text[:40]}"
        ctx.check(sig_ == f"{want_name}(uint64,string)void", "R09.5", f"method_signature[overriding_name={given!r}]", f"the signature is `{sig_}`; the routine is registered (and listed in the contract) as `{want_name}`, so its selector must be that of `{want_name}(uint64,string)void`", msf.where, fact={"signature": sig_})
    # method_signature and method_spec take argument and return types from the same sources
    ars = ctx.model.find_class("ABIReturnSubroutine", "pyteal.ast.subroutine")
    ms, sp = ars.methods["method_signature"], ars.methods["method_spec"]
    rets = q.returns_of(ms.node)
    ok = len(rets) == 1 and isinstance(rets[0].value, ast.JoinedStr) and u(rets[0].value).replace('"', "'") == "f\"{overriding_name}({','.join(args)}){self.type_of()}\"".replace('"', "'")
    ctx.check(ok, "R09.5", "method_signature:form", f"a method signature is name(arg types comma-separated)return type; found {u(rets[0].value) if rets else None}", ms.where, fact={})
    args_src = q.assigns_to(ms.node, "args")
    ctx.check(len(args_src) == 1 and u(args_src[0]) == "[str(v) for v in self.subroutine.abi_args.values()]", "R09.5", "method_signature:arg-types", "argument types must be the str() of the declared ABI parameter types in order", ms.where, fact={})
    ctx.check("'type': str(abi.type_spec_from_annotation(val))" in u(sp.node) and "'type': str(self.type_of())" in u(sp.node), "R09.5", "method_spec:types", "the contract's argument/return type strings must be str() of the same type specs", sp.where, fact={})
    # ownership: the method object add_method_handler renames is its own - method_spec() hands out a fresh object
    spec_vars = [n.targets[0].id for n in walk_local(f.node) if isinstance(n, ast.Assign) and len(n.targets) == 1 and isinstance(n.targets[0], ast.Name) and isinstance(n.value, ast.Call) and q.last_name(n.value) == "method_spec"]
    mutated = sorted({u(t) for n in walk_local(f.node) if isinstance(n, ast.Assign) for t in n.targets if isinstance(t, ast.Attribute) and isinstance(t.value, ast.Name) and t.value.id in spec_vars})
    if mutated:
        retained = []
        for r in q.returns_of(sp.node):
            v = r.value
            srcs = [v]
            if isinstance(v, ast.Name):
                srcs = q.assigns_to(sp.node, v.id)
            for x in srcs:
                if not isinstance(x, ast.Call):
                    retained.append(f"returns `{u(x)}` (line {r.lineno}), which is not a freshly built object")
        for n in walk_local(sp.node):
            if isinstance(n, (ast.Assign, ast.AnnAssign)):
                tg = n.targets if isinstance(n, ast.Assign) else [n.target]
                for t in tg:
                    if isinstance(t, (ast.Attribute, ast.Subscript)) and u(t).split(".")[0].split("[")[0] in ("self", "cls", "ABIReturnSubroutine"):
                        retained.append(f"keeps state in `{u(t)}` (line {n.lineno})")
        ctx.check(not retained, "R09.5", "method_spec:fresh-object", f"add_method_handler writes {mutated} on the object it gets from method_spec(); that object must not be shared between registrations, but method_spec {'; '.join(retained[:2])}", sp.where, fact={"mutated_by_router": mutated})
    else:
        ctx.ok("R09.5", "method_spec:fresh-object", {"mutated_by_router": []}, sp.where)
    ctx.require_min("R09.5", 8)


def run(ctx):
    r09_1_decode(ctx)
    r09_4_glue_and_logging(ctx)
    r09_5_contract_names(ctx)
    from rules import c08 as _c08

    _c08.r08_5_registration(ctx)  # one method per selector: duplicate signatures and selector collisions are refused (shared with C08)
    from rules import c02 as _c02, c04 as _c04, c19 as _c19

    _c02.r02_3_spill(ctx)  # a routed method that calls itself: the spill sequence counts the stack arguments, not the Python parameters (shared with C02)
    _c04.r04_4_immediates(ctx)  # de-tupling offsets past 255 use the stack forms (shared with C04)
    from rules import c12 as _c12, c06 as _c06

    _c06.r06_1_descriptors(ctx)  # static lengths (reference types: one byte) position the members of the 15th-argument tuple (shared with C06)

    _c12.r12_2b_named_ints(ctx)  # transaction type names keep their AVM numbers when constants are assembled (shared with C12)
    return (
        "Abstract evaluation of the router's argument-decoding and glue builders on symbolic parameter lists (0..20 plain parameters, transactions in any position, with and "
        "without ABI output, both conventions): application-argument indices, the 15-argument tuple cutoff, transaction index arithmetic and type asserts, frame cells, "
        "exactly-one MethodReturn before Approve; return prefix constant read statically from algosdk; contract name vs selector name. Decoding of actual bytes is C06/C07."
    )
