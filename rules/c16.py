"""C16 - WideRatio is exact or fails, never wraps (the structural clause: the emitted op lists compute the
reference 128-bit recurrences, with trapping ops at every step that can overflow)."""
from __future__ import annotations

import ast
import itertools

from sa import q
from sa.astutil import u
from sa.lowerworld import World, term_run, norm_term
from sa.minieval import OpVal, Raised, Rec, StackError, Sym, Unknown
from sa.model import AnalysisError
from spec import avm


def ref_product(names):
    """reference (high, low) term pair of the running 128-bit product of the named factors, left to right:
       one factor:   (0, f0)
       two factors:  mulw(f0, f1)
       next factor C on (A, B):  X = A*C + high(B*C),  Y = low(B*C)      [ (A*2^64+B)*C = (A*C + high(B*C))*2^64 + low(B*C) ]"""
    if len(names) == 1:
        return ("int", (0,), 0), names[0]
    hi, lo = ("mulw", (names[0], names[1]), 0), ("mulw", (names[0], names[1]), 1)
    for c in names[2:]:
        hi, lo = ("+", (("*", (hi, c), 0), ("mulw", (lo, c), 0)), 0), ("mulw", (lo, c), 1)
    return hi, lo


def r16_1_terms(ctx):
    ctx.rule("R16.1", "WideRatio's op lists compute, as terms over the AVM op semantics, exactly floor((prod N)/(prod D)) by the reference recurrences: 128-bit running products as (high, low) with X = A*C + high(B*C), Y = low(B*C); quotient low word of divmodw returned, quotient high word asserted zero; every step that can overflow uses an op that fails on overflow")
    W = World(ctx.model, real_exprs=True)
    mf = ctx.model.find_func("multiplyFactors", "pyteal.ast.widemath")
    ctx.analysed(mf.fq, "pyteal.ast.widemath.WideRatio.__teal__")
    maxn = 4 if ctx.tier == "quick" else 6
    for n, m in itertools.product(range(1, maxn + 1), repeat=2):
        if n == 1 and m == 1:
            continue
        nums = [W.child(f"N{i}") for i in range(n)]
        dens = [W.child(f"D{i}") for i in range(m)]

        def extra(e, me):
            if isinstance(e, ast.Call) and u(e.func) == "multiplyFactors":
                a = [me.ev(x) for x in e.args]
                return me.call_def(mf.node, a, {}, {})
            raise Unknown()

        construct = f"WideRatio[{n}x{m}]"
        try:
            val, me, f = W.run_teal("WideRatio", {"numeratorFactors": nums, "denominatorFactors": dens}, W.options(10), extra=extra)
            ops = W.chain(val[0], val[1])
            stack, asserted, tstack = term_run(W, ops, ["BASE"])
        except (StackError, Raised) as e:
            ctx.bad("R16.1", construct, f"op list cannot be evaluated: {e}", mf.where)
            continue
        nh, nl = ref_product([f"N{i}" for i in range(n)])
        dh, dl = ref_product([f"D{i}" for i in range(m)])
        dm = ("divmodw", (nh, nl, dh, dl))
        want_result = norm_term(dm + (1,))
        want_assert = norm_term(("!", (dm + (0,),), 0))
        problems = []
        if len(stack) != 2 or norm_term(stack[-1]) != want_result:
            problems.append(f"the value left is {norm_term(stack[-1]) if len(stack) > 1 else None}; the reference is the low quotient word of divmodw(prod N, prod D) with the products built by the reference recurrences")
        if [norm_term(a) for a in asserted] != [want_assert]:
            problems.append(f"asserted {[norm_term(a) for a in asserted]}; exactly `quotient high word == 0` must be asserted")
        # trapping ops
        used = {W.optab[o.op]["teal"] for o in ops if o.op in W.optab}
        for teal in sorted(used & {"*", "+", "divmodw"}):
            if "traps" not in avm.OPS[teal]["flags"]:
                problems.append(f"op {teal} does not fail on overflow")
        if used & {"addw", "mulw"} - {"mulw"}:
            problems.append("a carry-discarding wide add is used where an overflow must fail")
        ctx.check(not problems, "R16.1", construct, "; ".join(problems[:2]), mf.where, fact={"ops": len(ops), "result": repr(norm_term(stack[-1]))[:160] if len(stack) > 1 else None})
    # version gate and constructor constraints
    wr = ctx.model.find_class("WideRatio", "pyteal.ast.widemath")
    teal = wr.methods["__teal__"]
    try:
        W.run_teal("WideRatio", {"numeratorFactors": [W.child("N0"), W.child("N1")], "denominatorFactors": [W.child("D0")]}, W.options(4), extra=lambda e, me: (_ for _ in ()).throw(Unknown()))
        out = "accepted"
    except Raised as r:
        out = "refused" if "TealCompileError" in r.exc_text else r.exc_text[:40]
    ctx.check(out == "refused", "R16.1", "WideRatio[version 4]", f"at version 4 (no cover/uncover/divmodw) WideRatio is {out}", teal.where, fact={})
    ctx.require_min("R16.1", 10)


def r16_2_constructor(ctx):
    ctx.rule("R16.2", "WideRatio(nums, dens) multiplies and divides by exactly the factors given: the constructor keeps both lists as passed (same expressions, same order, an expression listed on both sides or twice on one side stays listed), and the object built that way lowers to the reference term over those factors")
    wr = ctx.model.find_class("WideRatio", "pyteal.ast.widemath")
    init = q.need(wr.methods.get("__init__"), "WideRatio.__init__ vanished")
    ctx.analysed(init.fq)
    patterns = {
        "distinct 2x2": (["a", "b"], ["c", "d"]),
        "shared factor 2x2": (["a", "s"], ["s", "c"]),
        "shared factor 3x2": (["s", "a", "b"], ["c", "s"]),
        "same factor twice in the numerator": (["a", "a"], ["c"]),
        "both sides identical 2x2": (["s", "t"], ["s", "t"]),
        "shared factor 2x3": (["a", "s"], ["c", "s", "d"]),
    }
    for name, (ns, ds) in patterns.items():
        W = World(ctx.model, real_exprs=True)
        kids = {k: W.child(k) for k in set(ns + ds)}
        nums, dens = [kids[k] for k in ns], [kids[k] for k in ds]
        construct = f"WideRatio.__init__[{name}]"
        try:
            inst = W.construct("WideRatio", [list(nums), list(dens)])
        except Raised as r:
            ctx.bad("R16.2", construct, f"refused: {r.exc_text[:60]}", init.where)
            continue
        gn, gd = inst.attrs.get("numeratorFactors"), inst.attrs.get("denominatorFactors")
        same = lambda got, want: isinstance(got, (list, tuple)) and len(got) == len(want) and all(g is w for g, w in zip(got, want))
        ok = same(gn, nums) and same(gd, dens)
        ctx.check(ok, "R16.2", construct, f"keeps numerator {[repr(x) for x in gn or []]} / denominator {[repr(x) for x in gd or []]}; given {ns} / {ds} (dropping a factor that is 0 at run time turns a failing division into a result)", init.where, fact={"numerator": len(gn or []), "denominator": len(gd or [])})
        if not ok:
            continue
        try:
            val = inst.methods["__teal__"](W.options(10))
            ops = W.chain(val[0], val[1])
            stack, asserted, _t = term_run(W, ops, ["BASE"])
        except (StackError, Raised) as e:
            ctx.bad("R16.2", construct + ":lowering", f"op list cannot be evaluated: {e}", init.where)
            continue
        nh, nl = ref_product(ns)
        dh, dl = ref_product(ds)
        want = norm_term(("divmodw", (nh, nl, dh, dl), 1))
        ctx.check(len(stack) == 2 and norm_term(stack[-1]) == want, "R16.2", construct + ":lowering", f"lowers to {norm_term(stack[-1]) if len(stack) > 1 else None}; reference {want}", init.where, fact={"ops": len(ops)})
    # fewer than one factor on a side is refused
    for ns, ds in (([], ["a"]), (["a"], [])):
        W = World(ctx.model, real_exprs=True)
        try:
            W.construct("WideRatio", [[W.child(k) for k in ns], [W.child(k) for k in ds]])
            out = "accepted"
        except Raised as r:
            out = "refused"
        ctx.check(out == "refused", "R16.2", f"WideRatio.__init__[{len(ns)}x{len(ds)}]", f"an empty factor list is {out}", init.where, fact={})
    ctx.require_min("R16.2", 10)


def run(ctx):
    r16_1_terms(ctx)
    r16_2_constructor(ctx)
    from rules import c05 as _c05

    _c05.r05_3_literal_op_lists(ctx)
    from rules import c12 as _c12, c02 as _c02
    from rules.lowering_sem import r01_15_pipeline

    # a factor can be any expression: a loop, a recursive call, a variable handed over by reference. The passes between the
    # expression and the TEAL text keep its meaning (shared with C01 / C02)
    _c02.r02_4_recursion_guards(ctx)
    _c02.r02_1_call_site(ctx)
    r01_15_pipeline(ctx)

    _c12.r12_1_sites(ctx)  # constant factors: with assembleConstants every factor site still loads the constant written there (shared with C12)
    return (
        "Abstract evaluation of WideRatio.__teal__/multiplyFactors for all factor counts up to a bound; the emitted op list is pushed through a term-level stack machine driven by "
        "the AVM op signatures and the resulting term is compared (modulo commutativity) with the reference recurrences, whose arithmetic identity "
        "(A*2^64+B)*C = (A*C + high(B*C))*2^64 + low(B*C) is proved on paper in DESIGN.md; overflow-capable steps use failing ops. Values are not computed."
    )
