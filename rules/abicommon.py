"""Shared by C06/C07: abstract worlds for the ABI layer.

RealSpecs   - TypeSpec objects built by interpreting the repository's own constructors and methods
              (__init__, __str__, is_dynamic, byte_length_static, _stride, ...), so that descriptor code is
              what is being checked.
AbiOracle   - names the ABI modules refer to (class objects, module constants, helper functions).
"""
from __future__ import annotations

import ast
import re
from typing import Any, Dict, List, Optional

from sa import q
from sa.astutil import u, try_const
from sa.minieval import MiniEval, Raised, Rec, Sym, Unknown, run_function
from sa.model import AnalysisError, ClassInfo
from sa.objworld import ObjWorld
from spec import arc4

ABI_MODULES = ["pyteal.ast.abi.type", "pyteal.ast.abi.bool", "pyteal.ast.abi.uint", "pyteal.ast.abi.tuple", "pyteal.ast.abi.array_base", "pyteal.ast.abi.array_static", "pyteal.ast.abi.array_dynamic", "pyteal.ast.abi.address", "pyteal.ast.abi.string", "pyteal.ast.abi.util", "pyteal.ast.abi.transaction", "pyteal.ast.abi.reference_type"]


def strip(x) -> str:
    return re.sub(r"#\d+", "", repr(x))


class AbiWorld(ObjWorld):
    def __init__(self, ctx, modules=None, real_classes=()):
        self.ctx = ctx
        super().__init__(ctx.model, ABI_MODULES if modules is None else modules, real_classes, where="abi-world")
        # the NamedTuple base class as an object user classes are compared with
        self.consts.setdefault("NamedTuple", Sym("class:NamedTuple", attrs={"classname": "NamedTuple", "__module__": "pyteal.abi", "__qualname__": "NamedTuple"}))

    def spec(self, s) -> Sym:
        """the repository's TypeSpec object for an ARC-4 shape"""
        k = s[0]
        cname = arc4.class_of(s)
        if k in ("bool", "byte", "uint", "address", "string", "bytes_dyn", "txn", "ref"):
            return self.construct(cname, [], {})
        if k == "bytes_static":
            return self.construct(cname, [s[1]], {})
        if k == "sarr":
            return self.construct(cname, [self.spec(s[1]), s[2]], {})
        if k == "darr":
            return self.construct(cname, [self.spec(s[1])], {})
        if k == "tuple":
            return self.construct(cname, [self.spec(m) for m in s[1]], {})
        if k == "ntuple":
            # a NamedTuple class; classes made by one factory share module and qualified name but are different classes
            key = ("ntuple-class", s[1], repr(s[2]))
            if key not in self.instances:
                self.instances[key] = Sym(f"class:{s[1]}", attrs={"__module__": "user_module", "__qualname__": f"factory.<locals>.{s[1].rstrip('0123456789')}", "__name__": s[1], "classname": s[1]})
            return self.construct("NamedTupleTypeSpec", [self.instances[key]] + [self.spec(m) for m in s[2]], {})
        raise AnalysisError(f"shape {s} not constructible")


def intval(t):
    """k for the term Int(k)"""
    if isinstance(t, Rec) and t.is_call("Int") and len(t.args) == 1 and isinstance(t.args[0], int):
        return t.args[0]
    return None


def head16(t):
    """k for the term ExtractUint16(<encoded>, Int(k))"""
    if isinstance(t, Rec) and t.is_call("ExtractUint16") and len(t.args) == 2:
        return intval(t.args[1])
    return None
