"""C18 - comments, pragmas, nonces and names never change the code (structural clauses)."""
from __future__ import annotations

import ast
import itertools

from sa import q
from sa.astutil import u, walk_local
from sa.lowerworld import World, term_run
from sa.minieval import MiniEval, OpVal, Raised, Rec, Sym, Unknown, run_function
from sa.model import AnalysisError
from rules.c03 import Blocks, make_oracle, mkop, op_sym, _run_optimizer, slot
from spec import teal_literals as TL

TEXTS = ["plain", "", "two\nlines", "cr\rlf\r\nmix", "trailing\n", "\nleading", "a // b", "a; b", 'quote " inside', "pop\nint 1", "uni sep", "vt\x0bff\x0c", "\n\n", "swap{a,b}", "f{}", "close}", "{0}", "100%d %s"]


def _comment_world(ctx, W):
    """callables for Comment / CommentExpr / Seq interpreted from the repository"""
    model = ctx.model
    cf = model.find_func("Comment", "pyteal.ast.comment")
    ce = model.find_class("CommentExpr", "pyteal.ast.comment")
    seq = model.find_class("Seq", "pyteal.ast.seq")

    def mk_comment_expr(text):
        selfs = Sym("comment-expr", attrs={"$isa": {"Expr", "CommentExpr"}})
        W.me.call_def(ce.methods["__init__"].node, [selfs, text], {}, {})
        selfs.methods["__teal__"] = lambda options: W.me.call_def(ce.methods["__teal__"].node, [selfs, options], {}, {})
        selfs.methods["type_of"] = lambda: W.TT.attrs["none"]
        selfs.methods["has_return"] = lambda: False
        return selfs

    def mk_seq(*exprs):
        selfs = Sym("seq", attrs={"$isa": {"Expr", "Seq"}})
        if len(exprs) == 1 and isinstance(exprs[0], list):
            exprs = exprs[0]
        selfs.attrs["args"] = list(exprs)
        for nm in ("__teal__", "type_of", "has_return"):
            selfs.methods[nm] = (lambda nm: lambda *a: W.me.call_def(seq.methods[nm].node, [selfs] + list(a), {}, {}))(nm)
        return selfs

    def comment(text, expr=None):
        return W.me.call_def(cf.node, [text] + ([expr] if expr is not None else []), {}, {})

    return mk_comment_expr, mk_seq, comment


def r18_1_annotations_delegate(ctx):
    ctx.rule("R18.1", "annotation constructs contribute only comment lines: Comment(text, e) lowers to single-line comment ops followed by exactly e's code (and has e's type / has_return) for every text; an Assert comment adds only comment ops before `assert`; Pragma and Nonce lower to their child (Nonce after the documented push-and-pop)")
    W = World(ctx.model)
    cf = ctx.model.find_func("Comment", "pyteal.ast.comment")
    ctx.analysed(cf.fq, "pyteal.ast.comment.CommentExpr.__init__", "pyteal.ast.comment.CommentExpr.__teal__")

    def extra(e, me):
        t = u(e)
        W.me = me
        mk_ce, mk_seq, comment = _comment_world(ctx, W)
        if t == "CommentExpr":
            return mk_ce
        if t == "Seq":
            return mk_seq
        if t == "Comment":
            return comment
        if isinstance(e, ast.Call) and t == "super()":
            return Sym("super", methods={"__init__": lambda: None})
        raise Unknown()

    for text in TEXTS:
        child = W.child("E", "uint64")
        construct = f"Comment[{text!r}]"

        def setup(me):
            W.me = me

        try:
            val, me = run_function(cf.node, {"comment": text, "expr": child}, W.oracle(extra), cf.fq, permissive=True, setup=setup)
            W.me = me
            blocks = val.methods["__teal__"](W.options(8))
            ops = W.chain(blocks[0], blocks[1])
        except Raised as r:
            ctx.bad("R18.1", construct, f"raises {r.exc_text[:60]}", cf.where)
            continue
        noncomment = [o for o in ops if o.op != "comment"]
        comments = [o for o in ops if o.op == "comment"]
        problems = []
        if [repr(o) for o in noncomment] != ["$push E uint64"] or (ops and ops[-1].op == "comment"):
            problems.append(f"the instruction stream is {[repr(o) for o in noncomment]} (comments last: {bool(ops and ops[-1].op == 'comment')}); it must be exactly the commented expression, after the comments")
        for c in comments:
            if not (len(c.args) == 1 and isinstance(c.args[0], str) and "\n" not in c.args[0] and "\r" not in c.args[0]):
                problems.append(f"comment op carries text {c.args!r} with a line break")
        # one comment op per line of the text, lines as str.splitlines() counts them - the function the assembled program is
        # split with everywhere else in PyTeal (source mapper, annotated TEAL): a piece holding U+2028, NEL, FF ... is counted
        # as several TEAL lines there although it is one op here
        pieces = [c.args[0] for c in comments if len(c.args) == 1 and isinstance(c.args[0], str)]
        multi = [p_ for p_ in pieces if len(p_.splitlines()) > 1]
        if multi:
            problems.append(f"comment op text {multi[0]!r} is several lines for str.splitlines(): the source map counts one entry per such line, the program has one op")
        if val.methods["type_of"]() != W.TT.attrs["uint64"] or val.methods["has_return"]() is not False:
            problems.append("type_of / has_return differ from the commented expression's")
        ctx.check(not problems, "R18.1", construct, "; ".join(problems[:2]), cf.where, fact={"ops": [repr(o) for o in ops]})
    # Assert with a comment
    ac = ctx.model.find_class("Assert", "pyteal.ast.assert_")
    teal = ac.methods["__teal__"]
    ctx.analysed(teal.fq)
    for text in TEXTS:
        for version in (2, 8):
            cond = W.child("C", "uint64")
            construct = f"Assert[comment={text!r},v{version}]"

            def setup(me):
                W.me = me

            try:
                val, me, f = W.run_teal("Assert", {"cond": [cond], "comment": text}, W.options(version), extra=extra)
            except Raised as r:
                ctx.bad("R18.1", construct, f"raises {r.exc_text[:60]}", teal.where)
                continue
            # collect every op reachable (v2 form has a conditional block)
            ops = []
            seen = []
            stack = [val[0]]
            while stack:
                b = stack.pop()
                if any(b is x for x in seen):
                    continue
                seen.append(b)
                ops.extend(b.attrs["ops"])
                stack.extend(b.methods["getOutgoing"]())
            bad_c = [o for o in ops if o.op == "comment" and not (len(o.args) == 1 and isinstance(o.args[0], str) and "\n" not in o.args[0] and "\r" not in o.args[0])]
            noncomment = sorted(repr(o) for o in ops if o.op != "comment")
            want = sorted(["$push C uint64", "assert_"]) if version >= 3 else sorted(["$push C uint64", "err"])
            ctx.check(not bad_c and noncomment == want, "R18.1", construct, f"instruction stream {noncomment} (expected {want}); comment ops with line breaks: {[o.args for o in bad_c]}", teal.where, fact={"ops": [repr(o) for o in ops]})
    # Pragma / Nonce
    pc = ctx.model.find_class("Pragma", "pyteal.ast.pragma")
    child = W.child("E", "bytes", has_return=True)
    val, me, f = W.run_teal("Pragma", {"child": child, "compiler_version": "*"}, W.options(8), extra=lambda e, me: None if isinstance(e, ast.Call) and u(e.func) == "pragma" else (_ for _ in ()).throw(Unknown()))
    ops = W.chain(val[0], val[1])
    ctx.check([repr(o) for o in ops] == ["$push E bytes"], "R18.1", "Pragma.__teal__", f"Pragma must lower to exactly its child; got {[repr(o) for o in ops]}", f.where, fact={})
    for cname in ("Pragma", "Nonce"):
        c = ctx.model.find_class(cname)
        for m, want in (("type_of", "self.child.type_of()"), ("has_return", "self.child.has_return()")):
            rets = q.returns_of(c.methods[m].node)
            ctx.check(len(rets) == 1 and u(rets[0].value) == want, "R18.1", f"{cname}.{m}", f"{cname}.{m} must delegate to the child", c.methods[m].where, fact={})
    nc = ctx.model.find_class("Nonce", "pyteal.ast.nonce")
    init = nc.methods["__init__"]
    seqs = [n for n in walk_local(init.node) if isinstance(n, ast.Assign) and u(n.targets[0]) == "self.seq"]
    ctx.check(len(seqs) == 1 and u(seqs[0].value).replace(" ", "") == "Seq([Pop(self.nonce_bytes),self.child])", "R18.1", "Nonce:push-pop-then-child", f"Nonce is Pop(<nonce bytes>) followed by the child; found {u(seqs[0].value) if seqs else None}", init.where, fact={})
    rets = q.returns_of(nc.methods["__teal__"].node)
    ctx.check(len(rets) == 1 and u(rets[0].value) == "self.seq.__teal__(options)", "R18.1", "Nonce.__teal__", "Nonce lowers its Seq", nc.methods["__teal__"].where, fact={})
    ctx.require_min("R18.1", 40)


def r18_2_comment_inert(ctx):
    ctx.rule("R18.2", "the comment op is inert in the optimiser: inserting a comment op anywhere in a block leaves the optimised instruction stream (comments removed) unchanged")
    OpS = op_sym(ctx.model)
    a, b = slot("a"), slot("b")
    f = ctx.model.find_func("_apply_slot_to_stack", "pyteal.compiler.optimizer.optimizer")
    ctx.analysed(f.fq)
    bases = [
        [("int", 1), ("store", a), ("load", a)],
        [("int", 1), ("store", a), ("load", a), ("pop",)],
        [("int", 1), ("store", a), ("int", 2), ("store", b), ("load", b), ("load", a)],
        [("int", 1), ("store", a), ("load", a), ("load", a)],
        # a store that ends its block: whatever follows it in the block is at most a comment
        [("int", 1), ("store", a)],
        [("load", a), ("int", 1), ("store", a)],
    ]
    keyed = {}
    for base in bases:
        def run(seq):
            B = Blocks()
            ops = [mkop(OpS, s[0], *s[1:]) for s in seq]
            blk = B.block("b0", ops)
            _run_optimizer(ctx, OpS, B, blk, [blk], set())
            return [o.name for o in blk.attrs["ops"] if not o.name.startswith("comment")]

        plain = run(base)
        for pos in range(len(base) + 1):
            seq = base[:pos] + [("comment", "note")] + base[pos:]
            try:
                got = run(seq)
            except (Raised, IndexError, KeyError) as r:
                got = [f"<raises {type(r).__name__ if not isinstance(r, Raised) else r.exc_text[:40]}>"]
            text = "; ".join(" ".join(map(lambda x: x.name if isinstance(x, Sym) else str(x), s)) for s in seq)
            if got != plain:
                between = pos > 0 and pos < len(base) and base[pos - 1][0] == "store" and base[pos][0] == "load" and base[pos - 1][1:] == base[pos][1:]
                key = "optimizer:comment-between-store-and-load" if between else "optimizer:comment-changes-result"
                keyed.setdefault(key, (text, got, plain))
            else:
                ctx.ok("R18.2", f"opt[{text}]", {"stream": got}, f.where)
    for key, (text, got, plain) in sorted(keyed.items()):
        ctx.bad("R18.2", key, f"`{text}` optimises to {got} but without the comment to {plain}: the annotation changes the instruction stream", f.where)
    ctx.require_min("R18.2", 10)


def r18_3_single_line_text(ctx):
    ctx.rule("R18.3", "annotation text stays inside comment lines of the assembled TEAL: a comment op and a label's comment assemble to lines that each start with `//` (or are the label itself) whatever the text; label names are reduced to [A-Za-z0-9] plus an index")
    tl = ctx.model.find_class("TealLabel", "pyteal.ir.teallabel")
    asm = tl.methods["assemble"]
    ctx.analysed(asm.fq)
    for text in TEXTS + [None]:
        selfs = Sym("label", attrs={"comment": text, "label": Sym("ref", methods={"getLabel": lambda: "sub_0"})})
        try:
            val, _ = run_function(asm.node, {"self": selfs}, lambda e, me: (_ for _ in ()).throw(Unknown()), asm.fq)
        except Raised as r:
            ctx.bad("R18.3", f"TealLabel.assemble[comment={text!r}]", f"assembling a label whose comment (a subroutine's name) is {text!r} raises {r.exc_text[:60]}", asm.where)
            continue
        lines = val.split("\n")
        code_lines = [l for l in lines if l.strip() and not l.lstrip().startswith("//")]
        ok = code_lines == ["sub_0:"] and lines[-1] == "sub_0:" and "\r" not in "".join(l for l in lines if not l.lstrip().startswith("//"))
        ctx.check(ok, "R18.3", f"TealLabel.assemble[comment={text!r}]", f"assembles to {val!r}: lines {code_lines} are not comments; only the label line may be code", asm.where, fact={"text": val})
    to = ctx.model.find_class("TealOp", "pyteal.ir.tealop")
    oasm = to.methods["assemble"]
    for text in ["note", "a // b", "a; b", ""]:
        selfs = Sym("op", attrs={"op": "//", "args": [text]})
        val, _ = run_function(oasm.node, {"self": selfs}, lambda e, me: (_ for _ in ()).throw(Unknown()), oasm.fq, permissive=True)
        ctx.check(isinstance(val, str) and val.startswith("//") and "\n" not in val, "R18.3", f"TealOp.assemble[comment {text!r}]", f"a comment op assembles to {val!r}", oasm.where, fact={})
    ce = ctx.model.find_class("CommentExpr", "pyteal.ast.comment")
    init = ce.methods["__init__"]
    for text, want in (("ok", True), ("a\nb", False), ("a\rb", False)):
        selfs = Sym("ce")
        try:
            run_function(init.node, {"self": selfs, "single_line_comment": text}, lambda e, me: Sym("super", methods={"__init__": lambda: None}) if isinstance(e, ast.Call) and u(e) == "super()" else (_ for _ in ()).throw(Unknown()), init.fq, permissive=True)
            acc = True
        except Raised:
            acc = False
        ctx.check(acc == want, "R18.3", f"CommentExpr({text!r})", f"CommentExpr({text!r}) is {'accepted' if acc else 'refused'}", init.where, fact={})
    # the comment op is no instruction: the final version / mode sweep must let it pass in every program
    from sa.tables import op_table

    row = op_table(ctx.model).get("comment")
    q.need(row is not None, "Op.comment vanished from the op table")
    ctx.check(row["teal"] == "//" and set(row["modes"]) == {"S", "A"} and row["v"] <= 2, "R18.3", "Op.comment:table-row", f"the comment op is declared as {row['teal']!r}, modes {row['modes']}, min version {row['v']}: a comment must be allowed in both modes from the lowest program version, otherwise adding one makes a program fail the final sweep", f"pyteal/ir/ops.py:{row['line']}", fact=dict(row))
    ctx.require_min("R18.3", 16)


def _range_structure(s: str):
    """shape of an npm range: `||`-separated alternatives; an alternative is a hyphen range `A - B` (blanks on both sides of
    the hyphen) or a blank-separated set of comparators"""
    out = []
    for alt in s.split("||"):
        toks = alt.split()
        if len(toks) == 3 and toks[1] == "-":
            out.append(("hyphen", toks[0], toks[2]))
        else:
            out.append(("set", tuple(toks)))
    return out


_XR = r"(?:x|X|\*|0|[1-9][0-9]*)"
_PART = r"[0-9A-Za-z-]+"
_PARTIAL = rf"[v=\s]*{_XR}(?:\.{_XR}(?:\.{_XR}(?:-{_PART}(?:\.{_PART})*)?(?:\+{_PART}(?:\.{_PART})*)?)?)?"


def npm_range_valid(text: str) -> bool:
    """node-semver range grammar (README 'Range Grammar'): range-set ::= range ('||' range)*; range ::= hyphen | simple (' ' simple)* | '';
    hyphen ::= partial ' - ' partial; simple ::= ('<' | '>' | '>=' | '<=' | '=' | '~' | '^')? partial"""
    import re as _re

    for alt in text.split("||"):
        alt = alt.strip()
        if alt == "":
            continue
        if _re.fullmatch(rf"{_PARTIAL}\s+-\s+{_PARTIAL}", alt):
            continue
        if all(_re.fullmatch(rf"(?:<=|>=|<|>|=|~|\^)?{_PARTIAL}", tok) for tok in alt.split()):
            continue
        return False
    return True


def r18_5_pragma_ranges(ctx):
    ctx.rule("R18.5", "a compiler-version pragma is judged as written: converting PEP 440 spellings inside an npm range rewrites the version tokens only - alternatives (||), comparator sets and hyphen ranges `A - B` keep their shape, each token being converted as it is when it stands alone")
    f = ctx.model.find_func("__convert_pep440_compiler_version", "pyteal.pragma.pragma")
    ctx.analysed(f.fq)
    import re as _re

    def conv(text):
        val, _ = run_function(f.node, {"compiler_version": text}, lambda e, me: _re if u(e) == "re" else (_ for _ in ()).throw(Unknown()), f.fq)
        return val

    ranges = ["0.27.0", "0.1.0 - 999.0.0", "0.27.0 - 0.28.0", "v0.26.0 - v0.27.0", ">=0.20.0 <0.30.0", "<0.5.0+local || >=1.0.0a9.post1.dev2", "1.0.0a1 || 2.0.0 - 3.0.0 || ^4", "~0.26.1 || 0.27.x", "*", "1.0.0rc1 - 1.0.0", ">=0.20.0 <0.30.0 || 1.x - 2.x", "0.27.x", "0.x", ">=0.20.x", "0.27.X || 0.28.*", "1", "^0.26"]
    for r in ranges:
        try:
            got = conv(r)
            want = []
            for alt in _range_structure(r):
                if alt[0] == "hyphen":
                    want.append(("hyphen", conv(alt[1]), conv(alt[2])))
                else:
                    want.append(("set", tuple(conv(t) for t in alt[1])))
            ok = isinstance(got, str) and _range_structure(got) == want
            why = f"is converted to `{got}`, whose shape {_range_structure(got) if isinstance(got, str) else None} differs from the shape of the range as written with its tokens converted {want}"
            if ok and not npm_range_valid(got):
                ok, why = False, f"is converted to `{got}`, which is not a range of the npm grammar: the version check dies with a ValueError of the semver library instead of deciding"
        except Raised as r_:
            ok, why = False, f"raises {r_.exc_text[:50]}"
        ctx.check(ok, "R18.5", f"pragma-range[{r}]", f"`{r}` {why}", f.where, fact={"converted": got if ok else None})
    ctx.require_min("R18.5", 10)


def run(ctx):
    r18_1_annotations_delegate(ctx)
    r18_2_comment_inert(ctx)
    r18_3_single_line_text(ctx)
    r18_5_pragma_ranges(ctx)
    from rules.lowering_sem import r04_9_whole_program

    r04_9_whole_program(ctx)  # a subroutine's name is an annotation: whatever it is, every callsub reaches its routine (shared with C04)
    from rules import c01 as _c01b

    _c01b.r01_13_is_terminal(ctx)  # a comment op behind a terminator does not turn the block into a fall-through block
    from rules import c04 as _c04, c13 as _c13

    _c04.r04_7_labels(ctx)  # label spellings: sanitised name + unique index, prefixes
    _c04.r04_6_placeholders(ctx)
    _c13.r13_1_bytes_forms(ctx)  # quoted text (method signatures, byte strings) cannot leak out of its token
    from rules.lowering_sem import r15_7_relowering
    from rules import c11 as _c11

    r15_7_relowering(ctx)  # an annotated expression lowers to the same code every time it is lowered (shared with C15)
    _c11.r11_8_object_state_inventory(ctx)  # a comment object keeps nothing from being lowered (shared with C11)
    return (
        "Abstract evaluation of Comment/CommentExpr/Assert(comment)/Pragma/Nonce lowering for texts with line breaks, comment markers, separators and quotes: the instruction stream "
        "is the annotated expression's and every comment op is single-line; comment ops inserted at every position of optimiser inputs; assembly of labels and comment ops; label "
        "sanitisation. Behaviour of the assembled program is not executed."
    )
