"""C20 - compilation is total: TEAL or a PyTeal error, never a crash (structural clauses)."""
from __future__ import annotations

import ast

from sa import q
from sa.astutil import u, walk_local
from sa.model import AnalysisError

PYTEAL_ERRORS = {"TealInputError", "TealCompileError", "TealTypeError", "TealInternalError", "TealPragmaError", "TealSeqError", "SourceMapDisabledError"}

# compile-time scope: functions that run while a program is being compiled (not while the user's tree is being built)
SCOPE_MODULE_PREFIXES = ("pyteal.compiler.compiler", "pyteal.compiler.flatten", "pyteal.compiler.sort", "pyteal.compiler.subroutines", "pyteal.compiler.scratchslots", "pyteal.compiler.constants", "pyteal.compiler.optimizer", "pyteal.ir.")
SCOPE_METHODS = {"__teal__", "compile_check", "local_version_check", "type_of", "has_return"}

# obligations discharged by reading, one line of reason each: (function qualname, normalised statement) -> reason
DISCHARGED = {
    ("flattenBlocks", "assert block.nextBlock is not None"): "the block is not terminal, so getOutgoing() is non-empty, which for a simple block means nextBlock is set (isTerminal's definition)",
    ("flattenBlocks", "assert block.trueBlock is not None"): "every construct that creates a conditional block sets both edges before returning (R01.3 wiring facts); an unset edge would make the block terminal only if both are unset",
    ("flattenBlocks", "assert block.falseBlock is not None"): "same: If/Cond/While/For/Assert set the false edge on every path (R01.3)",
    ("flattenBlocks.<locals>.blockIndexByReference", "raise ValueError"): "every successor of an ordered block is itself in the order: sortBlocks pushes all of getOutgoing() (R01.5)",
    ("spillLocalSlotsDuringRecursion", "assert len(calledSubroutines) <= 1"): "only callsub carries a SubroutineDefinition and it carries exactly one (the single TealOp(..., Op.callsub, self.subroutine) emission site, R02.1)",
    ("TealBlock.validateTree", "assert count == 1"): "incoming lists are rebuilt by addIncoming right before and kept consistent by the two graph rewrites (R01.6 root rebinding, R01.7 total edge replacement); the two historical counter-examples are fixed",
    ("Compilation._compile_impl", "assert NatalStackFrame.sourcemapping_is_off()"): "executed inside sourcemapping_off_context(), whose __enter__ switches the gate off (C15 R15.2)",
    ("Compilation._compile_impl", "raise ValueError"): "option misuse (annotate_teal without with_sourcemap), not a property of the program being compiled",
    ("TealPragma.__init__", "raise ValueError"): "constructed by _compile_impl with exactly one keyword (version=..., or type_track=False)",
    ("TealPragma.__repr__", "raise ValueError"): "diagnostic only",
    ("CondWithMethod.to_cond_node", "assert (ufhlen := len(user_frames_holder)) == 1"): "router construction time (wrap_handler appends exactly one frame holder on the method path), not reached while compiling an expression tree",
    ("_SubroutineDeclByOption.__info_prepare", "assert ss_ret == fp_ret"): "both evaluators wrap the same user body in a Seq whose has_return is the body's (R02.2 shows the body is the last element in both conventions)",
    ("_SubroutineDeclByOption.__info_prepare", "assert ss_type == fp_type"): "same: the Seq's type is the body's type in both conventions",
}


def in_scope(f) -> bool:
    if f.module.name.startswith("pyteal.compiler.sourcemap"):
        return False
    if any(f.module.name.startswith(p) or f.module.name + "." == p for p in SCOPE_MODULE_PREFIXES):
        return True
    if f.module.name.startswith("pyteal.ast"):
        base = f.qualname.split(".<locals>.")[0].split(".")[-1]
        return base in SCOPE_METHODS or f.qualname in {k[0] for k in DISCHARGED}
    return False


def _norm(st) -> str:
    if isinstance(st, ast.Assert):
        return "assert " + u(st.test)
    t = u(st.exc.func if isinstance(st.exc, ast.Call) else st.exc).split(".")[-1] if st.exc is not None else "<reraise>"
    return "raise " + t


def r20_1_obligations(ctx):
    ctx.rule("R20.1", "every `assert` and every raise of a non-PyTeal exception type in compile-time code is an obligation discharged by a recorded reason; a new one is reported")
    seen = set()
    for f in ctx.model.iter_funcs():
        if not in_scope(f):
            continue
        ctx.analysed(f.fq)
        for n in walk_local(f.node):
            ob = None
            if isinstance(n, ast.Assert):
                ob = _norm(n)
            elif isinstance(n, ast.Raise) and n.exc is not None:
                t = _norm(n)[6:]
                if t not in PYTEAL_ERRORS and not t.endswith("Error") is False and t not in PYTEAL_ERRORS:
                    # names bound to PyTeal errors (seq_error = TealSeqError(...)) are resolved through their single definition
                    r = q.rtext(f.node, n.exc)
                    if any(r.startswith(e + "(") or r == e for e in PYTEAL_ERRORS):
                        continue
                    ob = "raise " + t
            if ob is None:
                continue
            key = (f.qualname, ob)
            seen.add(key)
            where = f"{f.module.rel}:{n.lineno}"
            if key in DISCHARGED:
                ctx.ok("R20.1", f"{f.qualname}:{ob}", {"reason": DISCHARGED[key]}, where)
            else:
                ctx.bad("R20.1", f"{f.qualname}:{ob}", f"`{ob}` in compile-time code: if reachable with a false condition the compiler dies with a non-PyTeal exception; no justification is recorded for it", where)
    for key in sorted(set(DISCHARGED) - seen):
        ctx.uncheck(f"discharged obligation {key} no longer exists")
    ctx.require_min("R20.1", 8)


def r20_2_successor_recursion(ctx):
    ctx.rule("R20.2", "no compile-time function recurses once per block along successor edges (depth would grow with program length and exhaust the interpreter stack)")
    n = 0
    for f in ctx.model.iter_funcs():
        if not (f.module.name.startswith("pyteal.ir.") or f.module.name.startswith("pyteal.compiler.")) or f.module.name.startswith("pyteal.compiler.sourcemap"):
            continue
        if f.name in ("__eq__", "__repr__", "__hash__"):
            continue  # diagnostics / test support; kept off the compile path by R20.3
        for c in q.calls_named(f.node, f.name, into_nested=False):
            if not isinstance(c.func, ast.Attribute):
                continue
            recv = q.rtext(f.node, c.func.value)
            via_successor = any(k in recv for k in ("getOutgoing()", "nextBlock", "trueBlock", "falseBlock")) or (isinstance(c.func.value, ast.Name) and any("getOutgoing()" in u(x) for x in q.assigns_to(f.node, c.func.value.id)))
            if not via_successor:
                continue
            n += 1
            ctx.bad("R20.2", f"{f.qualname}:recursion-along-successors", f"{f.fq} calls itself on a successor block ({u(c)[:60]}): recursion depth is proportional to the number of blocks, so a long enough program raises RecursionError", f"{f.module.rel}:{c.lineno}")
    # plain functions and nested helpers: a call of the function's own name whose argument comes from the successors of its parameter
    for f in ctx.model.iter_funcs():
        if not (f.module.name.startswith("pyteal.ir.") or f.module.name.startswith("pyteal.compiler.")) or f.module.name.startswith("pyteal.compiler.sourcemap"):
            continue
        for c in walk_local(f.node):
            if not (isinstance(c, ast.Call) and isinstance(c.func, ast.Name) and c.func.id == f.name and c.args):
                continue
            arg = c.args[0]
            src = q.rtext(f.node, arg)
            loops = [a for a in q.ancestors(c) if isinstance(a, ast.For)]
            over_successors = any(any(k in u(l.iter) for k in ("getOutgoing()", "nextBlock", "trueBlock", "falseBlock")) for l in loops)
            if over_successors or any(k in src for k in ("getOutgoing()", "nextBlock", "trueBlock", "falseBlock")):
                n += 1
                ctx.bad("R20.2", f"{f.qualname}:recursion-along-successors", f"{f.fq} calls itself for each successor block ({u(c)[:60]}): recursion depth is proportional to the length of the longest path, so a long enough program raises RecursionError", f"{f.module.rel}:{c.lineno}")
    # the walks that were made iterative stay iterative
    for qual in ("TealBlock.addIncoming", "TealBlock.validateTree", "TealBlock.validateSlots"):
        f = ctx.model.find_func(qual, "pyteal.ir.tealblock")
        rec = [c for c in q.calls_named(f.node, f.name, into_nested=False)]
        ctx.check(not rec and any(isinstance(x, ast.While) for x in walk_local(f.node)), "R20.2", f"{qual}:iterative", f"{qual} must walk the graph iteratively", f.where, fact={})
    ctx.require_min("R20.2", 2)


def r20_3_no_structural_block_equality(ctx):
    ctx.rule("R20.3", "compile-time code never compares blocks structurally (== / != / in on a list of blocks): block __eq__ recurses through successors without a cycle guard on conditional blocks, and equal-looking blocks are different blocks")
    n = 0
    for f in ctx.model.iter_funcs():
        if not (f.module.name.startswith("pyteal.compiler.") or f.module.name.startswith("pyteal.ir.tealblock")) or f.module.name.startswith("pyteal.compiler.sourcemap"):
            continue
        if f.name in ("__eq__", "__repr__"):
            continue
        for cmp_ in [x for x in walk_local(f.node) if isinstance(x, ast.Compare)]:
            for op, right in zip(cmp_.ops, cmp_.comparators):
                left = cmp_.left
                names = [u(left), u(right)]
                blocky = [t for t in names if t.lower().endswith("block") or t in ("start", "end", "prev", "b", "w", "n") or t.endswith("Block")]
                if len(blocky) == 2:
                    n += 1
                    ctx.check(isinstance(op, (ast.Is, ast.IsNot)), "R20.3", f"{f.qualname}:{u(cmp_)}", f"`{u(cmp_)}` compares two blocks structurally; use identity", f"{f.module.rel}:{cmp_.lineno}", fact={})
    ctx.require_min("R20.3", 5)


TRACEBACK_RETURNS = {"format_stack": "list[str]", "format_list": "list[str]", "format_tb": "list[str]", "format_exception": "list[str]", "format_exc": "str", "extract_stack": "StackSummary", "extract_tb": "StackSummary", "walk_stack": "iterator of frames"}


def r20_4_error_text(ctx):
    ctx.rule("R20.4", "a compile error can be printed: TealCompileError.__str__ joins the definition trace of its expression as strings, so what Expr.__init__ stores as the trace (and what getDefinitionTrace hands out) is a list of strings - produced by a traceback function that returns formatted text")
    ex = ctx.model.find_class("Expr", "pyteal.ast.expr")
    init = q.need(ex.methods.get("__init__"), "Expr.__init__ vanished")
    gdt = q.need(ex.methods.get("getDefinitionTrace"), "Expr.getDefinitionTrace vanished")
    tce = ctx.model.find_class("TealCompileError", "pyteal.errors")
    st = q.need(tce.methods.get("__str__"), "TealCompileError.__str__ vanished")
    ctx.analysed(init.fq, gdt.fq, st.fq)
    joins = [c for c in ast.walk(st.node) if isinstance(c, ast.Call) and isinstance(c.func, ast.Attribute) and c.func.attr == "join" and isinstance(c.func.value, ast.Constant) and isinstance(c.func.value.value, str)]
    consumer_needs_text = any("getDefinitionTrace" in q.rtext(st.node, c.args[0]) for c in joins if c.args)
    rets = q.returns_of(gdt.node)
    hands_out_trace = len(rets) == 1 and u(rets[0].value) == "self.trace"
    stores = [n for n in walk_local(init.node) if isinstance(n, ast.Assign) and any(u(t_) == "self.trace" for t_ in n.targets)]
    if not (consumer_needs_text and hands_out_trace):
        ctx.ok("R20.4", "trace:consumer", {"joins_trace_as_text": consumer_needs_text, "getDefinitionTrace_returns_self_trace": hands_out_trace}, st.where)
        return
    q.need(len(stores) == 1, "Expr.__init__ no longer assigns self.trace exactly once")
    v = stores[0].value
    while isinstance(v, ast.Subscript) and isinstance(v.slice, ast.Slice):
        v = v.value  # a slice of a list is a list of the same elements
    fn = u(v.func).split(".")[-1] if isinstance(v, ast.Call) else None
    kind = TRACEBACK_RETURNS.get(fn) if isinstance(v, ast.Call) and u(v.func).startswith("traceback.") else None
    ok = kind == "list[str]" or (isinstance(v, (ast.List, ast.ListComp)))
    ctx.check(ok, "R20.4", "Expr.__init__:self.trace", f"self.trace = {u(stores[0].value)} is {kind or 'not a known list of strings'}; TealCompileError.__str__ does \"\".join(trace), which raises TypeError for anything but strings - every compile error that names an expression would die while being printed", init.where, fact={"producer": u(stores[0].value), "kind": kind})
    ctx.require_min("R20.4", 1)


def run(ctx):
    r20_1_obligations(ctx)
    r20_2_successor_recursion(ctx)
    r20_3_no_structural_block_equality(ctx)
    r20_4_error_text(ctx)
    from rules import c01 as _c01, c10 as _c10, c17 as _c17

    _c01.r01_6_root_rebinding(ctx)  # the two graph rewrites that used to trip validateTree's assertion
    _c01.r01_7_replace_total(ctx)
    _c10.r10_1_assignment(ctx)  # a program within the 256-slot limit is accepted
    _c10.r10_5_frame_locals(ctx)  # every frame index the allocator / the calling convention can produce is accepted by frame_dig / frame_bury
    _c17.r17_1_walk(ctx)  # a program without read-before-write is not rejected by the definite-assignment walk
    _c01.r01_4e_flatten_traces(ctx)  # flattening a well-formed block list raises nothing (shared with C01)
    from rules import c02 as _c02

    _c02.r02_4_recursion_guards(ctx)  # the call-graph searches terminate on every small call graph: no RecursionError in place of the by-reference TealInputError (R02.4p; shared with C02)
    _c01.r01_6e_normalize(ctx)  # nor does normalisation of a well-formed graph
    from rules import c12 as _c12, c03 as _c03

    _c12.r12_1_sites(ctx)  # the constants pass accepts every legal mix of literals, templates and named constants (shared with C12)
    _c03.r03_1_skip_set(ctx)  # a compilation is not rejected because of what an earlier compilation left on a reused options object (shared with C03)
    from rules import c05 as _c05, c18 as _c18
    from rules.lowering_sem import r01_3e_constructs

    _c05.r05_10_constructs_by_construction(ctx)  # well-typed constructs (anytype mixed with a concrete type included) are accepted, ill-typed ones refused with a PyTeal error (shared with C05)
    _c18.r18_5_pragma_ranges(ctx)
    from rules import c04 as _c04e

    _c04e.r04_1_op_table(ctx)  # no op is refused in a mode or version where the AVM has it (shared with C04)  # a valid version range never reaches the semver library as text it rejects with ValueError (shared with C18)
    r01_3e_constructs(ctx)  # every program of the construct family is accepted and lowered (shared with C01)
    return (
        "Exception-escape obligations (asserts and non-PyTeal raises in compile-time code) against a frozen, individually justified table; recursion along block successors; "
        "no structural block comparison on the compile path; the graph-rewrite invariants and acceptance of legal programs by the slot allocator and the definite-assignment walk "
        "(shared rules). Acceptance of every well-typed program is not decided."
    )
