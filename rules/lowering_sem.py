"""R01.3e - control-flow constructs lower to graphs with exactly the executions of a reference semantics.

Programs of a small statement language (Seq / If / While / For / Cond / Break / Continue / Return / Assert over opaque
child expressions) are built from the repository's own classes, through their own constructors and builder methods, and
lowered by their own __teal__ (with the repository's CompileOptions loop bookkeeping).  The reference is a control-flow
graph built here, independently, from the documented meaning of each construct.  Both are enumerated as bounded
executions: sequences of child names and ops with the branch taken at every condition."""
from __future__ import annotations

import itertools
from typing import Any, Dict, List, Optional, Tuple

from sa import q
from sa.lowerworld import World
from sa.minieval import OpVal, Raised, Rec, Sym, Unknown
from sa.model import AnalysisError


# ------------------------------------------------------------------------------------------ reference semantics
class N:
    """reference CFG node: emits `sym` (or nothing), continues at `next`; a condition node has t/f"""

    __slots__ = ("sym", "next", "t", "f", "terminal")

    def __init__(self, sym=None, next=None, t=None, f=None, terminal=False):
        self.sym, self.next, self.t, self.f, self.terminal = sym, next, t, f, terminal


END = N(terminal=True)


def ref_build(p, k: N, brk: Optional[N], cont: Optional[N]) -> N:
    kind = p[0]
    if kind in ("eff", "val"):
        return N(sym=p[1], next=k)
    if kind == "seq":
        for x in reversed(p[1]):
            k = ref_build(x, k, brk, cont)
        return k
    if kind == "if":
        t = ref_build(p[2], k, brk, cont)
        f = ref_build(p[3], k, brk, cont) if p[3] is not None else k
        return ref_build(p[1], N(t=t, f=f), brk, cont)
    if kind == "while":
        head = N()  # placeholder spliced to the condition's entry
        body = ref_build(p[2], head, k, head)
        entry = ref_build(p[1], N(t=body, f=k), brk, cont)
        head.next = entry
        return entry
    if kind == "for":
        head = N()
        step = ref_build(p[3], head, brk, cont)
        body = ref_build(p[4], step, k, step)
        centry = ref_build(p[2], N(t=body, f=k), brk, cont)
        head.next = centry
        return ref_build(p[1], centry, brk, cont)
    if kind == "cond":
        nxt = N(sym="err", terminal=True)
        for c, b in reversed(p[1]):
            nxt = ref_build(c, N(t=ref_build(b, k, brk, cont), f=nxt), brk, cont)
        return nxt
    if kind == "break":
        if brk is None:
            raise AnalysisError("reference: break outside a loop")
        return brk
    if kind == "continue":
        return cont
    if kind == "ret":
        tail = N(sym="return_", terminal=True)
        return ref_build(p[1], tail, brk, cont) if p[1] is not None else tail
    if kind in ("assert", "assertc"):
        return ref_build(p[1], N(sym="assert_", next=k), brk, cont)
    if kind == "commented":
        return ref_build(p[1], k, brk, cont)
    if kind == "pop":
        return ref_build(p[1], N(sym="pop", next=k), brk, cont)
    raise AnalysisError(f"reference: unknown statement {p!r}")


def ref_traces(entry: N, L: int, cap: int = 200000):
    out, stack, steps = set(), [(entry, ())], 0
    while stack:
        n, seq = stack.pop()
        while True:
            steps += 1
            if steps > cap:
                raise AnalysisError("reference trace enumeration exceeded its budget")
            if len(seq) >= L:
                out.add(seq[:L])
                break
            if n is END:
                out.add(seq)
                break
            if n.t is not None or n.f is not None:
                stack.append((n.f, seq + ("F",)))
                n, seq = n.t, seq + ("T",)
                continue
            if n.sym is not None:
                seq = seq + (n.sym,)
            if n.terminal:
                out.add(seq[:L])
                break
            n = n.next
    return out


# ------------------------------------------------------------------------------------------ lowered graph
def low_traces(start: Sym, L: int, cap: int = 200000, keep_comments: bool = False):
    out, stack, steps = set(), [(start, ())], 0
    while stack:
        b, seq = stack.pop()
        while True:
            steps += 1
            if steps > cap:
                raise AnalysisError("lowered graph enumeration exceeded its budget (a cycle that emits nothing?)")
            done = False
            for o in b.attrs["ops"]:
                sym = o.args[0] if isinstance(o, OpVal) and o.op in ("$push", "$effect") else (o.op if isinstance(o, OpVal) else repr(o))
                if sym == "comment":
                    if not keep_comments:
                        continue  # not executed
                    sym = "comment " + " ".join(map(str, o.args))
                seq = seq + (sym,)
                if sym in ("return_", "retsub", "err"):
                    done = True
                    break
            if done or len(seq) >= L:
                out.add(seq[:L])
                break
            if "trueBlock" in b.attrs:
                t, f = b.attrs["trueBlock"], b.attrs["falseBlock"]
                if t is None or f is None:
                    out.add(seq + ("<conditional block with a missing successor>",))
                    break
                stack.append((f, seq + ("F",)))
                b, seq = t, seq + ("T",)
                continue
            nb = b.attrs.get("nextBlock")
            if nb is None:
                out.add(seq)
                break
            b = nb
    return out


# ------------------------------------------------------------------------------------------ building the real objects
class Builder:
    def __init__(self, ctx, style: str):
        self.ctx = ctx
        self.W = World(ctx.model, real_exprs=True)
        self.style = style
        co = ctx.model.find_class("CompileOptions", "pyteal.compiler.compiler")
        opts = self.W.options(8, breakBlocksStack=[], continueBlocksStack=[], currentSubroutine=None)
        for nm, fi in co.methods.items():
            if nm != "__init__":
                opts.methods[nm] = (lambda fi: lambda *a, **k: self.W.me.call_def(fi.node, [opts] + list(a), dict(k), {}))(fi)
        self.options = opts

    def mk(self, p):
        W = self.W
        kind = p[0]
        if kind == "eff":
            return W.child(p[1], "none")
        if kind == "val":
            return W.child(p[1], "uint64")
        if kind == "seq":
            items = [self.mk(x) for x in p[1]]
            return W.construct("Seq", [items]) if self.style == "list" else W.construct("Seq", items)
        if kind == "if":
            c, t, e = self.mk(p[1]), self.mk(p[2]), (self.mk(p[3]) if p[3] is not None else None)
            if self.style == "list":
                return W.construct("If", [c, t] + ([e] if e is not None else []))
            o = W.construct("If", [c])
            o = o.methods["Then"](t)
            if e is not None:
                o = o.methods["Else"](e)
            return o
        if kind == "while":
            return W.construct("While", [self.mk(p[1])]).methods["Do"](self.mk(p[2]))
        if kind == "for":
            return W.construct("For", [self.mk(p[1]), self.mk(p[2]), self.mk(p[3])]).methods["Do"](self.mk(p[4]))
        if kind == "cond":
            return W.construct("Cond", [[self.mk(c), self.mk(b)] for c, b in p[1]])
        if kind == "break":
            return W.construct("Break", [])
        if kind == "continue":
            return W.construct("Continue", [])
        if kind == "ret":
            return W.construct("Return", [self.mk(p[1])] if p[1] is not None else [])
        if kind == "assert":
            return W.construct("Assert", [self.mk(p[1])])
        if kind == "assertc":
            return W.construct("Assert", [self.mk(p[1])], {"comment": p[2]})
        if kind == "commented":
            return W.call("Comment", [p[2], self.mk(p[1])])
        if kind == "pop":
            return W.call("Pop", [self.mk(p[1])])
        raise AnalysisError(f"unknown statement {p!r}")

    def lower(self, obj):
        self.W.objs.me = self.W.me
        return obj.methods["__teal__"](self.options)


# ------------------------------------------------------------------------------------------ program family
def E(n):
    return ("eff", f"e{n}")


def V(n):
    return ("val", f"v{n}")


def show(p) -> str:
    k = p[0]
    if k in ("eff", "val"):
        return p[1]
    if k == "seq":
        return "Seq(" + ", ".join(show(x) for x in p[1]) + ")"
    if k == "if":
        return f"If({show(p[1])}, {show(p[2])}" + (f", {show(p[3])})" if p[3] is not None else ")")
    if k == "while":
        return f"While({show(p[1])}).Do({show(p[2])})"
    if k == "for":
        return f"For({show(p[1])}, {show(p[2])}, {show(p[3])}).Do({show(p[4])})"
    if k == "cond":
        return "Cond(" + ", ".join(f"[{show(c)}, {show(b)}]" for c, b in p[1]) + ")"
    if k == "ret":
        return f"Return({show(p[1]) if p[1] is not None else ''})"
    if k in ("assert", "pop"):
        return f"{k.capitalize()}({show(p[1])})"
    if k == "assertc":
        return f"Assert({show(p[1])}, comment={p[2]!r})"
    if k == "commented":
        return f"Comment({p[2]!r}, {show(p[1])})"
    return k.capitalize() + "()"


def programs(tier: str):
    BR, CO = ("break",), ("continue",)
    RET = ("ret", V(9))
    out = []
    # straight-line and branches
    out += [("seq", [E(1), E(2), E(3)]), ("if", V(1), E(1), None), ("if", V(1), E(1), E(2)), ("seq", [E(0), ("if", V(1), ("seq", [E(1), E(2)]), E(3)), E(4)])]
    out += [("if", V(1), E(1), ("if", V(2), E(2), ("if", V(3), E(3), E(4)))), ("if", V(1), ("if", V(2), E(1), E(2)), ("if", V(3), E(3), None))]
    out += [("seq", [("if", V(1), RET, None), E(1)]), ("if", V(1), RET, ("ret", V(8))), ("seq", [("assert", V(1)), E(1), ("pop", V(2))])]
    # while loops
    arms = [BR, CO, E(3), RET, ("seq", [E(3), BR]), ("seq", [E(3), CO])]
    for a in arms:
        out.append(("seq", [E(0), ("while", V(1), ("seq", [E(1), ("if", V(2), a, None), E(2)])), E(9)]))
    for a, b in itertools.product([BR, CO, E(3)], repeat=2):
        out.append(("while", V(1), ("if", V(2), a, b)))
    out += [("while", V(1), E(1)), ("while", V(1), BR), ("while", V(1), CO), ("seq", [("while", V(1), ("seq", [E(1), BR])), E(2)]), ("while", V(1), ("seq", [("if", V(2), BR, None), ("if", V(3), CO, None), E(1)]))]
    # for loops
    for a in arms:
        out.append(("seq", [("for", E(0), V(1), E(8), ("seq", [E(1), ("if", V(2), a, None), E(2)])), E(9)]))
    for a, b in itertools.product([BR, CO, E(3)], repeat=2):
        out.append(("for", E(0), V(1), E(8), ("if", V(2), a, b)))
    out += [("for", E(0), V(1), E(8), CO), ("for", E(0), V(1), E(8), BR), ("for", E(0), V(1), E(8), ("if", V(2), ("if", V(3), CO, None), None))]
    out.append(("for", E(0), V(1), E(8), ("seq", [("if", V(2), ("if", V(3), CO, None), None), E(1)])))
    # nested loops
    for a, b in itertools.product([BR, CO], repeat=2):
        out.append(("while", V(1), ("seq", [("while", V(2), ("if", V(3), a, None)), ("if", V(4), b, None), E(1)])))
        out.append(("for", E(0), V(1), E(8), ("seq", [("while", V(2), ("seq", [E(2), ("if", V(3), a, None)])), ("if", V(4), b, None), E(1)])))
        out.append(("while", V(1), ("seq", [("for", E(0), V(2), E(8), ("if", V(3), a, E(5))), ("if", V(4), b, None)])))
    # annotations
    out += [("seq", [("assertc", V(1), "must hold"), E(1)]), ("seq", [("assertc", V(1), "two\nlines"), ("assertc", V(2), "again")]), ("seq", [("commented", E(1), "note"), E(2)]), ("while", V(1), ("seq", [("assertc", V(2), "in loop"), E(1)]))]
    # Cond
    out += [("cond", [(V(1), E(1))]), ("cond", [(V(1), E(1)), (V(2), E(2))]), ("cond", [(V(1), E(1)), (V(2), E(2)), (V(3), E(3))]), ("seq", [("cond", [(V(1), E(1)), (V(2), RET)]), E(9)])]
    out += [("while", V(1), ("cond", [(V(2), BR), (V(3), CO), (V(4), E(1))])), ("cond", [(V(1), ("if", V(5), E(1), E(2))), (V(2), ("while", V(6), E(3)))])]
    if tier != "quick":
        for a, b, c in itertools.product([BR, CO, E(3), RET], repeat=3):
            out.append(("while", V(1), ("seq", [("if", V(2), a, b), ("if", V(3), c, None), E(1)])))
            out.append(("for", E(0), V(1), E(8), ("seq", [("if", V(2), a, b), ("if", V(3), c, None), E(1)])))
    seen, uniq = set(), []
    for p in out:
        if repr(p) not in seen:
            seen.add(repr(p))
            uniq.append(p)
    return uniq


def r01_3e_constructs(ctx):
    ctx.rule("R01.3e", "control-flow constructs lower to graphs with exactly the executions of the reference semantics: Seq in order; If: condition, then the arm selected; While: condition before every iteration, Break leaves the innermost loop, Continue re-evaluates its condition; For: start once, condition, body, step, Continue runs the step; Cond: conditions in order, first true arm, err when none; Return ends the routine - programs are built through the repository's own constructors and builder methods and lowered by its own __teal__")
    L = 26
    n = 0
    for style in ("list", "builder"):
        for p in programs(ctx.tier):
            construct = f"lower[{show(p)}; {style}]"
            entry = ref_build(p, END, None, None)
            want = ref_traces(entry, L)
            B = Builder(ctx, style)
            try:
                obj = B.mk(p)
                val = B.lower(obj)
            except Raised as r:
                ctx.bad("R01.3e", construct, f"a well-formed program is refused or dies: {r.exc_text[:80]}", "pyteal/ast")
                continue
            q.need(isinstance(val, tuple) and len(val) == 2 and isinstance(val[0], Sym), f"{construct}: __teal__ does not return a (start, end) pair")
            got = low_traces(val[0], L)
            # a construct that completes normally ends at its `end` block: completed executions stop there
            n += 1
            ok = got == want
            where = ctx.model.find_class({"if": "If", "while": "While", "for": "For", "cond": "Cond", "seq": "Seq", "ret": "Return", "assert": "Assert"}.get(p[0], "Seq")).where
            ctx.check(ok, "R01.3e", construct, f"executions differ: only in the reference {sorted(want - got)[:2]}, only in the lowered graph {sorted(got - want)[:2]}", where, fact={"executions": len(want)})
    ctx.analysed(*[ctx.model.find_class(c).fq + ".__teal__" for c in ("If", "While", "For", "Cond", "Seq", "Break", "Continue", "Return", "Assert")])
    ctx.require_min("R01.3e", 100)


# ------------------------------------------------------------------------------------------ the passes composed
def flat_low_traces(code: list, L: int, cap: int = 200000):
    """bounded executions of a flattened component list whose ops are constructed ops (OpVal) and LABEL markers"""
    labels = {}
    for i, c in enumerate(code):
        if isinstance(c, Sym) and c.name == "LABEL":
            if id(c.attrs["ref"]) in labels:
                return {("<label defined twice>",)}
            labels[id(c.attrs["ref"])] = i
    out, stack, steps = set(), [(0, ())], 0
    while stack:
        pc, seq = stack.pop()
        while True:
            steps += 1
            if steps > cap:
                raise AnalysisError("flat code enumeration exceeded its budget")
            if len(seq) >= L:
                out.add(seq[:L])
                break
            if pc >= len(code):
                out.add(seq + ("<runs off the end>",))
                break
            c = code[pc]
            if isinstance(c, Sym) and c.name == "LABEL":
                pc += 1
                continue
            if not isinstance(c, OpVal):
                raise AnalysisError(f"unexpected component {c!r} in flattened code")
            if c.op in ("b", "bz", "bnz"):
                tgt = labels.get(id(c.args[0])) if c.args else None
                if tgt is None:
                    out.add(seq + (f"<{c.op} to an undefined label>",))
                    break
                if c.op == "b":
                    pc = tgt
                elif c.op == "bnz":
                    stack.append((pc + 1, seq + ("F",)))
                    pc, seq = tgt, seq + ("T",)
                else:
                    stack.append((tgt, seq + ("F",)))
                    pc, seq = pc + 1, seq + ("T",)
                continue
            sym = c.args[0] if c.op in ("$push", "$effect") else c.op
            if sym == "comment":
                pc += 1
                continue
            seq = seq + (sym,)
            if sym in ("return_", "retsub", "err"):
                out.add(seq[:L])
                break
            pc += 1
    return out


def r01_15_pipeline(ctx):
    import collections
    from sa.minieval import run_function

    ctx.rule("R01.15", "the passes composed: a main program built from the repository's constructs, taken through compileSubroutine (lowering, parent pointers, normalisation), sortBlocks and flattenBlocks - all interpreted, on the repository's own block classes - yields a component list whose executions, read by the reference machine for labels and b/bz/bnz, are exactly the executions of the reference semantics of the program; nothing runs off the end")
    comp = ctx.model.find_func("compileSubroutine", "pyteal.compiler.compiler")
    sortf = ctx.model.find_func("sortBlocks", "pyteal.compiler.sort")
    flat = ctx.model.find_func("flattenBlocks", "pyteal.compiler.flatten")
    ctx.analysed(comp.fq, sortf.fq, flat.fq)
    L = 26
    progs = programs(ctx.tier)
    if ctx.tier == "quick":
        progs = progs[::2]
    for p in progs:
        full = ("seq", [p, ("ret", V(99))])
        want = ref_traces(ref_build(full, END, None, None), L)
        B = Builder(ctx, "list")
        W = B.W
        W.real_blocks = True
        construct = f"pipeline[{show(p)}]"

        def extra(e, me):
            t = q.u(e) if hasattr(q, "u") else None
            from sa.astutil import u as _u

            t = _u(e)
            if t == "compileSubroutine":
                return lambda *a: me.call_def(comp.node, list(a), {}, {})
            if t == "defaultdict":
                return collections.defaultdict
            if t == "LabelReference":
                return lambda nm: Sym(f"label:{nm}")
            if t == "TealLabel":
                return lambda expr, ref, *a, **k: Sym("LABEL", attrs={"ref": ref})
            raise Unknown()

        def setup(me):
            W.me = me
            W.objs.me = me
            me.isinstance_hook = lambda v, cname: ((cname.split(".")[-1] in v.attrs["$isa"]) if isinstance(v, Sym) and "$isa" in v.attrs else None)

        try:
            obj = B.mk(full)
            starts, ends, graph = {}, {}, {}
            run_function(comp.node, {"ast": obj, "options": B.options, "subroutineGraph": graph, "subroutine_start_blocks": starts, "subroutine_end_blocks": ends}, W.oracle(extra), comp.fq, permissive=True, setup=setup, resolver=W.objs.resolver)
            order, _ = run_function(sortf.node, {"start": starts[None], "end": ends[None]}, W.oracle(extra), sortf.fq, permissive=True, setup=setup, resolver=W.objs.resolver)
            code, _ = run_function(flat.node, {"blocks": order}, W.oracle(extra), flat.fq, permissive=True, setup=setup, resolver=W.objs.resolver)
        except Raised as r:
            ctx.bad("R01.15", construct, f"a well-formed program dies in the pipeline: {r.exc_text[:80]}", comp.where)
            continue
        got = flat_low_traces(list(code), L)
        ctx.check(got == want, "R01.15", construct, f"executions differ: only in the reference {sorted(want - got)[:2]}, only in the compiled code {sorted(got - want)[:2]}", comp.where, fact={"executions": len(want), "components": len(code)})
    ctx.require_min("R01.15", 30)


# ------------------------------------------------------------------------------------------ whole programs with subroutines
def ref_build_routine(p, k, brk, cont, labels):
    """ref_build extended with ("call", name) and ("retsub",)"""
    kind = p[0]
    if kind == "call":
        n = N(sym="callsub " + labels[p[1]], next=k)
        n.terminal = False
        n.t = n.f = None
        setattr_call(n, p[1])
        return n
    if kind == "retsub":
        n = N(sym="retsub", terminal=True)
        return n
    if kind == "seq":
        for x in reversed(p[1]):
            k = ref_build_routine(x, k, brk, cont, labels)
        return k
    if kind == "if":
        t = ref_build_routine(p[2], k, brk, cont, labels)
        f = ref_build_routine(p[3], k, brk, cont, labels) if p[3] is not None else k
        return ref_build(p[1], N(t=t, f=f), brk, cont)
    if kind == "while":
        head = N()
        body = ref_build_routine(p[2], head, k, head, labels)
        entry = ref_build(p[1], N(t=body, f=k), brk, cont)
        head.next = entry
        return entry
    return ref_build(p, k, brk, cont)


CALLS: Dict[int, str] = {}


def setattr_call(n: N, name: str):
    CALLS[id(n)] = name


def ref_program_traces(routines, labels, L, cap=300000):
    entries = {}
    for name, body in routines.items():
        tail = N(sym="retsub", terminal=True) if name is not None else END
        entries[name] = ref_build_routine(body, tail, None, None, labels)
    out, stack, steps = set(), [(entries[None], (), ())], 0
    while stack:
        n, seq, cs = stack.pop()
        while True:
            steps += 1
            if steps > cap:
                raise AnalysisError("reference program enumeration exceeded its budget")
            if len(seq) >= L:
                out.add(seq[:L])
                break
            if n is END:
                out.add(seq + ("<main runs off its end>",))
                break
            if n.t is not None or n.f is not None:
                stack.append((n.f, seq + ("F",), cs))
                n, seq = n.t, seq + ("T",)
                continue
            if n.sym is not None:
                seq = seq + (n.sym,)
            if id(n) in CALLS:
                cs = cs + (n.next,)
                n = entries[CALLS[id(n)]]
                continue
            if n.sym == "retsub":
                if not cs:
                    out.add(seq + ("<retsub with an empty call stack>",))
                    break
                n, cs = cs[-1], cs[:-1]
                continue
            if n.terminal:
                out.add(seq[:L])
                break
            n = n.next
    return out


def flat_program_traces(code, L, cap=300000):
    def ref_text(ref):
        # the spelling the assembler sees: LabelReference.getLabel() (interpreted), a plain string for callsub targets
        if isinstance(ref, Sym) and "getLabel" in ref.methods:
            return ref.methods["getLabel"]()
        return ref.attrs.get("label") if isinstance(ref, Sym) else ref

    def label_text(c):
        return ref_text(c.attrs.get("label"))

    labels = {}
    for i, c in enumerate(code):
        if isinstance(c, Sym) and "TealLabel" in c.attrs.get("$isa", ()):
            t = label_text(c)
            if t in labels:
                return {(f"<label {t} defined twice>",)}
            labels[t] = i
    out, stack, steps = set(), [(0, (), ())], 0
    while stack:
        pc, seq, cs = stack.pop()
        while True:
            steps += 1
            if steps > cap:
                raise AnalysisError("compiled program enumeration exceeded its budget")
            if len(seq) >= L:
                out.add(seq[:L])
                break
            if pc >= len(code):
                out.add(seq + ("<runs off the end>",))
                break
            c = code[pc]
            if isinstance(c, Sym) and "TealLabel" in c.attrs.get("$isa", ()):
                # a routine label reached by falling through from the previous routine is an execution of its own kind
                if pc > 0 and c.attrs.get("comment") is not None:
                    out.add(seq + (f"<falls through into routine {label_text(c)}>",))
                    break
                pc += 1
                continue
            if not isinstance(c, OpVal):
                raise AnalysisError(f"unexpected component {c!r}")
            if c.op in ("b", "bz", "bnz", "callsub"):
                a = c.args[0] if c.args else None
                text = ref_text(a)
                tgt = labels.get(text) if isinstance(text, str) else None
                if tgt is None:
                    out.add(seq + (f"<{c.op} to an undefined label {text!r}>",))
                    break
                if c.op == "b":
                    pc = tgt
                elif c.op == "bnz":
                    stack.append((pc + 1, seq + ("F",), cs))
                    pc, seq = tgt, seq + ("T",)
                elif c.op == "bz":
                    stack.append((tgt, seq + ("F",), cs))
                    pc, seq = pc + 1, seq + ("T",)
                else:
                    seq = seq + (f"callsub {text}",)
                    cs = cs + (pc + 1,)
                    pc = tgt + 1
                continue
            sym = c.args[0] if c.op in ("$push", "$effect") else c.op
            seq = seq + (sym,)
            if sym == "retsub":
                if not cs:
                    out.add(seq + ("<retsub with an empty call stack>",))
                    break
                pc, cs = cs[-1], cs[:-1]
                continue
            if sym in ("return_", "err"):
                out.add(seq[:L])
                break
            pc += 1
    return out


def multi_programs():
    C = lambda n: ("call", n)
    RS = ("retsub",)
    fin = ("ret", V(99))
    return {
        "main calls s1, s1 calls s2 under a condition": ({None: ("seq", [E(0), C("s1"), fin]), "s1": ("seq", [E(1), ("if", V(1), C("s2"), None), E(2)]), "s2": E(3)}, {"s1": 1, "s2": 2}),
        "direct recursion": ({None: ("seq", [C("s1"), fin]), "s1": ("seq", [E(1), ("if", V(1), C("s1"), None), E(2)])}, {"s1": 7}),
        "mutual recursion through a loop": ({None: ("seq", [E(0), C("s1"), E(9), fin]), "s1": ("while", V(1), ("seq", [E(1), C("s2")])), "s2": ("if", V(2), C("s1"), E(3))}, {"s1": 1, "s2": 2}),
        "ids in the opposite order of first use": ({None: ("seq", [C("s1"), C("s2"), fin]), "s1": E(1), "s2": E(2)}, {"s1": 9, "s2": 3}),
        "early return inside a loop": ({None: ("seq", [C("s1"), E(9), fin]), "s1": ("seq", [("while", V(1), ("seq", [E(1), ("if", V(2), RS, None)])), E(2)])}, {"s1": 1}),
        "names that sanitise to the same text": ({None: ("seq", [C("my sub!"), C("mysub"), fin]), "my sub!": E(1), "mysub": ("seq", [E(2), C("my sub!")])}, {"my sub!": 1, "mysub": 2}),
        "main branches around a call": ({None: ("seq", [("if", V(1), C("s1"), E(5)), ("while", V(2), C("s2")), fin]), "s1": ("if", V(3), E(1), E(2)), "s2": ("seq", [E(3), ("if", V(4), RS, None), E(4)])}, {"s1": 4, "s2": 5}),
        "names starting with a digit, holding braces, per cent signs and non-ASCII letters": ({None: ("seq", [C("2nd_pass"), C("swap{a,b}"), C("100%d"), C("überweisung"), fin]), "2nd_pass": E(1), "swap{a,b}": ("seq", [E(2), C("2nd_pass")]), "100%d": E(3), "überweisung": E(4)}, {"2nd_pass": 1, "swap{a,b}": 2, "100%d": 3, "überweisung": 4}),
        "subroutine only reachable through another": ({None: ("seq", [C("s1"), fin]), "s1": ("seq", [C("s2"), C("s2")]), "s2": ("seq", [C("s3")]), "s3": E(1)}, {"s1": 3, "s2": 2, "s3": 1}),
    }


def r04_9_whole_program(ctx):
    import collections
    import re as _re
    from sa.astutil import u as _u
    from sa.minieval import run_function

    ctx.rule("R04.9", "whole programs with subroutines: main and every routine are taken through compileSubroutine, sort_subroutine_blocks (sortBlocks + flattenBlocks), the recursion spill pass, resolveSubroutines and flattenSubroutines - all interpreted - and the combined component list, read by a reference machine with a call stack, has exactly the executions of the reference semantics: every callsub reaches the routine it names (labels: sanitised name + position in id order), branch labels are unique across routines, main does not fall through into a routine, no routine falls through into the next")
    fns = {n: ctx.model.find_func(n, m) for n, m in (("compileSubroutine", "pyteal.compiler.compiler"), ("sort_subroutine_blocks", "pyteal.compiler.compiler"), ("sortBlocks", "pyteal.compiler.sort"), ("flattenBlocks", "pyteal.compiler.flatten"), ("flattenSubroutines", "pyteal.compiler.flatten"), ("resolveSubroutines", "pyteal.compiler.subroutines"), ("spillLocalSlotsDuringRecursion", "pyteal.compiler.subroutines"), ("findRecursionPoints", "pyteal.compiler.subroutines"), ("graph_search", "pyteal.compiler.subroutines"), ("find_recursive_path", "pyteal.compiler.subroutines"))}
    ctx.analysed(*[f.fq for f in fns.values()])
    L = 30
    for pname, (routines, ids) in multi_programs().items():
        order = sorted(ids, key=lambda n: ids[n])
        labels = {n: _re.sub(r"[^A-Za-z0-9]", "", n) + f"_{i}" for i, n in enumerate(order)}
        CALLS.clear()
        want = ref_program_traces(routines, labels, L)
        B = Builder(ctx, "list")
        W = B.W
        W.real_blocks = True
        W.objs.real_classes |= {"LabelReference", "TealLabel"}
        subs = {}
        for n in ids:
            subs[n] = Sym(f"sub:{n}", attrs={"id": ids[n], "by_ref_args": set(), "return_type": W.TT.attrs["none"], "has_abi_output": False, "$isa": {"SubroutineDefinition"}}, methods={"name": (lambda n=n: n), "argument_count": lambda: 0})

        def mk(p):
            if p[0] == "call":
                s_ = subs[p[1]]
                c = Sym(f"expr:call {p[1]}", attrs={"$isa": {"Expr"}, "trace": None})

                def teal(options, s_=s_):
                    b = W.objs.construct("TealSimpleBlock", [[OpVal("callsub", [s_])]], {})
                    return (b, b)

                c.methods.update({"__teal__": teal, "type_of": lambda: W.TT.attrs["none"], "has_return": lambda: False})
                return c
            if p[0] == "retsub":
                return W.construct("Return", [])
            if p[0] == "seq":
                return W.construct("Seq", [[mk(x) for x in p[1]]])
            if p[0] == "if":
                return W.construct("If", [B.mk(p[1]), mk(p[2])] + ([mk(p[3])] if p[3] is not None else []))
            if p[0] == "while":
                return W.construct("While", [B.mk(p[1])]).methods["Do"](mk(p[2]))
            return B.mk(p)

        construct = f"program[{pname}]"

        def extra(e, me):
            t = _u(e)
            if t in fns and not isinstance(e, ast_Call):
                return lambda *a, **k: me.call_def(fns[t].node, list(a), dict(k), {})
            if t == "defaultdict":
                return collections.defaultdict
            if t == "OrderedDict":
                return dict
            if t == "re":
                return _re
            raise Unknown()

        def setup(me):
            W.me = me
            W.objs.me = me
            me.isinstance_hook = lambda v, cname: ((cname.split(".")[-1] in v.attrs["$isa"]) if isinstance(v, Sym) and "$isa" in v.attrs else (False if isinstance(v, OpVal) and cname.split(".")[-1] == "TealLabel" else None))

        def call(fname, args):
            return run_function(fns[fname].node, args, W.oracle(extra), fns[fname].fq, permissive=True, setup=setup, resolver=W.objs.resolver)[0]

        try:
            for n, body in routines.items():
                if n is None:
                    continue
                obj = mk(body)
                decl = Sym(f"decl:{n}", attrs={"$isa": {"Expr", "SubroutineDeclaration"}, "subroutine": subs[n], "deferred_expr": None, "trace": None}, methods={"__teal__": obj.methods["__teal__"], "has_return": obj.methods["has_return"], "type_of": obj.methods["type_of"]})
                subs[n].methods["get_declaration_by_option"] = (lambda decl: lambda fp: decl)(decl)
            main = mk(routines[None])
            starts, ends, graph = {}, {}, {}
            call("compileSubroutine", {"ast": main, "options": B.options, "subroutineGraph": graph, "subroutine_start_blocks": starts, "subroutine_end_blocks": ends})
            mapping = call("sort_subroutine_blocks", {"subroutine_start_blocks": starts, "subroutine_end_blocks": ends})
            call("spillLocalSlotsDuringRecursion", {"version": 8, "subroutineMapping": mapping, "subroutineGraph": graph, "localSlots": {k: set() for k in mapping}})
            lab = call("resolveSubroutines", {"subroutineMapping": mapping})
            code = call("flattenSubroutines", {"subroutineMapping": mapping, "subroutineToLabel": lab, "options": B.options})
        except Raised as r:
            ctx.bad("R04.9", construct, f"a well-formed program dies in the pipeline: {r.exc_text[:90]}", fns["flattenSubroutines"].where)
            continue
        got = flat_program_traces(list(code), L)
        ctx.check(got == want, "R04.9", construct, f"executions differ: only in the reference {sorted(want - got)[:2]}, only in the compiled program {sorted(got - want)[:2]}", fns["flattenSubroutines"].where, fact={"executions": len(want), "components": len(code), "routines": len(routines)})
    ctx.require_min("R04.9", 8)


import ast as _ast  # noqa: E402

ast_Call = _ast.Call


def r15_7_relowering(ctx):
    ctx.rule("R15.7", "lowering an expression does not change it: the same construct object lowered a second time (what a source-map build does for its identity check, and what any second compilation of a reused tree does) yields the same code - op for op, comment ops included - for every program of the construct family, Assert with a comment among them")
    L = 22
    n = 0
    for p in programs(ctx.tier):
        B = Builder(ctx, "list")
        construct = f"relower[{show(p)}]"
        try:
            obj = B.mk(p)
            first = low_traces(B.lower(obj)[0], L, keep_comments=True)
            B.options.attrs["breakBlocksStack"], B.options.attrs["continueBlocksStack"] = [], []
            second = low_traces(B.lower(obj)[0], L, keep_comments=True)
        except Raised as r:
            ctx.bad("R15.7", construct, f"the second lowering of the same object dies: {r.exc_text[:80]}", "pyteal/ast")
            continue
        n += 1
        ctx.check(first == second, "R15.7", construct, f"the second lowering differs: only first {sorted(first - second)[:1]}, only second {sorted(second - first)[:1]}", "pyteal/ast", fact={"executions": len(first)})
    ctx.require_min("R15.7", 50)
