"""Block graphs built from the repository's own block classes (interpreted), for evaluating the graph passes
(addIncoming / validateTree / NormalizeBlocks / compileSubroutine's splice) on abstract graphs."""
from __future__ import annotations

import ast
from typing import Dict, List, Tuple

from sa.astutil import u
from sa.minieval import Raised, Rec, Sym, Unknown
from sa.model import AnalysisError
from rules.abicommon import AbiWorld
from rules.c03 import mkop, op_sym


class GraphWorld(AbiWorld):
    def __init__(self, ctx):
        super().__init__(ctx)
        self.real_classes = {"TealBlock", "TealSimpleBlock", "TealConditionalBlock"}
        self.OpS = op_sym(ctx.model)

    def oracle(self, extra=None):
        base = super().oracle(extra)

        def o(e, me):
            if u(e) == "Op":
                return self.OpS
            return base(e, me)

        return o

    def op(self, text: str) -> Sym:
        parts = text.split()
        return mkop(self.OpS, parts[0], *parts[1:])

    def build(self, spec: Dict[str, Tuple[List[str], List[str]]]):
        """spec: name -> (op texts, successors); one successor = simple block, two = conditional (true, false)"""
        blocks = {}
        for name, (ops, succ) in spec.items():
            cls = "TealConditionalBlock" if len(succ) == 2 else "TealSimpleBlock"
            b = self.construct(cls, [[self.op(t) for t in ops]], {})
            b.name = name
            blocks[name] = b
        for name, (_ops, succ) in spec.items():
            b = blocks[name]
            if len(succ) == 2:
                b.methods["setTrueBlock"](blocks[succ[0]])
                b.methods["setFalseBlock"](blocks[succ[1]])
            elif len(succ) == 1:
                b.methods["setNextBlock"](blocks[succ[0]])
        return blocks


def traces(start: Sym, max_visits: int = 2, limit: int = 4000):
    """set of op-text sequences (with T/F branch marks) along all paths from start, each block entered at most
    max_visits times per path; paths end at blocks without successors or holding a terminator op"""
    out = set()
    stack = [(start, (), {})]
    n = 0
    while stack:
        b, seq, seen = stack.pop()
        n += 1
        if n > limit:
            raise AnalysisError("trace enumeration limit exceeded")
        k = id(b)
        if seen.get(k, 0) >= max_visits:
            out.add(seq + ("...",))
            continue
        seen = dict(seen)
        seen[k] = seen.get(k, 0) + 1
        ops = tuple(o.name for o in b.attrs["ops"])
        seq = seq + ops
        if any(o.split()[0] in ("return_", "retsub", "err") for o in ops):
            out.add(seq)
            continue
        if "trueBlock" in b.attrs:
            t, f = b.attrs.get("trueBlock"), b.attrs.get("falseBlock")
            if t is None and f is None:
                out.add(seq)
                continue
            if t is not None:
                stack.append((t, seq + ("T",), seen))
            if f is not None:
                stack.append((f, seq + ("F",), seen))
        else:
            nb = b.attrs.get("nextBlock")
            if nb is None:
                out.add(seq)
            else:
                stack.append((nb, seq, seen))
    return out


def reachable(start: Sym) -> List[Sym]:
    seen, order, st = [], [], [start]
    while st:
        b = st.pop()
        if any(b is x for x in seen):
            continue
        seen.append(b)
        order.append(b)
        for a in ("nextBlock", "trueBlock", "falseBlock"):
            if b.attrs.get(a) is not None:
                st.append(b.attrs[a])
    return order
