"""Block graphs built from the repository's own block classes (interpreted), for evaluating the graph passes
(addIncoming / validateTree / NormalizeBlocks / compileSubroutine's splice) on abstract graphs."""
from __future__ import annotations

import ast
from typing import Dict, List, Tuple

from sa.astutil import u
from sa.minieval import Raised, Rec, Sym, Unknown
from sa.model import AnalysisError
from rules.abicommon import AbiWorld
from rules.c03 import mkop, op_sym


class GraphWorld(AbiWorld):
    def __init__(self, ctx):
        super().__init__(ctx)
        self.real_classes = {"TealBlock", "TealSimpleBlock", "TealConditionalBlock"}
        self.OpS = op_sym(ctx.model)

    def oracle(self, extra=None):
        base = super().oracle(extra)

        def o(e, me):
            if u(e) == "Op":
                return self.OpS
            return base(e, me)

        return o

    def op(self, text: str) -> Sym:
        parts = text.split()
        return mkop(self.OpS, parts[0], *parts[1:])

    def build(self, spec: Dict[str, Tuple[List[str], List[str]]]):
        """spec: name -> (op texts, successors); one successor = simple block, two = conditional (true, false)"""
        blocks = {}
        for name, (ops, succ) in spec.items():
            cls = "TealConditionalBlock" if len(succ) == 2 else "TealSimpleBlock"
            b = self.construct(cls, [[self.op(t) for t in ops]], {})
            b.name = name
            blocks[name] = b
        for name, (_ops, succ) in spec.items():
            b = blocks[name]
            if len(succ) == 2:
                b.methods["setTrueBlock"](blocks[succ[0]])
                b.methods["setFalseBlock"](blocks[succ[1]])
            elif len(succ) == 1:
                b.methods["setNextBlock"](blocks[succ[0]])
        return blocks


def traces(start: Sym, max_visits: int = 2, limit: int = 4000):
    """set of op-text sequences (with T/F branch marks) along all paths from start, each block entered at most
    max_visits times per path; paths end at blocks without successors or holding a terminator op"""
    out = set()
    stack = [(start, (), {})]
    n = 0
    while stack:
        b, seq, seen = stack.pop()
        n += 1
        if n > limit:
            raise AnalysisError("trace enumeration limit exceeded")
        k = id(b)
        if seen.get(k, 0) >= max_visits:
            out.add(seq + ("...",))
            continue
        seen = dict(seen)
        seen[k] = seen.get(k, 0) + 1
        ops = tuple(o.name for o in b.attrs["ops"])
        seq = seq + ops
        if any(o.split()[0] in ("return_", "retsub", "err") for o in ops):
            out.add(seq)
            continue
        if "trueBlock" in b.attrs:
            t, f = b.attrs.get("trueBlock"), b.attrs.get("falseBlock")
            if t is None and f is None:
                out.add(seq)
                continue
            if t is not None:
                stack.append((t, seq + ("T",), seen))
            if f is not None:
                stack.append((f, seq + ("F",), seen))
        else:
            nb = b.attrs.get("nextBlock")
            if nb is None:
                out.add(seq)
            else:
                stack.append((nb, seq, seen))
    return out


def reachable(start: Sym) -> List[Sym]:
    seen, order, st = [], [], [start]
    while st:
        b = st.pop()
        if any(b is x for x in seen):
            continue
        seen.append(b)
        order.append(b)
        for a in ("nextBlock", "trueBlock", "falseBlock"):
            if b.attrs.get(a) is not None:
                st.append(b.attrs[a])
    return order


def bounded_traces(start: Sym, L: int = 14, cap: int = 20000):
    """all executions from `start`, as op-text sequences with T/F marks, cut after L symbols"""
    out, stack, steps = set(), [(start, ())], 0
    while stack:
        b, seq = stack.pop()
        steps += 1
        if steps > cap:
            raise AnalysisError("bounded trace enumeration exceeded its step budget (a cycle that emits nothing?)")
        ops = tuple(o.name for o in b.attrs["ops"])
        done = False
        for o in ops:
            seq = seq + (o,)
            if o.split()[0] in ("return_", "retsub", "err"):
                done = True
                break
        if done or len(seq) >= L:
            out.add(seq[:L])
            continue
        if "trueBlock" in b.attrs:
            t, f = b.attrs.get("trueBlock"), b.attrs.get("falseBlock")
            if t is None and f is None:
                out.add(seq)
                continue
            stack.append((t, seq + ("T",)))
            stack.append((f, seq + ("F",)))
        else:
            nb = b.attrs.get("nextBlock")
            if nb is None:
                out.add(seq)
            else:
                stack.append((nb, seq))
    return out


def flat_traces(code: list, L: int = 14, cap: int = 20000):
    """the same for a flattened component list: Sym ops, OpVal b/bz/bnz with a label argument, label components"""
    from sa.minieval import OpVal

    labels = {}
    for i, c in enumerate(code):
        if isinstance(c, Sym) and c.name == "LABEL":
            if id(c.attrs["ref"]) in labels:
                raise AnalysisError("flat code defines a label twice")
            labels[id(c.attrs["ref"])] = i
    out, stack, steps = set(), [(0, ())], 0
    while stack:
        pc, seq = stack.pop()
        while True:
            steps += 1
            if steps > cap:
                raise AnalysisError("bounded trace enumeration exceeded its step budget")
            if len(seq) >= L:
                out.add(seq[:L])
                break
            if pc >= len(code):
                out.add(seq + ("<runs off the end>",) if seq and seq[-1].split()[0] not in ("return_", "retsub", "err") else seq)
                break
            c = code[pc]
            if isinstance(c, OpVal):
                tgt = labels.get(id(c.args[0])) if c.args else None
                if tgt is None:
                    out.add(seq + (f"<{c.op} to an undefined label>",))
                    break
                if c.op == "b":
                    pc = tgt
                elif c.op == "bnz":
                    stack.append((tgt, seq + ("T",)))
                    seq = seq + ("F",)
                    pc += 1
                elif c.op == "bz":
                    stack.append((tgt, seq + ("F",)))
                    seq = seq + ("T",)
                    pc += 1
                else:
                    raise AnalysisError(f"unexpected op {c.op} built by flattenBlocks")
                continue
            if isinstance(c, Sym) and c.name == "LABEL":
                pc += 1
                continue
            seq = seq + (c.name,)
            if c.name.split()[0] in ("return_", "retsub", "err"):
                out.add(seq[:L])
                break
            pc += 1
    return out
