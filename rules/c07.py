"""C07 - ABI decoding and element access return the encoded components (structural clauses)."""
from __future__ import annotations

import ast
import itertools

from sa import q
from sa.astutil import u, walk_local
from sa.minieval import MiniEval, Raised, Rec, Sym, Unknown, run_function
from sa.model import AnalysisError
from rules.abicommon import AbiWorld, strip, intval, head16
from spec import arc4


def _output(W, shape):
    sp = W.spec(shape)
    o = Sym("output", attrs={"$isa": {"BaseType"} | ({"Bool"} if shape == ("bool",) else set()), "$type": W.class_sym("BoolTypeSpec") if False else Sym("class:" + ("Bool" if shape == ("bool",) else "Other"), attrs={"classname": "Bool" if shape == ("bool",) else "Other"})})
    o.methods["type_spec"] = lambda: sp
    o.methods["decode"] = lambda enc, **kw: Rec("call", Rec("name", "decode"), [enc], kw)
    o.methods["decode_bit"] = lambda enc, bit: Rec("call", Rec("name", "decode_bit"), [enc, bit], {})
    return o


def r07_1_index_tuple(ctx):
    ctx.rule("R07.1", "_index_tuple addresses member i per ARC-4: a bool at bit 8*(start of its run)+(position in the run); a static member at its byte offset with its static length; a dynamic member from the uint16 at its head position to the uint16 at the next dynamic member's head position (or the end) - over all short member-kind sequences and long bool runs")
    W = AbiWorld(ctx)
    f = ctx.model.find_func("_index_tuple", "pyteal.ast.abi.tuple")
    ctx.analysed(f.fq, "pyteal.ast.abi.bool._consecutive_bool_type_spec_num")
    kinds = {"B": ("bool",), "U": ("uint", 64), "b": ("byte",), "S": ("string",), "A": ("sarr", ("byte",), 3), "T": ("tuple", (("bool",), ("uint", 16)))}
    maxlen = 4 if ctx.tier == "quick" else 5
    seqs = ["".join(p) for L in range(1, maxlen + 1) for p in itertools.product("BUSb" if L > 3 else "BUbSAT", repeat=L)]
    # everything that can stand between a dynamic member and the next one (whose head position ends the member)
    seqs += ["S" + "".join(p) + "S" for L in range(2, 5) for p in itertools.product("BbU", repeat=L)] + ["S" + "B" * 7 + "bBS", "S" + "B" * 8 + "bBS", "SB" + "b" + "B" * 9 + "S"]
    seqs = list(dict.fromkeys(seqs))
    seqs += ["B" * 9, "B" * 17 + "U", "UB" + "B" * 9 + "S", "SBBBBBBBBBS", "BBSSS", "UBBBUBS", "SUSUS", "B" * 8 + "SB"]
    BoolCls = Sym("class:Bool", attrs={"classname": "Bool"})
    for sq in seqs:
        members = [kinds[c] for c in sq]
        specs = [W.spec(m) for m in members]
        pos = arc4.tuple_positions(members)
        all_static = not any(arc4.is_dynamic(m) for m in members)
        total = arc4.tuple_head_len(members) if all_static else None
        problems = []
        for idx, m in enumerate(members):
            out = _output(W, m)
            out.attrs["$type"] = BoolCls if m == ("bool",) else Sym("class:Other", attrs={"classname": "Other"})

            def extra(e, me):
                if u(e) == "Bool":
                    return BoolCls
                raise Unknown()

            enc = Rec("name", "ENCODED")
            try:
                val, _ = W.run(f.node, {"value_types": specs, "encoded": enc, "index": idx, "output": out}, extra, f.fq)
            except Raised as r:
                problems.append(f"member {idx}: raises {r.exc_text[:50]}")
                continue
            p = pos[idx]
            if p[0] == "bit":
                want_bit = 8 * p[1] + p[2]
                ok = isinstance(val, Rec) and val.is_call("decode_bit") and intval(val.args[1]) == want_bit
                if not ok:
                    problems.append(f"member {idx} (bool): {strip(val)[:70]}; ARC-4 puts it at bit {want_bit}")
                continue
            if not (isinstance(val, Rec) and val.is_call("decode")):
                problems.append(f"member {idx}: {strip(val)[:70]}")
                continue
            kw = val.kwargs
            if p[0] == "static":
                off, ln = p[1], p[2]
                start = intval(kw["start_index"]) if "start_index" in kw else 0
                if "length" in kw:
                    end = (start + intval(kw["length"])) if start is not None and intval(kw["length"]) is not None else None
                elif "end_index" in kw:
                    end = intval(kw["end_index"])
                else:
                    end = "END"
                want_end = off + ln
                end_ok = end == want_end or (end == "END" and total is not None and want_end == total)
                if start != off or not end_ok:
                    problems.append(f"member {idx} (static, {ln} byte(s) at {off}): decodes [{start}, {end}) via {strip(val)[:80]}")
            else:
                off, nxt = p[1], p[2]
                s_ = head16(kw.get("start_index"))
                if "end_index" in kw:
                    e_ = head16(kw["end_index"])
                elif "length" in kw:
                    e_ = "length?"
                else:
                    e_ = "END"
                want_e = "END" if nxt is None else pos[nxt][1]
                if s_ != off or e_ != want_e:
                    problems.append(f"member {idx} (dynamic, head at {off}): decodes from uint16@{s_} to {('uint16@' + str(e_)) if e_ != 'END' else 'the end'}; ARC-4 says to {('uint16@' + str(want_e)) if want_e != 'END' else 'the end'}")
        ctx.check(not problems, "R07.1", f"_index_tuple[{sq}]", "; ".join(problems[:3]), f.where, fact={"positions": [str(p) for p in pos][:6]})
    # out-of-range constant index is refused
    specs = [W.spec(("uint", 64))]
    for idx in (-1, 1):
        try:
            W.run(f.node, {"value_types": specs, "encoded": Rec("name", "E"), "index": idx, "output": _output(W, ("uint", 64))}, None, f.fq)
            out = "accepted"
        except Raised:
            out = "refused"
        ctx.check(out == "refused", "R07.1", f"_index_tuple[index {idx} of 1]", f"index {idx} of a 1-tuple is {out}", f.where, fact={})
    ctx.require_min("R07.1", 100)


def r07_2_decoders(ctx):
    ctx.rule("R07.2", "decoder selection: substring_for_decoding maps (start, end, length) to Extract / Substring / Suffix / the whole string and refuses end+length; uint_decode reads getbyte / extract_uint16/32/64 (btoi for a whole 8-byte string) at the start index; Bool.decode reads bit 8*start; length() of a dynamic array reads the uint16 prefix")
    W = AbiWorld(ctx)
    sfd = ctx.model.find_func("substring_for_decoding", "pyteal.ast.abi.util")
    ctx.analysed(sfd.fq)
    S, E, L = Rec("name", "START"), Rec("name", "END"), Rec("name", "LEN")
    table = {
        (True, False, True): "Extract(ENC, START, LEN)", (True, True, False): "Substring(ENC, START, END)", (True, False, False): "Suffix(ENC, START)",
        (False, False, True): "Extract(ENC, Int(0), LEN)", (False, True, False): "Substring(ENC, Int(0), END)", (False, False, False): "ENC",
        (True, True, True): "refused", (False, True, True): "refused",
    }
    for (hs, he, hl), want in table.items():
        try:
            val, _ = W.run(sfd.node, {"encoded": Rec("name", "ENC"), "start_index": S if hs else None, "end_index": E if he else None, "length": L if hl else None}, None, sfd.fq)
            got = strip(val)
        except Raised as r:
            got = "refused" if "TealInputError" in r.exc_text else "raises " + r.exc_text[:30]
        ctx.check(got == want, "R07.2", f"substring_for_decoding[start={hs},end={he},length={hl}]", f"gives {got}; expected {want}", sfd.where, fact={"result": got})
    ud = ctx.model.find_func("uint_decode", "pyteal.ast.abi.uint")
    ctx.analysed(ud.fq)
    var = Sym("var", methods={"store": lambda x: Rec("call", Rec("name", "STORE"), [x], {})})
    ops = {8: "GetByte", 16: "ExtractUint16", 32: "ExtractUint32", 64: "ExtractUint64"}
    for size in (8, 16, 32, 64):
        for hs in (True, False):
            for whole in ((True, False) if not hs else (False,)):
                val, _ = W.run(ud.node, {"size": size, "uint_var": var, "encoded": Rec("name", "ENC"), "start_index": S if hs else None, "end_index": None if whole or hs else E, "length": None}, None, ud.fq)
                got = strip(val)
                st = "START" if hs else "Int(0)"
                want = f"STORE({ops[size]}(ENC, {st}))"
                if size == 64 and not hs and whole:
                    want = "STORE(Btoi(ENC))"
                ctx.check(got == want, "R07.2", f"uint_decode[size={size},start={hs},whole={whole}]", f"gives {got}; expected {want}", ud.where, fact={"result": got})
    bc = ctx.model.find_class("Bool", "pyteal.ast.abi.bool")
    dec, dbit = bc.methods["decode"], bc.methods["decode_bit"]
    sv = Sym("sv", methods={"store": lambda x: Rec("call", Rec("name", "STORE"), [x], {})})
    selfs = Sym("self", attrs={"_stored_value": sv})
    selfs.methods["decode_bit"] = lambda enc, bit: W.me.call_def(dbit.node, [selfs, enc, bit], {}, {})
    for hs in (True, False):
        val, _ = W.run(dec.node, {"self": selfs, "encoded": Rec("name", "ENC"), "start_index": S if hs else None}, None, dec.fq)
        want = f"STORE(GetBit(ENC, $binop:Mult({'START' if hs else 'Int(0)'}, Int(8))))"
        ctx.check(strip(val) == want, "R07.2", f"Bool.decode[start={hs}]", f"gives {strip(val)}; expected {want}", dec.where, fact={})
    da = ctx.model.find_class("DynamicArray", "pyteal.ast.abi.array_dynamic")
    ln = da.methods["length"]
    ctx.analysed(ln.fq)
    txt = "; ".join(u(s) for s in ln.node.body if not (isinstance(s, ast.Expr) and isinstance(s.value, ast.Constant)))
    norm = txt.replace("\n", " ")
    ctx.check("ExtractUint16(self.encode(), Int(0))" in norm or ("= Uint16()" in norm and ".decode(self.encode())" in norm and norm.rstrip().endswith(".get())")), "R07.2", "DynamicArray.length", f"length() must read the uint16 prefix at offset 0; body: {txt[:140]}", ln.where, fact={"body": txt[:140]})
    ctx.require_min("R07.2", 20)


def r07_3_array_element(ctx):
    ctx.rule("R07.3", "array element access: element i of an array with static elements is `stride` bytes at stride*i (+2 behind a length prefix); a bool element is bit i (+16); a dynamic element runs from the uint16 at 2*i (+2) to the next one's (or the end for the last element); an index outside the array must make the program fail")
    W = AbiWorld(ctx)
    ae = ctx.model.find_class("ArrayElement", "pyteal.ast.abi.array_base")
    f = ae.methods["store_into"]
    ctx.analysed(f.fq)
    cases = [(("sarr", ("uint", 64), 4), "static"), (("darr", ("uint", 64)), "static"), (("sarr", ("bool",), 10), "bool"), (("darr", ("bool",)), "bool"), (("sarr", ("string",), 3), "dynamic"), (("darr", ("string",)), "dynamic"), (("darr", ("tuple", (("bool",), ("uint", 16)))), "static"), (("bytes_dyn",), "static"), (("address",), "static")]
    for shape, kind in cases:
        aspec = W.spec(shape)
        elem_shape = arc4.elem(shape)
        out = _output(W, elem_shape)
        arr = Sym("array", methods={"type_spec": lambda aspec=aspec: aspec, "encode": lambda: Rec("name", "ARR"), "length": lambda: Rec("name", "LENGTH")})
        selfs = Sym("self", attrs={"array": arr, "index": Rec("name", "IDX")})
        selfs.methods["produced_type_spec"] = lambda aspec=aspec: aspec.methods["value_type_spec"]()
        construct = f"ArrayElement.store_into[{arc4.sig(shape)}]"
        try:
            val, _ = W.run(f.node, {"self": selfs, "output": out}, None, f.fq)
        except Raised as r:
            ctx.bad("R07.3", construct, f"raises {r.exc_text[:60]}", f.where)
            continue
        txt = strip(val)
        dyn_len = shape[0] in ("darr", "string", "bytes_dyn")
        stride = 2 if kind == "dynamic" else (None if kind == "bool" else arc4.byte_len(elem_shape))
        if kind == "bool":
            want = "decode_bit(ARR, $binop:Add(IDX, Int(16)))" if dyn_len else "decode_bit(ARR, IDX)"
        elif kind == "static":
            bi = f"$binop:Mult(Int({stride}), IDX)"
            if dyn_len:
                bi = f"$binop:Add({bi}, Int(2))"
            want = f"decode(ARR, start_index={bi}, length=Int({stride}))"
        else:
            bi = "$binop:Mult(Int(2), IDX)"
            if dyn_len:
                bi = f"$binop:Add({bi}, Int(2))"
            vs = f"ExtractUint16(ARR, {bi})"
            nx = f"ExtractUint16(ARR, $binop:Add({bi}, Int(2)))"
            if dyn_len:
                vs, nx = f"$binop:Add({vs}, Int(2))", f"$binop:Add({nx}, Int(2))"
            want = f"decode(ARR, start_index={vs}, end_index=If($cmp:Eq($binop:Add(IDX, Int(1)), LENGTH)).Then(Len(ARR)).Else({nx}))"
        ctx.check(txt == want, "R07.3", construct, f"gives {txt[:200]}; ARC-4 addressing is {want[:200]}", f.where, fact={"result": txt[:160]})
        # the same element addressed with a compile-time constant index (an Int instance): whatever shortcut the code takes
        # for constants, element k of the N still ends where element k + 1 starts, and only the last one at the end
        if kind == "dynamic" and not dyn_len:
            import re as _re

            N = shape[2]
            for k in range(N):
                idx = Sym(f"Int({k})", attrs={"$isa": {"Int", "LeafExpr", "Expr"}, "value": k})
                ln = Sym(f"Int({N})", attrs={"$isa": {"Int", "LeafExpr", "Expr"}, "value": N})
                arr_k = Sym("array", methods={"type_spec": lambda aspec=aspec: aspec, "encode": lambda: Rec("name", "ARR"), "length": lambda ln=ln: ln})
                self_k = Sym("self", attrs={"array": arr_k, "index": idx}, methods={"produced_type_spec": lambda aspec=aspec: aspec.methods["value_type_spec"]()})
                ck = f"{construct}[constant index {k} of {N}]"
                try:
                    vk, _ = W.run(f.node, {"self": self_k, "output": _output(W, elem_shape)}, None, f.fq)
                except Raised as r:
                    ctx.bad("R07.3", ck, f"raises {r.exc_text[:60]}", f.where)
                    continue
                tk = strip(vk)
                m = _re.fullmatch(r"decode\(ARR, start_index=(.*?)(?:, end_index=(.*))?\)", tk)
                bi_k = f"$binop:Mult(Int(2), Int({k}))"
                want_start = f"ExtractUint16(ARR, {bi_k})"
                want_end = "END" if k == N - 1 else f"ExtractUint16(ARR, $binop:Add({bi_k}, Int(2)))"
                got_end = None
                if m:
                    e_ = m.group(2)
                    if e_ is None or e_ == "Len(ARR)":
                        got_end = "END"
                    else:
                        mi = _re.fullmatch(r"If\(\$cmp:Eq\(\$binop:Add\(Int\((\d+)\), Int\(1\)\), Int\((\d+)\)\)\)\.Then\((.*?)\)\.Else\((.*)\)", e_)
                        if mi:
                            chosen = mi.group(3) if int(mi.group(1)) + 1 == int(mi.group(2)) else mi.group(4)
                            got_end = "END" if chosen == "Len(ARR)" else chosen
                        else:
                            got_end = e_
                ok_k = bool(m) and m.group(1) == want_start and got_end == want_end
                ctx.check(ok_k, "R07.3", ck, f"gives {tk[:160]}: the element runs from {m.group(1) if m else '?'} to {got_end}; ARC-4 addressing is from {want_start} to {want_end}", f.where, fact={"result": tk[:120]})
        # bounds: which paths necessarily fail for IDX >= length?
        if kind == "static":
            ctx.ok("R07.3", construct + ":out-of-range", "a byte-granular extract of `stride` bytes at stride*i(+2) lies outside the encoding for i >= length, and extract fails on out-of-range access", f.where)
        else:
            has_guard = "Assert(" in txt and "LENGTH" in txt.split("Assert(", 1)[1][:80] if "Assert(" in txt else False
            ctx.check(has_guard, "R07.3", f"ArrayElement.store_into[{kind} elements]:out-of-range", f"no bound check: for {kind} elements an index >= length {'reads a padding bit of the last byte / a bit of the following data' if kind == 'bool' else 'reads the uint16 behind the head table as an offset'} and returns data instead of failing", f.where, fact={})
    ctx.require_min("R07.3", 9)


# ------------------------------------------------------------------------------------------ byte slices
from sa.lowerworld import World, term_run  # noqa: E402
from sa.minieval import StackError  # noqa: E402
from spec import avm  # noqa: E402


def _atom(t):
    if isinstance(t, tuple) and t[0] == "int":
        return t[1][0]
    return t


def _plus(a, b):
    if isinstance(a, int) and isinstance(b, int):
        return a + b
    return ("+", a, b)


def slice_of(t):
    """(base, lo, hi) denoted by a byte-slicing term per the AVM reference: extract s l (l = 0: to the end),
    extract3 A B C = A[B, B+C) (no special case), substring s e / substring3 A B C = A[B, C)"""
    if not (isinstance(t, tuple) and len(t) == 3 and isinstance(t[1], tuple)):
        return None
    op, a, _ = t
    if op == "extract" and len(a) == 3:
        base, s, l = a
        return (base, s, "LEN") if l == 0 else (base, s, s + l)
    if op == "extract3" and len(a) == 3:
        return (a[0], _atom(a[1]), _plus(_atom(a[1]), _atom(a[2])))
    if op in ("substring", "substring3") and len(a) == 3:
        hi = a[2]
        if isinstance(hi, tuple) and hi[0] == "len" and hi[1] == (a[0],):
            hi = "LEN"
        return (a[0], _atom(a[1]), _atom(hi))
    return None


def r07_4_slices(ctx):
    ctx.rule("R07.4", "Substring / Extract / Suffix lower, for every program version and for constant operands on both sides of the one-byte immediate limit as well as for computed operands, to an op chain that denotes the documented byte range [start, end) / [start, start+length) / [start, len) under the AVM meaning of extract, extract3, substring and substring3")
    W = World(ctx.model)
    consts = [0, 1, 255, 256, 70000]
    versions = range(2, avm.MAX_AVM_VERSION + 1) if ctx.tier != "quick" else (2, 4, 5, 6, 10)
    classes = {"SubstringExpr": ("endArg", 2), "ExtractExpr": ("lenArg", 5), "SuffixExpr": (None, 5)}
    for cname, (third, minv) in classes.items():
        c = ctx.model.find_class(cname, "pyteal.ast.substring")
        ctx.analysed(c.fq + ".__teal__")
        seconds = [("expr", None)] + [(f"Int({k})", k) for k in consts]
        thirds = [("expr", None)] + [(f"Int({k})", k) for k in consts] if third else [(None, None)]
        for version in versions:
            for (sn, sv), (tn, tv) in itertools.product(seconds, thirds):
                s = W.child("S", "bytes")
                a = W.child("A", "uint64") if sv is None else W.int_literal(sv)
                attrs = {"stringArg": s, "startArg": a}
                if third:
                    attrs[third] = W.child("B", "uint64") if tv is None else W.int_literal(tv)
                A = "A" if sv is None else sv
                B = "B" if tv is None else tv
                if cname == "SubstringExpr":
                    want = ("S", A, B)
                    invalid = isinstance(A, int) and isinstance(B, int) and B < A
                elif cname == "ExtractExpr":
                    want = ("S", A, _plus(A, B))
                    invalid = False
                else:
                    want = ("S", A, "LEN")
                    invalid = False
                construct = f"{cname}[v{version},{sn}" + (f",{tn}]" if third else "]")
                try:
                    val, me, f = W.run_teal(cname, attrs, W.options(version), module="pyteal.ast.substring")
                except Raised as r:
                    if invalid:
                        ctx.ok("R07.4", construct, "refused: end before start", c.where)
                    elif version < minv or "version" in r.exc_text.lower():
                        # refusing is always sound; it is required to succeed only from the documented minimum on
                        ctx.check(version < minv, "R07.4", construct, f"refused at version {version} although the construct is documented from version {minv}: {r.exc_text[:60]}", c.where, fact={"refused": True})
                    else:
                        ctx.bad("R07.4", construct, f"raises {r.exc_text[:70]}", c.where)
                    continue
                if invalid:
                    ctx.bad("R07.4", construct, "a constant end before the constant start is accepted", c.where)
                    continue
                try:
                    ops = W.chain(val[0], val[1])
                    stack, _as, tstack = term_run(W, ops, ["BASE"])
                except (StackError, AnalysisError) as e:
                    ctx.bad("R07.4", construct, f"op chain is ill-formed: {e}", c.where)
                    continue
                # ops newer than the program version are refused afterwards by the compiler's final sweep (R04.2); what
                # is decided here is the byte range the chain denotes
                got = slice_of(stack[-1]) if len(stack) == 2 else None
                ctx.check(got == want, "R07.4", construct, f"denotes {got} (ops: {'; '.join(map(repr, ops))}); documented range is {want}", c.where, fact={"ops": [repr(o) for o in ops]})
    ctx.require_min("R07.4", 300)


def r07_5_immutable_values(ctx):
    ctx.rule("R07.5", "an ABI value or type spec is not changed by using it: element access, length(), get(), decode(), set(), encode() build expressions from the value's storage and type alone - no method other than __init__ assigns an attribute of the object (a holder or memo kept on the value is shared by expressions that are evaluated at different times)")
    n_init = n_other = 0
    for c in ctx.model.iter_classes():
        if not c.module.name.startswith("pyteal.ast.abi") or c.module.name.endswith("_test"):
            continue
        for nm, f in c.methods.items():
            for s in walk_local(f.node):
                tg = s.targets if isinstance(s, ast.Assign) else ([s.target] if isinstance(s, (ast.AugAssign, ast.AnnAssign)) else [])
                for x in tg:
                    if isinstance(x, ast.Attribute) and u(x.value) == "self":
                        if nm == "__init__":
                            n_init += 1
                            continue
                        n_other += 1
                        ctx.bad("R07.5", f"{c.name}.{nm}:self.{x.attr}", f"{c.name}.{nm} stores `self.{x.attr}`: the value object now carries state from an earlier use", f"{f.module.rel}:{s.lineno}")
    q.need(n_init >= 12, f"only {n_init} attribute stores found in ABI constructors: the scan no longer sees the classes")
    ctx.instances["R07.5"] = ctx.instances.get("R07.5", 0) + n_init
    ctx.ok("R07.5", "abi-classes", {"stores_in_constructors": n_init, "stores_elsewhere": n_other}, "pyteal/ast/abi")


def r07_6_access_buildable(ctx):
    ctx.rule("R07.6", "length() and element access can be built for every array-like type, Address (whose length is an enumeration member, not a plain int) included: the repository's own value classes are interpreted, and the Int constructor's own checks decide what it accepts; length() of a fixed-length type is the constant of its type")
    W = AbiWorld(ctx)
    W.real_bases = {"BaseType"}
    for shape, n in ((("address",), 32), (("bytes_static", 32), 32), (("sarr", ("uint", 8), 3), 3), (("sarr", ("bool",), 9), 9), (("sarr", ("string",), 2), 2), (("darr", ("uint", 16)), None), (("string",), None), (("bytes_dyn",), None)):
        cname = arc4.class_of(shape).replace("TypeSpec", "")
        c = ctx.model.find_class(cname)
        inst = W.spec(shape).methods["new_instance"]()
        try:
            ln = inst.methods["length"]()
            got = f"Int({intval(ln)})" if intval(ln) is not None else strip(ln)[:60]
            ok = n is None or intval(ln) == n
            why = f"length() is {got}" + (f"; the type has {n} elements" if n is not None else "")
        except Raised as r:
            ok, why = False, f"length() cannot be built: {r.exc_text[:70]}"
        ctx.check(ok, "R07.6", f"{cname}.length[{arc4.sig(shape)}]", why, c.where, fact={})
        for idx_name, idx in (("constant index", 0), ("computed index", Rec("name", "IDX"))):
            try:
                el = inst.methods["__getitem__"](idx)
                ok2, why2 = True, "built"
            except Raised as r:
                ok2, why2 = False, f"cannot be built: {r.exc_text[:70]}"
            ctx.check(ok2, "R07.6", f"{cname}[{idx_name}][{arc4.sig(shape)}]", f"{arc4.sig(shape)}[{idx_name}] {why2}", c.where, fact={})
    ctx.require_min("R07.6", 20)


def r07_7_annotation_roundtrip(ctx):
    ctx.rule("R07.7", "the annotation of a type names the same type: for scalars, arrays and tuples of 0..5 pairwise different members, TypeSpec.annotation_type() is the value class subscripted with the annotations of its members / element (and length) in order - so a value built from the annotation (abi.make, a subroutine parameter) decodes member i with member i's type")
    W = AbiWorld(ctx)
    members = [("uint", 8), ("string",), ("bool",), ("uint", 16), ("uint", 64)]

    def ann(shape):
        return W.spec(shape).methods["annotation_type"]()

    def text(x):
        return strip(x)

    for k in range(0, 6):
        shape = ("tuple", tuple(members[:k]))
        c = ctx.model.find_class("TupleTypeSpec", "pyteal.ast.abi.tuple")
        try:
            got = ann(shape)
            want_members = [text(ann(m)) for m in members[:k]]
        except Raised as r:
            ctx.bad("R07.7", f"annotation_type[{arc4.sig(shape)}]", f"raises {r.exc_text[:60]}", c.where)
            continue
        if k == 0:
            ok = text(got) == "Tuple0"
            got_members = []
        else:
            sub = got.parts[1] if isinstance(got, Rec) and got.kind == "item" else None
            got_members = [text(x) for x in (sub if isinstance(sub, (list, tuple)) else [sub])] if sub is not None else None
            ok = isinstance(got, Rec) and got.kind == "item" and text(got.parts[0]) == f"Tuple{k}" and got_members == want_members
        ctx.check(ok, "R07.7", f"annotation_type[{arc4.sig(shape)}]", f"is {text(got)}; the members' annotations are {want_members} in this order", c.where, fact={"annotation": text(got)[:120]})
    for shape in (("sarr", ("uint", 16), 3), ("darr", ("string",)), ("sarr", ("tuple", (("uint", 8), ("bool",))), 2)):
        c = ctx.model.find_class(arc4.class_of(shape))
        try:
            got = ann(shape)
            el = text(ann(arc4.elem(shape)))
        except Raised as r:
            ctx.bad("R07.7", f"annotation_type[{arc4.sig(shape)}]", f"raises {r.exc_text[:60]}", c.where)
            continue
        t = text(got)
        ok = isinstance(got, Rec) and got.kind == "item" and el in t and (shape[0] == "darr" or str(shape[2]) in t)
        ctx.check(ok, "R07.7", f"annotation_type[{arc4.sig(shape)}]", f"is {t}; it must name the element annotation {el}" + ("" if shape[0] == "darr" else f" and the length {shape[2]}"), c.where, fact={"annotation": t[:120]})
    ctx.require_min("R07.7", 9)


def r07_8_annotation_inverse(ctx):
    from sa.minieval import run_function as _rf

    ctx.rule("R07.8", "annotation round trip: type_spec_from_annotation(spec.annotation_type()) has the signature string of spec for scalars, byte strings, arrays and tuples of up to five members of a bounded universe - a value declared through an annotation (subroutine parameter, abi.make) has the type that was written")
    W = AbiWorld(ctx)
    f = ctx.model.find_func("type_spec_from_annotation", "pyteal.ast.abi.util")
    ilf = ctx.model.find_func("int_literal_from_annotation", "pyteal.ast.abi.util")
    ctx.analysed(f.fq, ilf.fq)

    def extra(e, me):
        t = u(e)
        if t == "get_origin":
            return lambda a: (a.parts[0] if isinstance(a, Rec) and a.kind == "item" else None)
        if t == "get_args":
            def ga(a):
                if isinstance(a, Rec) and a.kind == "item":
                    sub = a.parts[1]
                    return tuple(sub) if isinstance(sub, (list, tuple)) else (sub,)
                return ()
            return ga
        if t == "issubclass":
            return lambda a, b: False
        raise Unknown()

    resolver = lambda nm: {"type_spec_from_annotation": f.node, "int_literal_from_annotation": ilf.node}.get(nm) or W.resolver(nm)
    shapes = [("bool",), ("byte",), ("uint", 8), ("uint", 16), ("uint", 32), ("uint", 64), ("address",), ("string",), ("bytes_dyn",), ("bytes_static", 7), ("darr", ("uint", 16)), ("darr", ("string",)), ("sarr", ("uint", 64), 3), ("sarr", ("bool",), 9), ("darr", ("sarr", ("byte",), 2)), ("ref", "account"), ("ref", "asset"), ("ref", "application")]
    members = [("uint", 8), ("string",), ("bool",), ("uint", 16), ("uint", 64)]
    shapes += [("tuple", tuple(members[:k])) for k in range(0, 6)] + [("tuple", (("tuple", (("uint", 8), ("bool",))), ("darr", ("uint", 64))))]
    for shape in shapes:
        construct = f"annotation-round-trip[{arc4.sig(shape)}]"
        where = ctx.model.find_class(arc4.class_of(shape)).where
        try:
            spec = W.spec(shape)
            ann = spec.methods["annotation_type"]()
            back, _ = _rf(f.node, {"annotation": ann}, W.oracle(extra), f.fq, permissive=True, resolver=resolver, setup=W.setup)
            got = back.methods["__str__"]() if isinstance(back, Sym) and "__str__" in back.methods else strip(back)
        except Raised as r:
            ctx.bad("R07.8", construct, f"the round trip raises {r.exc_text[:70]}", where)
            continue
        ctx.check(got == arc4.sig(shape), "R07.8", construct, f"annotation {strip(ann)[:80]} is read back as {got}", where, fact={"annotation": strip(ann)[:100]})
    ctx.require_min("R07.8", 20)


def r07_9_named_fields(ctx):
    from sa.minieval import run_function as _rf

    ctx.rule("R07.9", "a named field of a NamedTuple is the member declared at that position: after NamedTuple.__init__ has read the class's field annotations, attribute access t.<field> indexes the tuple at the field's position in declaration order (the order of the encoded layout) - for names declared in non-alphabetical order and for more than ten numbered names")
    c = ctx.model.find_class("NamedTuple", "pyteal.ast.abi.tuple")
    init, ga = c.methods["__init__"], c.methods["__getattr__"]
    ctx.analysed(init.fq, ga.fq)
    FieldOrigin = Sym("Field-origin")
    families = {"declared owner, balance, frozen, nonce": ["owner", "balance", "frozen", "nonce"], "f0..f11": [f"f{i}" for i in range(12)], "reverse alphabetical": ["zeta", "mid", "alpha"], "one field": ["only"], "upper and lower case": ["b", "A", "a", "B"]}
    for label, names in families.items():
        anns = {nm: Rec("item", FieldOrigin, Rec("name", f"T{i}")) for i, nm in enumerate(names)}
        selfs = Sym("self:NT")
        selfs.methods["__getitem__"] = lambda i: ("member", i)

        def oracle(e, me):
            t = u(e)
            if isinstance(e, ast.Call):
                fn = u(e.func)
                if fn == "get_annotations":
                    return dict(anns)
                if fn == "get_origin":
                    a = me.ev(e.args[0])
                    return FieldOrigin if (isinstance(a, Rec) and a.kind == "item") or (isinstance(a, Rec) and a.kind == "name" and a.args and a.args[0] == "Field") or a is FieldOrigin else None
                if fn == "get_args":
                    a = me.ev(e.args[0])
                    return (a.parts[1],) if isinstance(a, Rec) and a.kind == "item" else ()
                if fn == "type_spec_from_annotation":
                    return Sym("spec-of:" + strip(me.ev(e.args[0])))
                if fn == "NamedTupleTypeSpec":
                    return Sym("ntspec")
                if fn == "super().__init__":
                    return None
                if fn == "type":
                    return Sym("class:UserTuple", attrs={"__module__": "user_module", "__qualname__": "UserTuple", "__name__": "UserTuple"})
            if t == "Field":
                return FieldOrigin
            if t in ("NamedTuple", "OrderedDict"):
                return Sym("class:NamedTuple") if t == "NamedTuple" else dict
            raise Unknown()

        try:
            _rf(init.node, {"self": selfs}, oracle, init.fq, permissive=True)
        except Raised as r:
            ctx.bad("R07.9", f"NamedTuple[{label}]", f"the constructor raises {r.exc_text[:60]}", init.where)
            continue
        for i, nm in enumerate(names):
            try:
                got, _ = _rf(ga.node, {"self": selfs, "field": nm}, oracle, ga.fq, permissive=True)
            except Raised as r:
                got = f"raises {r.exc_text[:40]}"
            ctx.check(got == ("member", i), "R07.9", f"NamedTuple[{label}].{nm}", f"t.{nm} yields {got!r}; `{nm}` is declared at position {i}", ga.where, fact={"position": i})
    ctx.require_min("R07.9", 20)


def r19_6_index_tuple_output_type(ctx):
    ctx.rule("R19.6", "a tuple member is only ever decoded into a value of the member's own type: _index_tuple refuses an output whose type spec differs from the member's - whatever the two kinds are (a Bool output for an integer, string or tuple member included, where the bit-addressed fast path would otherwise read one bit of the member)")
    W = AbiWorld(ctx)
    f = ctx.model.find_func("_index_tuple", "pyteal.ast.abi.tuple")
    ctx.analysed(f.fq)
    kinds = [("bool",), ("uint", 8), ("uint", 64), ("string",), ("sarr", ("byte",), 3), ("tuple", (("bool",), ("uint", 16)))]
    BoolCls = Sym("class:Bool", attrs={"classname": "Bool"})

    def extra(e, me):
        if u(e) == "Bool":
            return BoolCls
        raise Unknown()

    for member in kinds:
        members = [("uint", 16), member, ("bool",), ("string",)]
        specs = [W.spec(m) for m in members]
        for out_shape in kinds:
            out = _output(W, out_shape)
            out.attrs["$type"] = BoolCls if out_shape == ("bool",) else Sym("class:Other", attrs={"classname": "Other"})
            try:
                W.run(f.node, {"value_types": specs, "encoded": Rec("name", "ENCODED"), "index": 1, "output": out}, extra, f.fq)
                outcome = "accepted"
            except Raised as r:
                outcome = "refused"
            want = "accepted" if out_shape == member else "refused"
            ctx.check(outcome == want, "R19.6", f"_index_tuple[member {arc4.sig(member)} into {arc4.sig(out_shape)}]", f"decoding a {arc4.sig(member)} member into a {arc4.sig(out_shape)} value is {outcome}; expected {want}", f.where, fact={"outcome": outcome})
    ctx.require_min("R19.6", 36)


def run(ctx):
    r07_1_index_tuple(ctx)
    r07_2_decoders(ctx)
    r07_3_array_element(ctx)
    r07_4_slices(ctx)
    r07_5_immutable_values(ctx)
    r07_6_access_buildable(ctx)
    r07_7_annotation_roundtrip(ctx)
    r07_8_annotation_inverse(ctx)
    r19_6_index_tuple_output_type(ctx)
    from rules import c04 as _c04d

    _c04d.r04_1_op_table(ctx)  # the decoding ops (extract_uint16/32/64, getbit, getbyte, extract ...) are available wherever the AVM has them (shared with C04)
    from rules import c06 as _c06, c04 as _c04

    _c06.r06_1_descriptors(ctx)  # static lengths / dynamic-ness the walkers rely on (shared with C06)
    _c04.r04_4_immediates(ctx)  # extract/substring immediate forms only for constants that fit one byte
    from rules import c11 as _c11

    _c11.r11_1_inventory(ctx, only_under="pyteal/ast/abi")  # addressing is a function of the type spec alone: no process-wide cache in the ABI layer
    r07_9_named_fields(ctx)
    return (
        "Abstract evaluation of _index_tuple on all short member-kind sequences (and long bool runs) against ARC-4 positions; decoder selection tables; array element addressing "
        "terms; per-path audit of out-of-range behaviour; immediate ranges of the extract/substring forms. Extraction on actual encoded bytes is not executed."
    )
