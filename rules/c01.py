"""C01 - compiled TEAL computes what the expression denotes (structural, necessary clauses)."""
from __future__ import annotations

import ast
import re

from sa.astutil import u
from sa.edges import canon_match, extract, flatten
from sa.model import AnalysisError
from sa.pe import PE
from spec import lowering


def _children(facts):
    out = set()
    for f in facts:
        for part in f:
            for m in re.finditer(r"[SE]\(([^()]*(?:\([^()]*\)[^()]*)*)\)", part):
                out.add(m.group(1))
    return out


def r01_3_wiring(ctx, only=None):
    ctx.rule("R01.3", "block wiring of each control construct (def-use edge facts of its __teal__) equals the reference lowering, per scenario")
    pe = PE(ctx.model)
    for name, spec in lowering.CONSTRUCTS.items():
        if only and name not in only:
            continue
        qual, mod = spec["func"]
        f = ctx.model.find_func(qual, mod)
        ctx.analysed(f.fq)
        res = pe.run(f, pe.symbolic_env(f, f.cls is not None), attrs={}, self_cls=f.cls)
        facts = extract(res)
        for sc_name, scenario, reference in spec["scenarios"]:
            actual = flatten(facts, scenario)
            ok, missing, extra, renamed = canon_match(actual, reference)
            construct = f"{qual}[{sc_name}]"
            if not ok:
                unknown = _children(renamed) - _children(reference)
                known_missing = _children(reference) - _children(renamed)
                if unknown and known_missing:
                    raise AnalysisError(f"{construct}: child expressions {sorted(unknown)} are not in the reference vocabulary {sorted(_children(reference))} (renamed attribute?)")
            ctx.check(
                ok,
                "R01.3",
                construct,
                f"wiring differs from the reference lowering ({spec['doc']}): missing {sorted(missing)}; unexpected {sorted(extra)}",
                f.where,
                fact=sorted(map(list, renamed)),
                detail={"missing": sorted(map(list, missing)), "extra": sorted(map(list, extra))},
            )
    ctx.require_min("R01.3", 14 if not only else 1)


def run(ctx):
    r01_3_wiring(ctx)
    return (
        "Def-use edge facts of every control construct's __teal__ compared with a reference lowering; operand order/arity at emission "
        "sites; pattern rules on NormalizeBlocks/sortBlocks/flattenBlocks/replaceOutgoing. Behaviour over inputs is not decided."
    )
