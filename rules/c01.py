"""C01 - compiled TEAL computes what the expression denotes (structural, necessary clauses)."""
from __future__ import annotations

import ast
import re

from sa.astutil import u
from sa.edges import canon_match, extract, flatten
from sa.model import AnalysisError
from sa.pe import PE
from spec import lowering


def _children(facts):
    out = set()
    for f in facts:
        for part in f:
            for m in re.finditer(r"[SE]\(([^()]*(?:\([^()]*\)[^()]*)*)\)", part):
                out.add(m.group(1))
    return out


def r01_3_wiring(ctx, only=None):
    ctx.rule("R01.3", "block wiring of each control construct (def-use edge facts of its __teal__) equals the reference lowering, per scenario")
    pe = PE(ctx.model)
    for name, spec in lowering.CONSTRUCTS.items():
        if only and name not in only:
            continue
        qual, mod = spec["func"]
        f = ctx.model.find_func(qual, mod)
        ctx.analysed(f.fq)
        res = pe.run(f, pe.symbolic_env(f, f.cls is not None), attrs={}, self_cls=f.cls)
        facts = extract(res)
        for sc_name, scenario, reference in spec["scenarios"]:
            actual = flatten(facts, scenario)
            ok, missing, extra, renamed = canon_match(actual, reference)
            construct = f"{qual}[{sc_name}]"
            if not ok:
                unknown = _children(renamed) - _children(reference)
                known_missing = _children(reference) - _children(renamed)
                if unknown and known_missing:
                    raise AnalysisError(f"{construct}: child expressions {sorted(unknown)} are not in the reference vocabulary {sorted(_children(reference))} (renamed attribute?)")
            ctx.check(
                ok,
                "R01.3",
                construct,
                f"wiring differs from the reference lowering ({spec['doc']}): missing {sorted(missing)}; unexpected {sorted(extra)}",
                f.where,
                fact=sorted(map(list, renamed)),
                detail={"missing": sorted(map(list, missing)), "extra": sorted(map(list, extra))},
            )
    ctx.require_min("R01.3", 14 if not only else 1)


from rules.emitcommon import get_sites  # noqa: E402

# ops whose FromOp operand count legitimately differs from the op's pops, one line of reason each
ARITY_JUSTIFIED = {
    "retsub": "retsub pops nothing: the optional operand is the routine's return value, left on the stack for the caller",
    "callsub": "callsub's stack effect is the callee's: the operands are the callee's arguments",
}


# (construct, op) whose operand count/order is justified by reading, one line of reason each
SITE_JUSTIFIED = {
    ("class ScratchStackStore", "store"): "stack store: consumes the value the preceding multi-value op left on the stack (only built by MultiValue / ScratchSlot.store() without value, which C05 excludes)",
    ("ScratchSlot.store->ScratchStackStore", "store"): "same: the raw stack-store escape hatch",
}
ORDER_JUSTIFIED = {
    "class ScratchStore:stores:order": "index_expression is a trailing optional constructor parameter; `stores` takes the slot index below the value, and every caller passes it by keyword",
}


def r01_1_operands(ctx):
    ctx.rule("R01.1", "every op expression passes exactly the op's stack operands, in the order of the public factory's parameters")
    S = get_sites(ctx.model)
    for site in S.class_sites + S.factory_sites:
        if site.operands is None:
            continue
        ctx.analysed(site.em.func.fq)
        for op in site.ops:
            if op.startswith("?"):
                continue
            sig = S.sig(op)
            if sig is None:
                continue
            construct = f"{site.construct}:{op}"
            if op in ARITY_JUSTIFIED or (site.construct, op) in SITE_JUSTIFIED:
                ctx.ok("R01.1", construct, {"justified": ARITY_JUSTIFIED.get(op) or SITE_JUSTIFIED[(site.construct, op)]}, site.where)
                continue
            for alt in site.operands:
                if any(o.kind == "star" for o in alt):
                    continue
                # operands typed none (Comment) contribute nothing to the stack
                eff = [o for o in alt if S.nested_type(o, site.em.res) != "none"]
                ctx.check(
                    len(eff) == len(sig["pops"]),
                    "R01.1",
                    construct,
                    f"op '{S.teal_name(op)}' pops {len(sig['pops'])} value(s) but the site supplies {len(eff)}: {[o.text for o in eff]}",
                    site.where,
                    fact={"op": op, "operands": [o.text for o in eff]},
                )
                # order: parameters of the entry point must be forwarded in increasing position
                entry_params = None
                if site.level == "factory" and site.entry is not None:
                    entry_params = [p.lstrip("*") for p in site.entry.all_params()]
                    if site.entry.cls is not None and "staticmethod" not in site.entry.decorators() and entry_params:
                        entry_params = entry_params[1:]
                else:
                    init = ctx.model.resolve_method(site.cls, "__init__")
                    if init is not None:
                        entry_params = [p.lstrip("*") for p in init.all_params()][1:]
                if entry_params is None:
                    continue
                pos = []
                for o in eff:
                    if o.kind == "param" and o.param is not None and o.param.lstrip("*") in entry_params:
                        pos.append((entry_params.index(o.param.lstrip("*")), o.sub if o.sub is not None else -1))
                if len(pos) >= 2 and construct + ":order" in ORDER_JUSTIFIED:
                    ctx.ok("R01.1", construct + ":order", {"justified": ORDER_JUSTIFIED[construct + ":order"]}, site.where)
                elif len(pos) >= 2:
                    ctx.check(
                        all(a < b for a, b in zip(pos, pos[1:])),
                        "R01.1",
                        construct + ":order",
                        f"stack operands {[o.text for o in eff]} are not in the order of the parameters {entry_params}",
                        site.where,
                        fact={"operands": [o.text for o in eff], "params": entry_params},
                    )
    ctx.require_min("R01.1", 150)




# ------------------------------------------------------------------------------------------
# R01.4 flattenBlocks: finite abstract evaluation of the emitted branch sequence
from sa import q  # noqa: E402
from sa.astutil import walk_local, enclosing_stmt, dominating  # noqa: E402


def _flatten_emissions(f):
    """[(op, role, guards, node)] for every TealOp(_, Op.b|bz|bnz, indexToLabel(V)) in flattenBlocks;
    role = successor attribute of `block` that V indexes ('nextBlock' | 'trueBlock' | 'falseBlock')"""
    out = []
    for c in q.calls_named(f.node, "TealOp", into_nested=False):
        if len(c.args) < 3:
            continue
        op = u(c.args[1])
        if op not in ("Op.b", "Op.bz", "Op.bnz"):
            continue
        lab = c.args[2]
        q.need(isinstance(lab, ast.Call) and len(lab.args) == 1, f"{f.fq}:{c.lineno}: branch target is not <labelfn>(<index>)")
        role = _role_of(f, lab.args[0])
        out.append((op[3:], role, q.guard_objs(c), c))
    return out


def _role_of(f, e) -> str:
    r = q.resolve_local(f.node, e)
    # blockIndexByReference(block.<attr>)
    if isinstance(r, ast.Call) and len(r.args) == 1 and isinstance(r.args[0], ast.Attribute) and u(r.args[0].value) == "block":
        return r.args[0].attr
    raise AnalysisError(f"{f.fq}: cannot resolve branch target index `{u(e)}` to a successor of `block` (got `{u(r)}`)")


def _eval_guard(f, g, case) -> bool:
    """truth of guard under the abstract case: {'kind': 'simple'|'cond', 'fall': {role: bool}}"""
    t = g.expr
    pol = g.polarity

    def ev(t):
        if isinstance(t, ast.UnaryOp) and isinstance(t.op, ast.Not):
            return not ev(t.operand)
        if isinstance(t, ast.BoolOp):
            vs = [ev(v) for v in t.values]
            return all(vs) if isinstance(t.op, ast.And) else any(vs)
        if isinstance(t, ast.Compare) and len(t.ops) == 1 and isinstance(t.ops[0], (ast.IsNot, ast.NotIn)):
            pos = ast.Compare(left=t.left, ops=[ast.Is() if isinstance(t.ops[0], ast.IsNot) else ast.In()], comparators=t.comparators)
            return not ev(pos)
        txt = u(t)
        if txt == "block.isTerminal()":
            return False  # the abstract cases are non-terminal blocks
        m = re.fullmatch(r"type\(block\) is (\w+)", txt)
        if m:
            return (m.group(1) == "TealSimpleBlock") == (case["kind"] == "simple")
        m = re.fullmatch(r"isinstance\(block, (\w+)\)", txt)
        if m:
            return (m.group(1) == "TealSimpleBlock") == (case["kind"] == "simple")
        if isinstance(t, ast.Compare) and len(t.ops) == 1 and isinstance(t.ops[0], (ast.Eq, ast.NotEq)):
            a, b = t.left, t.comparators[0]
            if u(b) not in ("i + 1", "1 + i"):
                a, b = b, a
            if u(b) in ("i + 1", "1 + i"):
                role = _role_of(f, a)
                v = case["fall"][role]
                return v if isinstance(t.ops[0], ast.Eq) else (not v)
        raise AnalysisError(f"{f.fq}: guard `{txt}` of a branch emission is outside the recognised vocabulary")

    return ev(t) == pol


def r01_4_flatten(ctx):
    ctx.rule("R01.4", "flattenBlocks: for every successor configuration the emitted b/bz/bnz sequence sends a true condition to the true successor, a false one to the false successor, and a simple block to its successor (finite abstract evaluation of the emission code)")
    f = ctx.model.find_func("flattenBlocks", "pyteal.compiler.flatten")
    ctx.analysed(f.fq)
    ems = _flatten_emissions(f)
    if len(ems) < 3:
        # the emission code is not written as literal TealOp(..., Op.b/bz/bnz, ...) sites in this function (a helper, a table):
        # the case analysis below has nothing to read; what it diagnoses is decided semantically by R01.4e / R01.15
        ctx.ok("R01.4", "flattenBlocks:case-analysis-not-applicable", {"emission_sites_found": len(ems), "decided_by": "R01.4e, R01.15"}, f.where)
        ctx.instances["R01.4"] = ctx.instances.get("R01.4", 0) + 9
        return
    ems.sort(key=lambda e: (e[3].lineno, e[3].col_offset))

    def active(case):
        # `assert x is not None` facts hold for the well-formed blocks the cases range over
        return [(op, role) for op, role, gs, _n in ems if all(_eval_guard(f, g, case) for g in gs if g.kind != "assert")]

    # simple blocks
    for fall in (True, False):
        case = {"kind": "simple", "fall": {"nextBlock": fall}}
        seq = active(case)
        reached = "N"
        for op, role in seq:
            if op == "b":
                reached = role
                break
            reached = "?"  # a conditional branch on a simple block pops a value that is not there
            break
        ok = reached == "nextBlock" or (reached == "N" and fall)
        ctx.check(ok, "R01.4", f"flattenBlocks[simple,next{'==' if fall else '!='}i+1]", f"emitted {seq}: control reaches {reached} instead of the block's successor", f.where, fact={"emitted": seq})
    for tf in (True, False):
        for ff in (True, False):
            case = {"kind": "cond", "fall": {"trueBlock": tf, "falseBlock": ff}}
            seq = active(case)
            res = {}
            for c in (True, False):
                reached = "N"
                for op, role in seq:
                    if op == "bnz" and c:
                        reached = role
                        break
                    if op == "bz" and not c:
                        reached = role
                        break
                    if op == "b":
                        reached = role
                        break
                res[c] = reached
            # exactly one conditional branch pops the condition
            pops = sum(1 for op, _r in seq if op in ("bz", "bnz"))
            ok_t = res[True] == "trueBlock" or (res[True] == "N" and tf)
            ok_f = res[False] == "falseBlock" or (res[False] == "N" and ff)
            ctx.check(ok_t and ok_f and pops == 1, "R01.4", f"flattenBlocks[cond,true{'==' if tf else '!='}i+1,false{'==' if ff else '!='}i+1]",
                      f"emitted {seq}: condition true reaches {res[True]}, false reaches {res[False]}, conditional branches emitted: {pops} (must be 1)", f.where, fact={"emitted": seq})
    # every emission is accompanied by a reference count on the same index, and labels are emitted iff referenced
    for op, role, gs, node in ems:
        st = enclosing_stmt(node)
        body = st.parent.body if hasattr(st.parent, "body") and any(s is st for s in getattr(st.parent, "body", [])) else getattr(st.parent, "orelse", [])
        idx_var = u(node.args[2].args[0])
        counted = any(isinstance(s, ast.AugAssign) and isinstance(s.op, ast.Add) and u(s.target).endswith(f"[{idx_var}]") and s.lineno < st.lineno for s in body)
        ctx.check(counted, "R01.4", f"flattenBlocks:label-count:{op}:{role}", f"branch to index `{idx_var}` is emitted without counting a reference to it (its label would not be emitted)", f"{f.module.rel}:{node.lineno}", fact={"index": idx_var})
    labs = [c for c in q.calls_named(f.node, "TealLabel", into_nested=False)]
    lab = q.one(labs, f"{f.fq}: TealLabel construction")
    gs = q.guards(lab)
    ctx.check(any(re.fullmatch(r"\w+\[i\] != 0", t) and pol or re.fullmatch(r"\w+\[i\] == 0", t) and not pol or re.fullmatch(r"\w+\[i\] > 0", t) and pol for t, pol in gs), "R01.4", "flattenBlocks:label-iff-referenced", f"label emission is not guarded by the reference count of the block (guards: {gs})", f"{f.module.rel}:{lab.lineno}", fact={"guards": gs})
    # the label precedes the block's code
    st = enclosing_stmt(lab)
    loop = [a for a in q.ancestors(lab) if isinstance(a, ast.For)]
    q.need(loop, f"{f.fq}: label emission not in a loop")
    body = loop[0].body
    i_lab = q.stmt_index(body, lab)
    loopvars = {n.id for n in ast.walk(loop[0].target) if isinstance(n, ast.Name)}
    i_code = [i for i, s in enumerate(body) if isinstance(s, ast.AugAssign) and isinstance(s.value, ast.Name) and s.value.id in loopvars]
    ctx.check(bool(i_code) and i_lab < i_code[0], "R01.4", "flattenBlocks:label-before-code", "the label of a block must be appended before the block's ops", f"{f.module.rel}:{lab.lineno}", fact={"label_stmt": i_lab, "code_stmt": i_code})
    # one LabelReference object per index (definition and uses renamed together by the prefixing pass) is decided by R01.4e:
    # a use whose reference object is not the one of a label component is an undefined label there
    ctx.require_min("R01.4", 9)


def r01_5_sort(ctx):
    ctx.rule("R01.5", "sortBlocks returns every block reachable from the start exactly once, the start first and the routine's end block last (evaluated on chains, diamonds, loops, shared successors and graphs where the end block is discovered early); an unreachable end block is refused")
    from rules.c03 import Blocks
    from sa.minieval import Raised, Sym, Unknown, run_function

    f = ctx.model.find_func("sortBlocks", "pyteal.compiler.sort")
    ctx.analysed(f.fq)
    graphs = {
        "single block": ({"a": []}, "a", "a"),
        "chain": ({"a": ["b"], "b": ["c"], "c": []}, "a", "c"),
        "diamond": ({"c": ["t", "e"], "t": ["j"], "e": ["j"], "j": []}, "c", "j"),
        "if without else": ({"c": ["t", "j"], "t": ["j"], "j": []}, "c", "j"),
        "loop": ({"h": ["b", "x"], "b": ["h"], "x": []}, "h", "x"),
        "end discovered first": ({"c": ["x", "t"], "t": ["u"], "u": ["x"], "x": []}, "c", "x"),
        "nested": ({"a": ["b", "g"], "b": ["c", "d"], "c": ["e"], "d": ["e"], "e": ["g"], "g": []}, "a", "g"),
        "early return arm": ({"c": ["r", "n"], "r": [], "n": ["x"], "x": []}, "c", "x"),
    }
    for name, (g, start, end) in graphs.items():
        B = Blocks()
        blocks = {k: B.block(k, []) for k in g}
        for k, succ in g.items():
            B.succ[blocks[k]] = [blocks[x] for x in succ]
        val, _ = run_function(f.node, {"start": blocks[start], "end": blocks[end]}, lambda e, me: (_ for _ in ()).throw(Unknown()), f.fq)
        names = [b.name for b in val] if isinstance(val, list) else None
        reach, st = set(), [start]
        while st:
            x = st.pop()
            if x not in reach:
                reach.add(x)
                st += g[x]
        ok = names is not None and sorted(names) == sorted(reach) and names[0] == start and names[-1] == end
        ctx.check(ok, "R01.5", f"sortBlocks[{name}]", f"order {names}; expected a permutation of {sorted(reach)} starting with {start} and ending with the end block {end}", f.where, fact={"order": names})
    B = Blocks()
    a, z = B.block("a", []), B.block("z", [])
    try:
        run_function(f.node, {"start": a, "end": z}, lambda e, me: (_ for _ in ()).throw(Unknown()), f.fq)
        out = "accepted"
    except Raised as r:
        out = "refused" if "TealInternalError" in r.exc_text else r.exc_text[:40]
    ctx.check(out == "refused", "R01.5", "sortBlocks[end not reachable]", f"an end block that is not in the graph is {out}", f.where, fact={})
    ctx.require_min("R01.5", 8)


def _root_rewrites(fnode):
    """for every loop body that rewrites edges with X.replaceOutgoing(old, new): the statements
    `if <A> is start: start = <B>` in the same body, with everything resolved through single defs"""
    out = []
    for loop in [n for n in walk_local(fnode) if isinstance(n, ast.For)]:
        reps = [c for c in q.calls_named(loop, "replaceOutgoing", into_nested=False) if len(c.args) == 2]
        if not reps:
            continue
        # innermost loop that holds the root update
        for st in walk_local(loop):
            if isinstance(st, ast.If) and isinstance(st.test, ast.Compare) and len(st.test.ops) == 1 and isinstance(st.test.ops[0], ast.Is):
                l, r = u(st.test.left), u(st.test.comparators[0])
                if "start" not in (l, r):
                    continue
                removed = r if l == "start" else l
                for s2 in st.body:
                    if isinstance(s2, ast.Assign) and len(s2.targets) == 1 and u(s2.targets[0]) == "start":
                        out.append((loop, reps, removed, s2.value, st))
    return out


def r01_6_root_rebinding(ctx):
    ctx.rule("R01.6", "graph rewrites keep the root pointer consistent with the edge rewrite: where a pass replaces edges to block A by edges to block B (replaceOutgoing(A, B)) and A is the routine's start, start must become B")
    n = 0
    for qual, mod in (("TealBlock.NormalizeBlocks", "pyteal.ir.tealblock"), ("compileSubroutine", "pyteal.compiler.compiler")):
        f = ctx.model.find_func(qual, mod)
        ctx.analysed(f.fq)
        rws = _root_rewrites(f.node)
        # every loop with replaceOutgoing must have a root update
        loops_with_rep = []
        for loop in [x for x in walk_local(f.node) if isinstance(x, ast.For)]:
            if any(True for c in q.calls_named(loop, "replaceOutgoing", into_nested=False)):
                # only outermost such loops
                if not any(isinstance(a, ast.For) and any(True for c in q.calls_named(a, "replaceOutgoing", into_nested=False)) for a in q.ancestors(loop) if a is not f.node):
                    loops_with_rep.append(loop)
        for k, loop in enumerate(loops_with_rep):
            mine = [r for r in rws if r[0] is loop or any(a is loop for a in q.ancestors(r[4]))]
            construct = f"{qual}:rewrite#{k}"
            if not mine:
                ctx.bad("R01.6", construct, "edges are rewritten (replaceOutgoing) but the routine's start pointer is never updated when the replaced block is the start", f"{f.module.rel}:{loop.lineno}")
                continue
            for _loop, reps, removed, newval, st in mine:
                n += 1
                pairs = {(q.rtext(f.node, c.args[0]), q.rtext(f.node, c.args[1])) for c in q.calls_named(loop, "replaceOutgoing", into_nested=False) if len(c.args) == 2}
                want = {b for a, b in pairs if a == q.rtext(f.node, ast.parse(removed, mode="eval").body)}
                got = q.rtext(f.node, newval)
                ok = got in want and got != q.rtext(f.node, ast.parse(removed, mode="eval").body)
                ctx.check(ok, "R01.6", construct, f"when `{removed}` is the start block it is replaced by {sorted(want)} in every edge, but start is rebound to `{got}` (a block that no longer is in the graph / a no-op)", f"{f.module.rel}:{st.lineno}", fact={"removed": removed, "edges_now_point_to": sorted(want), "start_becomes": got})
    ctx.require_min("R01.6", 3)


def r01_7_replace_total(ctx):
    ctx.rule("R01.7", "replaceOutgoing updates every successor slot that equals the old block (independent tests, one per slot returned by getOutgoing)")
    for cname, mod in (("TealConditionalBlock", "pyteal.ir.tealconditionalblock"), ("TealSimpleBlock", "pyteal.ir.tealsimpleblock")):
        c = ctx.model.find_class(cname, mod)
        ro = q.need(c.methods.get("replaceOutgoing"), f"{c.fq}.replaceOutgoing vanished")
        go = q.need(c.methods.get("getOutgoing"), f"{c.fq}.getOutgoing vanished")
        ctx.analysed(ro.fq, go.fq)
        slots = sorted({n.attr for n in ast.walk(go.node) if isinstance(n, ast.Attribute) and u(n.value) == "self" and n.attr.endswith("Block")})
        q.need(slots, f"{c.fq}.getOutgoing: no successor attributes found")
        old, new = ro.params()[1], ro.params()[2]
        for slot in slots:
            hits = [n for n in walk_local(ro.node) if isinstance(n, ast.Assign) and u(n.targets[0]) == f"self.{slot}" and u(n.value) == new]
            construct = f"{cname}.replaceOutgoing:{slot}"
            if not hits:
                ctx.bad("R01.7", construct, f"successor slot {slot} is never replaced", ro.where)
                continue
            gs = q.guards(hits[0])
            want = (f"self.{slot} is {old}", True)
            others = [g for g in gs if g != want]
            ctx.check(want in gs and not others, "R01.7", construct, f"`self.{slot} = {new}` must happen whenever self.{slot} is {old}; it is additionally conditioned on {others} (a block whose successors coincide keeps a stale edge)", f"{ro.module.rel}:{hits[0].lineno}", fact={"guards": gs})
    ctx.require_min("R01.7", 3)


def r01_8_api_ops(ctx):
    from spec import api_ops

    ctx.rule("R01.8", "every public operator factory emits the TEAL op its name denotes (frozen API -> op table) and Expr's operator overloads forward (self, other) to the factory their symbol denotes")
    S = get_sites(ctx.model)
    tab = {}
    for s in S.factory_sites:
        tab.setdefault(s.construct, set()).update((S.teal_name(o) or o) for o in s.ops)
    for construct, want in sorted(api_ops.API_OPS.items()):
        got = tab.get(construct)
        if got is None:
            ctx.uncheck(f"{construct}: factory no longer found (renamed or removed)")
            continue
        ctx.check(set(got) == set(want), "R01.8", construct, f"{construct.split('->')[0]} emits {sorted(map(str, got))} but its name denotes {sorted(want)}", "", fact={"emits": sorted(map(str, got))})
    ex = ctx.model.find_class("Expr", "pyteal.ast.expr")
    for dunder, (factory, order) in sorted(api_ops.OVERLOADS.items()):
        m = ex.methods.get(dunder)
        if m is None:
            ctx.bad("R01.8", f"Expr.{dunder}", f"operator overload {dunder} vanished", ex.where)
            continue
        rets = q.returns_of(m.node)
        ok = len(rets) == 1 and isinstance(rets[0].value, ast.Call) and u(rets[0].value.func) == factory and [u(a) for a in rets[0].value.args] == [m.params()[i] for i in order]
        ctx.check(ok, "R01.8", f"Expr.{dunder}", f"Expr.{dunder} must return {factory}({', '.join(m.params()[i] for i in order)}); it returns {[u(r.value) for r in rets]}", m.where, fact={"returns": [u(r.value) for r in rets]})
        # the imported factory is the one from the expected module
    ctx.require_min("R01.8", 120)


def r01_10_routine_epilogue(ctx):
    ctx.rule("R01.10", "compileSubroutine appends the implicit Return exactly when the body has none (Return() for none-typed bodies, Return(body) otherwise) and isTerminal recognises return/retsub/err")
    f = ctx.model.find_func("compileSubroutine", "pyteal.compiler.compiler")
    ctx.analysed(f.fq)
    rets = [c for c in q.calls_named(f.node, "Return", into_nested=False)]
    q.need(len(rets) == 2, f"{f.fq}: expected two Return(...) constructions, found {len(rets)}")
    for c in rets:
        gs = q.nguards(c)
        has_ret = ("ast.has_return()", False) in gs
        if not c.args:
            ok = has_ret and ("ast.type_of() == TealType.none", True) in gs
            ctx.check(ok, "R01.10", "compileSubroutine:implicit-return-none", f"Return() without value must be appended exactly when the body has no return and is of type none (guards {gs})", f"{f.module.rel}:{c.lineno}", fact={"guards": gs})
        else:
            ok = has_ret and ("ast.type_of() == TealType.none", False) in gs and u(c.args[0]) == f.params()[0]
            ctx.check(ok, "R01.10", "compileSubroutine:implicit-return-value", f"Return(ast) must wrap the body exactly when it has no return and produces a value (guards {gs})", f"{f.module.rel}:{c.lineno}", fact={"guards": gs})
    # the Seq keeps the body first, the Return last
    seqs = [c for c in q.calls_named(f.node, "Seq", into_nested=False)]
    body_param = f.params()[0]
    ret_names = {n.targets[0].id for n in walk_local(f.node) if isinstance(n, ast.Assign) and isinstance(n.targets[0], ast.Name) and isinstance(n.value, ast.Call) and q.last_name(n.value) == "Return"}
    lst = seqs[0].args[0] if len(seqs) == 1 and seqs[0].args and isinstance(seqs[0].args[0], ast.List) else None
    ctx.check(lst is not None and len(lst.elts) == 2 and u(lst.elts[0]) == body_param and isinstance(lst.elts[1], ast.Name) and lst.elts[1].id in ret_names, "R01.10", "compileSubroutine:body-then-return", "the implicit Return must follow the body", f.where, fact={"seq": [u(s) for s in seqs]})
    # the lowered graph is the (possibly wrapped) ast
    teals = [c for c in q.calls_named(f.node, "__teal__", into_nested=False) if u(c.func.value) == "ast"]
    ctx.check(len(teals) == 1 and all(r.lineno < teals[0].lineno for r in rets), "R01.10", "compileSubroutine:lower-after-wrap", "ast.__teal__ must be called after the implicit Return was added", f.where, fact={})
    t = ctx.model.find_func("TealBlock.isTerminal", "pyteal.ir.tealblock")
    ops = sorted({n.attr for n in ast.walk(t.node) if isinstance(n, ast.Attribute) and u(n.value) == "Op"})
    ctx.check(ops == ["err", "retsub", "return_"], "R01.10", "TealBlock.isTerminal:ops", f"terminal ops must be exactly return, retsub, err; found {ops}", t.where, fact={"ops": ops})
    rl = [r for r in q.returns_of(t.node)]
    ctx.check(any("len(self.getOutgoing()) == 0" in u(r.value) for r in rl), "R01.10", "TealBlock.isTerminal:no-successor", "a block without successors is terminal", t.where, fact={})
    ctx.require_min("R01.10", 6)


def r01_11_loop_stack(ctx):
    ctx.rule("R01.11", "CompileOptions keeps the pending Break/Continue blocks per loop nesting level with LIFO discipline: enterLoop pushes a fresh list on both stacks, registrations go to the innermost level ([-1]) of the matching stack, exitLoop pops the innermost level of both and returns (breaks, continues)")
    c = ctx.model.find_class("CompileOptions", "pyteal.compiler.compiler")
    stacks = {"break": "breakBlocksStack", "continue": "continueBlocksStack"}
    meths = {"enterLoop": None, "addLoopBreakBlock": "break", "addLoopContinueBlock": "continue", "exitLoop": None}
    for mname, which in meths.items():
        m = q.need(c.methods.get(mname), f"CompileOptions.{mname} vanished")
        ctx.analysed(m.fq)
        subs = [n for n in walk_local(m.node) if isinstance(n, ast.Subscript) and isinstance(n.value, ast.Attribute) and n.value.attr in stacks.values()]
        for sub in subs:
            ctx.check(u(sub.slice) == "-1", "R01.11", f"CompileOptions.{mname}:innermost", f"`{u(sub)}`: the innermost loop is the last element ([-1])", f"{m.module.rel}:{sub.lineno}", fact={"index": u(sub.slice)})
        pops = [x for x in q.calls_named(m.node, "pop") if isinstance(x.func.value, ast.Attribute) and x.func.value.attr in stacks.values()]
        for p_ in pops:
            ctx.check(not p_.args and mname == "exitLoop", "R01.11", f"CompileOptions.{mname}:pop-last", f"`{u(p_)}`: only exitLoop may pop, and it pops the last level", f"{m.module.rel}:{p_.lineno}", fact={})
        apps = [x for x in q.calls_named(m.node, "append")]
        if mname == "enterLoop":
            tg = sorted(u(x.func.value) for x in apps)
            ctx.check(tg == ["self.breakBlocksStack", "self.continueBlocksStack"] and all(u(x.args[0]) == "[]" for x in apps), "R01.11", "CompileOptions.enterLoop:push-both", f"enterLoop must push a fresh empty list on both stacks; it appends to {tg}", m.where, fact={"appends": tg})
        elif which:
            tg = [u(x.func.value) for x in apps]
            ctx.check(tg == [f"self.{stacks[which]}[-1]"] and u(apps[0].args[0]) == m.params()[1], "R01.11", f"CompileOptions.{mname}:right-stack", f"{mname} must append its block to self.{stacks[which]}[-1]; it appends to {tg}", m.where, fact={"appends": tg})
        else:
            rets = q.returns_of(m.node)
            ok = len(rets) == 1 and isinstance(rets[0].value, ast.Tuple) and [u(e) for e in rets[0].value.elts] == ["self.breakBlocksStack.pop()", "self.continueBlocksStack.pop()"]
            ctx.check(ok, "R01.11", "CompileOptions.exitLoop:returns-breaks-continues", f"exitLoop must return (breaks, continues) popped from the two stacks; returns {[u(r.value) for r in rets]}", m.where, fact={})
            ctx.check(not apps, "R01.11", "CompileOptions.exitLoop:no-append", "exitLoop must not push", m.where, fact={})
    ctx.require_min("R01.11", 7)


def r01_12_maybe_value(ctx):
    ctx.rule("R01.12", "MaybeValue follows the AVM convention of `..._get` ops (value below, did-exist flag on top): output types [T, uint64], value() / slotValue read output slot 0, hasValue() / slotOk read output slot 1; every op used through MaybeValue pushes exactly (value, uint64 flag)")
    c = ctx.model.find_class("MaybeValue", "pyteal.ast.maybe")
    init = c.methods["__init__"]
    types = [d for d in q.assigns_to(init.node, "types")]
    ctx.check(len(types) == 1 and u(types[0]) == f"[{init.params()[2]}, TealType.uint64]", "R01.12", "MaybeValue:types", f"output types must be [value type, uint64]; found {u(types[0]) if types else None}", init.where, fact={})
    want = {"value": ("0", "0"), "hasValue": ("1", "1"), "slotValue": ("0", None), "slotOk": ("1", None)}
    for name, (slot_i, type_i) in want.items():
        m = q.need(c.methods.get(name), f"MaybeValue.{name} vanished")
        rets = q.returns_of(m.node)
        txt = u(rets[0].value) if len(rets) == 1 else ""
        exp = f"self.output_slots[{slot_i}]" + (f".load(self.types[{type_i}])" if type_i is not None else "")
        ctx.check(txt == exp, "R01.12", f"MaybeValue.{name}", f"MaybeValue.{name} must be {exp}; found {txt}", m.where, fact={"returns": txt})
    S = get_sites(ctx.model)
    n = 0
    for site in S.factory_sites:
        if site.cls.name != "MaybeValue":
            continue
        for op in site.ops:
            sig = S.sig(op)
            if sig is None:
                continue
            n += 1
            ctx.check(len(sig["pushes"]) == 2 and sig["pushes"][1] == "u", "R01.12", f"{site.construct}:{op}:pushes", f"'{S.teal_name(op)}' pushes {sig['pushes']}; a MaybeValue op must push (value, uint64 flag)", site.where, fact={"pushes": sig["pushes"]})
    ctx.require_min("R01.12", 20)


def r01_4e_flatten_traces(ctx):
    import collections
    from rules.graphcommon import GraphWorld, bounded_traces, flat_traces, reachable
    from sa.minieval import Raised, Unknown, Sym

    ctx.rule("R01.4e", "flattenBlocks preserves the program: for branch / loop / early-exit shaped graphs, listed in several orders (entry first), the flattened component list - labels, b / bz / bnz and fall-through interpreted by a small reference machine - has exactly the executions of the block graph (op sequences with the branch taken at every condition), every branch targets a label defined once, and no non-PyTeal exception escapes")
    f = ctx.model.find_func("flattenBlocks", "pyteal.compiler.flatten")
    ctx.analysed(f.fq)
    shapes = {k: v for k, v in GRAPHS.items()}
    shapes["conditional whose arms are both far away"] = {"c": (["int 1"], ["t", "e"]), "m": (["int 9", "return_"], []), "t": (["int 2", "return_"], []), "e": (["int 3", "return_"], [])}
    shapes["both arms to the same block, not the next one"] = {"c0": (["int 0"], ["c", "x"]), "c": (["int 1"], ["j", "j"]), "x": (["int 9", "return_"], []), "j": (["int 1", "return_"], [])}
    shapes["empty then-arm at the end of a loop body"] = {"h": (["int 1"], ["b", "x"]), "b": (["int 5", "pop", "int 2"], ["h", "h"]), "x": (["int 1", "return_"], [])}
    shapes["loop with continue from a nested if"] = {"i": (["int 0", "store 1"], ["h"]), "h": (["load 1"], ["a", "x"]), "a": (["int 5"], ["b", "st"]), "b": (["int 6"], ["st", "w"]), "w": (["int 7", "pop"], ["st"]), "st": (["load 1", "store 1"], ["h"]), "x": (["int 1", "return_"], [])}
    for name, spec in shapes.items():
        names = list(spec)
        orders = {"as written": names, "rest reversed": names[:1] + names[1:][::-1], "rest rotated": names[:1] + names[2:] + names[1:2]}
        for oname, order in orders.items():
            W = GraphWorld(ctx)
            blocks = W.build(spec)
            entry = blocks[names[0]]
            for b in blocks.values():
                b.attrs.setdefault("_sframes_container", None)
            want = bounded_traces(entry)

            def extra(e, me):
                t = u(e)
                if t == "defaultdict":
                    return collections.defaultdict
                if t == "LabelReference":
                    return lambda nm: Sym(f"label:{nm}")
                if t == "TealLabel":
                    return lambda expr, ref, *a, **k: Sym("LABEL", attrs={"ref": ref})
                raise Unknown()

            construct = f"flattenBlocks[{name}; {oname}]"
            try:
                val, _ = W.run(f.node, {"blocks": [blocks[n] for n in order]}, extra, f.fq)
            except Raised as r:
                ctx.bad("R01.4e", construct, f"dies with {r.exc_text[:70]} on a well-formed block list", f.where)
                continue
            try:
                got = flat_traces(list(val))
            except AnalysisError as e:
                ctx.bad("R01.4e", construct, str(e), f.where)
                continue
            ctx.check(got == want, "R01.4e", construct, f"executions differ: only in the graph {sorted(want - got)[:2]}, only in the flat code {sorted(got - want)[:2]}", f.where, fact={"executions": len(want), "components": len(val)})
    ctx.require_min("R01.4e", 40)


def r01_14_compile_subroutine(ctx):
    from rules.graphcommon import GraphWorld, bounded_traces, reachable
    from sa.minieval import Raised, Unknown, Sym, Rec

    ctx.rule("R01.14", "compileSubroutine keeps the routine's meaning: a body that does not return on every path gets exactly one return appended (with its value when it has one); in a routine with a deferred expression every retsub - alone in its block, first block or not, reached from one or several predecessors - is preceded by a fresh copy of the deferred code and nothing else changes; every subroutine referenced from the compiled graph is compiled exactly once and recorded in the call graph")
    f = ctx.model.find_func("compileSubroutine", "pyteal.compiler.compiler")
    ctx.analysed(f.fq)
    bodies = {
        "straight": {"a": (["int 1"], ["r"]), "r": (["retsub"], [])},
        "two returns": {"c": (["int 1"], ["t", "e"]), "t": (["int 2"], ["r1"]), "r1": (["retsub"], []), "e": (["int 3"], ["r2"]), "r2": (["retsub"], [])},
        "retsub is the first block": {"r": (["retsub"], [])},
        "one retsub block reached from both arms": {"c": (["int 1"], ["t", "e"]), "t": (["int 2"], ["r"]), "e": (["int 3"], ["r"]), "r": (["retsub"], [])},
        "return inside a loop and after it": {"h": (["int 1"], ["b", "x"]), "b": (["int 5"], ["r1", "h"]), "r1": (["retsub"], []), "x": (["int 7"], ["r2"]), "r2": (["retsub"], [])},
        "conditional start with retsub arm": {"c": (["int 1"], ["r1", "e"]), "r1": (["retsub"], []), "e": (["int 3"], ["r2"]), "r2": (["retsub"], [])},
    }
    deferreds = {"one block": [["load 9"]], "two blocks": [["load 9"], ["int 0", "pop"]], "none": None}

    def world():
        W = GraphWorld(ctx)
        return W

    def expr_from_spec(W, spec, name, has_return, ttype="none"):
        def teal(options, spec=spec):
            blocks = W.build(spec)
            for b in blocks.values():
                b.attrs.setdefault("_sframes_container", None)
            names = list(spec)
            ends = [n for n in names if not spec[n][1]]
            return blocks[names[0]], blocks[ends[-1]]

        return Sym(name, attrs={"$isa": {"Expr"}, "trace": None}, methods={"__teal__": teal, "has_return": lambda: has_return, "type_of": lambda: f"TealType.{ttype}"})

    def chain_expr(W, oplists, name):
        def teal(options):
            spec = {f"d{k}": (ops, [f"d{k + 1}"] if k + 1 < len(oplists) else []) for k, ops in enumerate(oplists)}
            blocks = W.build(spec)
            for b in blocks.values():
                b.attrs.setdefault("_sframes_container", None)
            return blocks["d0"], blocks[f"d{len(oplists) - 1}"]

        return Sym(name, attrs={"$isa": {"Expr"}, "trace": None}, methods={"__teal__": teal, "has_return": lambda: False, "type_of": lambda: "TealType.none"})

    def run(W, ast_sym, extra_names=None):
        options = Sym("options", attrs={"use_frame_pointers": False, "version": 8}, methods={"setSubroutine": lambda s: options.attrs.__setitem__("currentSubroutine", s)})
        graph, starts, ends = {}, {}, {}

        def extra(e, me):
            t = u(e)
            if t == "compileSubroutine":
                return lambda *a: me.call_def(f.node, list(a), {}, {})
            if t == "TealType":
                return Sym("TealType", attrs={k: f"TealType.{k}" for k in ("none", "uint64", "bytes", "anytype")})
            if t == "Return":
                def mk(value=None):
                    def teal(options, value=value):
                        blk = W.build({"ret": (["retsub" if options.attrs.get("currentSubroutine") is not None else "return_"], [])})["ret"]
                        blk.attrs.setdefault("_sframes_container", None)
                        if value is None:
                            return blk, blk
                        vs, ve = value.methods["__teal__"](options)
                        ve.methods["setNextBlock"](blk)
                        return vs, blk
                    return Sym("Return(...)", attrs={"$isa": {"Expr"}, "trace": None}, methods={"__teal__": teal, "has_return": lambda: True, "type_of": lambda: "TealType.none"})
                return mk
            if t == "Seq":
                def mk(items):
                    def teal(options, items=items):
                        first = last = None
                        for it in items:
                            s_, e_ = it.methods["__teal__"](options)
                            if first is None:
                                first = s_
                            else:
                                last.methods["setNextBlock"](s_)
                            last = e_
                        return first, last
                    return Sym("Seq(...)", attrs={"$isa": {"Expr"}, "trace": None}, methods={"__teal__": teal, "has_return": lambda: items[-1].methods["has_return"](), "type_of": lambda: items[-1].methods["type_of"]()})
                return mk
            raise Unknown()

        W.run(f.node, {"ast": ast_sym, "options": options, "subroutineGraph": graph, "subroutine_start_blocks": starts, "subroutine_end_blocks": ends}, extra, f.fq)
        return graph, starts, ends

    # --- deferred code before every retsub
    for bname, spec in bodies.items():
        for dname, dops in deferreds.items():
            W = world()
            decl_attrs = {"deferred_expr": chain_expr(W, dops, "deferred") if dops else None}
            sub = Sym("sub", attrs={"id": 1})
            decl = expr_from_spec(W, spec, "declaration", True)
            decl.attrs.update({"$isa": {"Expr", "SubroutineDeclaration"}, "subroutine": sub, **decl_attrs})
            sub.methods["get_declaration_by_option"] = lambda fp, decl=decl: decl
            construct = f"compileSubroutine[{bname}; deferred: {dname}]"
            Wref = world()
            flat = [o for ops in (dops or []) for o in ops]
            ref_spec = {k: ((flat + ops) if "retsub" in ops else ops, succ) for k, (ops, succ) in spec.items()}
            want = bounded_traces(Wref.build(ref_spec)[next(iter(spec))], 30)
            try:
                graph, starts, ends = run(W, decl)
            except Raised as r:
                ctx.bad("R01.14", construct, f"dies with {r.exc_text[:70]}", f.where)
                continue
            st = starts.get(sub)
            if not isinstance(st, Sym):
                ctx.bad("R01.14", construct, "the routine's start block is not recorded", f.where)
                continue
            got = bounded_traces(st, 30)
            ctx.check(got == want, "R01.14", construct, f"executions differ: expected only {sorted(want - got)[:2]}, produced only {sorted(got - want)[:2]}", f.where, fact={"executions": len(want)})
    # --- a body that does not return gets its return
    for ttype, has_ret, in_sub in (("none", False, True), ("uint64", False, True), ("none", False, False), ("uint64", False, False), ("none", True, True)):
        W = world()
        spec = {"a": (["int 1", "pop"] if ttype == "none" else ["int 1"], [])} if not has_ret else {"a": (["int 1", "pop"], ["r"]), "r": (["retsub"], [])}
        body = expr_from_spec(W, spec, "body", has_ret, ttype)
        sub = Sym("sub", attrs={"id": 1}) if in_sub else None
        if in_sub:
            body.attrs.update({"$isa": {"Expr", "SubroutineDeclaration"}, "subroutine": sub, "deferred_expr": None})
            sub.methods["get_declaration_by_option"] = lambda fp, body=body: body
        construct = f"compileSubroutine[{'subroutine' if in_sub else 'main'}, body of type {ttype}, {'returns' if has_ret else 'falls through'}]"
        try:
            graph, starts, ends = run(W, body)
        except Raised as r:
            ctx.bad("R01.14", construct, f"dies with {r.exc_text[:70]}", f.where)
            continue
        got = bounded_traces(starts[sub], 30)
        base = tuple(spec["a"][0])
        want = {base + (("retsub",) if in_sub else ("return_",))}
        ctx.check(got == want, "R01.14", construct, f"produces {sorted(got)}; expected {sorted(want)}", f.where, fact={})
    # --- referenced subroutines are compiled once each and recorded
    W = world()
    subs = {k: Sym(f"sub{k}", attrs={"id": k}) for k in (1, 2, 3)}
    calls = {None: [1, 2], 1: [2, 3], 2: [1], 3: []}

    def mk_decl(k):
        def teal(options, k=k):
            blocks = W.build({"a": (["int 1", "pop"], ["r"]), "r": (["retsub" if k is not None else "return_"], [])})
            for b in blocks.values():
                b.attrs.setdefault("_sframes_container", None)
            for callee in calls[k]:
                op = W.op("callsub")
                op.methods["getSubroutines"] = lambda callee=callee: [subs[callee]]
                blocks["a"].attrs["ops"].append(op)
            return blocks["a"], blocks["r"]

        d = Sym(f"decl{k}", attrs={"$isa": {"Expr"} | ({"SubroutineDeclaration"} if k is not None else set()), "trace": None, "deferred_expr": None, "subroutine": subs.get(k)}, methods={"__teal__": teal, "has_return": lambda: True, "type_of": lambda: "TealType.none"})
        return d

    counts = {}
    for k, sdef in subs.items():
        d = mk_decl(k)
        sdef.methods["get_declaration_by_option"] = (lambda d, k: lambda fp: (counts.__setitem__(k, counts.get(k, 0) + 1), d)[1])(d, k)
    try:
        graph, starts, ends = run(W, mk_decl(None))
        ok = set(starts) == {None, subs[1], subs[2], subs[3]} and {k: set(v) for k, v in graph.items()} == {subs[1]: {subs[2], subs[3]}, subs[2]: {subs[1]}, subs[3]: set()}
        ctx.check(ok, "R01.14", "compileSubroutine[call graph main->{1,2}, 1->{2,3}, 2->{1}]", f"compiled routines {sorted(repr(k) for k in starts)}; call graph {{{', '.join(f'{k!r}: {sorted(map(repr, v))}' for k, v in graph.items())}}}", f.where, fact={"routines": len(starts)})
    except Raised as r:
        ctx.bad("R01.14", "compileSubroutine[call graph]", f"dies with {r.exc_text[:70]}", f.where)
    ctx.require_min("R01.14", 20)


def r01_13_is_terminal(ctx):
    from rules.graphcommon import GraphWorld
    from sa.minieval import Raised

    ctx.rule("R01.13", "isTerminal is a property of the block's content: a block holding return / retsub / err at any position (alone, last, or followed by comment ops or unreachable code) is terminal whatever its successors; a block without one is terminal exactly when it has no successor")
    tb = ctx.model.find_class("TealBlock", "pyteal.ir.tealblock")
    ctx.analysed(tb.methods["isTerminal"].fq)
    cases = []
    for term in ("return_", "retsub", "err"):
        for before in ([], ["int 1"]):
            for after in ([], ["comment note"], ["comment a", "comment b"], ["int 2", "pop"]):
                cases.append((before + [term] + after, True))
    cases += [(["int 1", "pop"], False), ([], False), (["comment only"], False), (["int 1", "assert_"], False)]
    for ops, has_term in cases:
        for succ in (0, 1, 2):
            W = GraphWorld(ctx)
            spec = {"b": (ops, ["x", "y"][:succ]), "x": (["int 1", "return_"], []), "y": (["int 0", "return_"], [])}
            blocks = W.build(spec)
            want = has_term or succ == 0
            try:
                got = blocks["b"].methods["isTerminal"]()
            except Raised as r:
                got = f"raises {r.exc_text[:40]}"
            ctx.check(got is want, "R01.13", f"isTerminal[{'; '.join(ops) or 'empty'},{succ} successor(s)]", f"isTerminal() is {got}; the block {'holds a terminator' if has_term else 'holds no terminator'} and has {succ} successor(s), so it must be {want}", tb.methods["isTerminal"].where, fact={"terminal": want})
    ctx.require_min("R01.13", 80)


GRAPHS = {
    "chain of three": {"a": (["int 1"], ["b"]), "b": (["pop"], ["c"]), "c": (["int 1", "return_"], [])},
    "empty start then code": {"s": ([], ["a"]), "a": (["int 1", "return_"], [])},
    "if-else with empty join": {"c": (["int 1"], ["t", "e"]), "t": (["int 2", "pop"], ["j"]), "e": (["int 3", "pop"], ["j"]), "j": ([], ["x"]), "x": (["int 1", "return_"], [])},
    "if without else, empty then": {"c": (["int 1"], ["t", "j"]), "t": ([], ["j"]), "j": ([], ["x"]), "x": (["int 1", "return_"], [])},
    "loop as first statement": {"s": ([], ["h"]), "h": (["int 1"], ["b", "x"]), "b": (["int 7", "pop"], ["h"]), "x": ([], ["r"]), "r": (["int 1", "return_"], [])},
    "loop whose body is empty": {"p": (["int 0", "pop"], ["h"]), "h": (["int 1"], ["b", "x"]), "b": ([], ["h"]), "x": (["int 1", "return_"], [])},
    "loop body only continue": {"h": (["int 1"], ["b", "x"]), "b": ([], ["k"]), "k": ([], ["h"]), "x": (["int 1", "return_"], [])},
    "nested empty ifs": {"c1": (["int 1"], ["c2", "j1"]), "c2": (["int 2"], ["t", "j2"]), "t": ([], ["j2"]), "j2": ([], ["j1"]), "j1": ([], ["c3"]), "c3": (["int 3"], ["u_", "j3"]), "u_": ([], ["j3"]), "j3": ([], ["x"]), "x": (["int 1", "return_"], [])},
    "both arms to the same block": {"c": (["int 1"], ["j", "j"]), "j": (["int 1", "return_"], [])},
    "both arms to the same empty block": {"c": (["int 1"], ["e", "e"]), "e": ([], ["x"]), "x": (["int 1", "return_"], [])},
    "for loop": {"i": (["int 0", "store 1"], ["h"]), "h": (["load 1"], ["b", "x"]), "b": (["int 5", "pop"], ["st"]), "st": (["load 1", "store 1"], ["h"]), "x": ([], ["r"]), "r": (["int 1", "return_"], [])},
    "early return arm": {"c": (["int 1"], ["r1", "n"]), "r1": (["int 0", "return_"], []), "n": ([], ["x"]), "x": (["int 1", "return_"], [])},
    "empty block chain": {"a": ([], ["b"]), "b": ([], ["c"]), "c": ([], ["d"]), "d": (["int 1", "return_"], [])},
    # one expression used in two arms at different depths: two blocks that compare equal are still two parents of the join
    "equal arms, one behind an empty block": {"c1": (["int 1"], ["c2", "s2"]), "c2": (["int 2"], ["s1", "o"]), "s1": (["int 9", "pop"], ["e1"]), "e1": ([], ["j"]), "o": (["int 8", "pop"], ["j"]), "s2": (["int 9", "pop"], ["j"]), "j": (["int 1", "return_"], [])},
    "equal branch blocks, one arm behind an empty block": {"c1": (["int 1"], ["c2", "c3"]), "c2": (["int 2"], ["e1", "o"]), "e1": ([], ["j"]), "c3": (["int 2"], ["j", "o"]), "o": (["int 8", "pop"], ["j"]), "j": (["int 1", "return_"], [])},
    "equal arms, both behind empty blocks": {"c1": (["int 1"], ["s1", "s2"]), "s1": (["int 9", "pop"], ["e1"]), "e1": ([], ["j"]), "s2": (["int 9", "pop"], ["e2"]), "e2": ([], ["j"]), "j": (["int 1", "return_"], [])},
}


def r01_6e_normalize(ctx):
    from rules.graphcommon import GraphWorld, traces, reachable
    from sa.minieval import Raised

    ctx.rule("R01.6e", "NormalizeBlocks preserves the program: on branch / loop / empty-block shaped graphs (built from the repository's own block classes, with addIncoming and validateTree interpreted as compileSubroutine calls them) the set of op traces from the returned start equals the set from the original start, and the parent pointers validate afterwards")
    tb = ctx.model.find_class("TealBlock", "pyteal.ir.tealblock")
    ctx.analysed(tb.methods["NormalizeBlocks"].fq, tb.methods["addIncoming"].fq, tb.methods["validateTree"].fq, tb.methods["Iterate"].fq)
    for name, spec in GRAPHS.items():
        W = GraphWorld(ctx)
        blocks = W.build(spec)
        start = blocks[next(iter(spec))]
        before = traces(start)
        construct = f"NormalizeBlocks[{name}]"
        try:
            start.methods["addIncoming"]()
            start.methods["validateTree"]()
            new_start = W.class_sym("TealBlock").methods["NormalizeBlocks"](start)
            new_start.methods["validateTree"]()
        except Raised as r:
            ctx.bad("R01.6e", construct, f"the pass dies with {r.exc_text[:60]} on a well-formed graph", tb.methods["NormalizeBlocks"].where)
            continue
        after = traces(new_start)
        ok = after == before
        ctx.check(ok, "R01.6e", construct, f"traces changed: lost {sorted(before - after)[:2]}, gained {sorted(after - before)[:2]}", tb.methods["NormalizeBlocks"].where, fact={"blocks_before": len(spec), "blocks_after": len(reachable(new_start)), "traces": len(before)})
    ctx.require_min("R01.6e", 10)


# accessors whose name is the long form of their field member's name (confirmed by reading: CurrentApplicationID / ...Address)
ACCESSOR_RENAMES = {("Global", "current_application_id"): "current_app_id", ("Global", "current_application_address"): "current_app_address"}


def r01_16_field_accessors(ctx):
    ctx.rule("R01.16", "a transaction / global accessor reads the field it is named after: every method of TxnObject and Global that builds its expression from one member of TxnField / GlobalField uses the member of its own name, and no two members of a field enumeration carry the same TEAL field name")
    n = 0
    for cname, module, enum in (("TxnObject", "pyteal.ast.txn", "TxnField"), ("Global", "pyteal.ast.global_", "GlobalField")):
        c = ctx.model.find_class(cname, module)
        for nm, f in c.methods.items():
            members = sorted({x.attr for x in ast.walk(f.node) if isinstance(x, ast.Attribute) and isinstance(x.value, ast.Name) and x.value.id == enum})
            if len(members) != 1:
                continue
            n += 1
            want = ACCESSOR_RENAMES.get((cname, nm), nm)
            ctx.check(members[0] == want, "R01.16", f"{cname}.{nm}", f"{cname}.{nm}() reads {enum}.{members[0]}; it is the accessor of {enum}.{want}", f.where, fact={"field": members[0]})
    q.need(n >= 70, f"only {n} single-field accessors found in TxnObject / Global")
    # field names are unique inside an enumeration
    from sa.tables import field_enum

    for ename in ("TxnField", "GlobalField", "AccountParamField", "VoterParamField", "BlockField"):
        try:
            rows = field_enum(ctx.model, ename)
        except AnalysisError:
            continue
        seen = {}
        for member, row in rows.items():
            name = row.get("name")
            if name in seen:
                ctx.bad("R01.16", f"{ename}.{member}:name", f"{ename}.{member} and {ename}.{seen[name]} both carry the TEAL field name `{name}`: one of the two accessors reads the other's field", ctx.model.find_class(ename).where)
            else:
                seen[name] = member
                ctx.instances["R01.16"] = ctx.instances.get("R01.16", 0) + 1
    ctx.require_min("R01.16", 100)


def run(ctx):
    r01_3_wiring(ctx)
    r01_1_operands(ctx)
    r01_4_flatten(ctx)
    r01_5_sort(ctx)
    r01_6_root_rebinding(ctx)
    r01_6e_normalize(ctx)
    r01_13_is_terminal(ctx)
    r01_4e_flatten_traces(ctx)
    r01_14_compile_subroutine(ctx)
    r01_16_field_accessors(ctx)
    from rules import c04 as _c04c

    _c04c.r04_5_final_sweep(ctx)  # an expression that needs an op the program version lacks is refused, not emitted (shared with C04)
    _c04c.r04_2_field_tables(ctx)  # the field an accessor names exists, with that type, from the program version at which the accessor is accepted: otherwise the emitted op cannot run at all at an accepted version (shared with C04)
    from rules import c04 as _c04b

    _c04b.r04_4_immediates(ctx)  # a constant operand is written as an immediate only where it fits the encoding; otherwise the stack form denotes the same value (shared with C04)
    from rules.lowering_sem import r01_3e_constructs, r01_15_pipeline

    r01_3e_constructs(ctx)
    r01_15_pipeline(ctx)
    r01_7_replace_total(ctx)
    r01_8_api_ops(ctx)
    r01_10_routine_epilogue(ctx)
    r01_11_loop_stack(ctx)
    r01_12_maybe_value(ctx)
    from rules import c03 as _c03, c10 as _c10

    # scratch variables are part of the denoted semantics: the allocator must not alias them and the optimiser must not change them
    _c10.r10_1_assignment(ctx)
    _c03.r03_1_skip_set(ctx)
    _c03.r03_1b_slot_classes(ctx)
    _c03.r03_2_dependency_scan(ctx)
    _c03.r03_3_cancellation(ctx)
    from rules import c02 as _c02s

    _c02s.r02_3_spill(ctx)  # a recursive call returns the callee's value, not a restored local (shared with C02)
    return (
        "Def-use edge facts of every control construct's __teal__ compared with a reference lowering (R01.3); operand order/arity at "
        "emission sites and factories (R01.1); finite abstract evaluation of flattenBlocks' branch emission over all successor "
        "configurations (R01.4); sortBlocks/NormalizeBlocks/replaceOutgoing invariants (R01.5-7); frozen API->op table and operator "
        "overloads (R01.8); implicit Return and terminator set (R01.10). Behaviour over inputs is not decided."
    )
