"""C01 - compiled TEAL computes what the expression denotes (structural, necessary clauses)."""
from __future__ import annotations

import ast
import re

from sa.astutil import u
from sa.edges import canon_match, extract, flatten
from sa.model import AnalysisError
from sa.pe import PE
from spec import lowering


def _children(facts):
    out = set()
    for f in facts:
        for part in f:
            for m in re.finditer(r"[SE]\(([^()]*(?:\([^()]*\)[^()]*)*)\)", part):
                out.add(m.group(1))
    return out


def r01_3_wiring(ctx, only=None):
    ctx.rule("R01.3", "block wiring of each control construct (def-use edge facts of its __teal__) equals the reference lowering, per scenario")
    pe = PE(ctx.model)
    for name, spec in lowering.CONSTRUCTS.items():
        if only and name not in only:
            continue
        qual, mod = spec["func"]
        f = ctx.model.find_func(qual, mod)
        ctx.analysed(f.fq)
        res = pe.run(f, pe.symbolic_env(f, f.cls is not None), attrs={}, self_cls=f.cls)
        facts = extract(res)
        for sc_name, scenario, reference in spec["scenarios"]:
            actual = flatten(facts, scenario)
            ok, missing, extra, renamed = canon_match(actual, reference)
            construct = f"{qual}[{sc_name}]"
            if not ok:
                unknown = _children(renamed) - _children(reference)
                known_missing = _children(reference) - _children(renamed)
                if unknown and known_missing:
                    raise AnalysisError(f"{construct}: child expressions {sorted(unknown)} are not in the reference vocabulary {sorted(_children(reference))} (renamed attribute?)")
            ctx.check(
                ok,
                "R01.3",
                construct,
                f"wiring differs from the reference lowering ({spec['doc']}): missing {sorted(missing)}; unexpected {sorted(extra)}",
                f.where,
                fact=sorted(map(list, renamed)),
                detail={"missing": sorted(map(list, missing)), "extra": sorted(map(list, extra))},
            )
    ctx.require_min("R01.3", 14 if not only else 1)


def run(ctx):
    r01_3_wiring(ctx)
    return (
        "Def-use edge facts of every control construct's __teal__ compared with a reference lowering; operand order/arity at emission "
        "sites; pattern rules on NormalizeBlocks/sortBlocks/flattenBlocks/replaceOutgoing. Behaviour over inputs is not decided."
    )


# ------------------------------------------------------------------------------------------
from rules.emitcommon import get_sites  # noqa: E402

# ops whose FromOp operand count legitimately differs from the op's pops, one line of reason each
ARITY_JUSTIFIED = {
    "retsub": "retsub pops nothing: the optional operand is the routine's return value, left on the stack for the caller",
    "callsub": "callsub's stack effect is the callee's: the operands are the callee's arguments",
}


# (construct, op) whose operand count/order is justified by reading, one line of reason each
SITE_JUSTIFIED = {
    ("class ScratchStackStore", "store"): "stack store: consumes the value the preceding multi-value op left on the stack (only built by MultiValue / ScratchSlot.store() without value, which C05 excludes)",
    ("ScratchSlot.store->ScratchStackStore", "store"): "same: the raw stack-store escape hatch",
}
ORDER_JUSTIFIED = {
    "class ScratchStore:stores:order": "index_expression is a trailing optional constructor parameter; `stores` takes the slot index below the value, and every caller passes it by keyword",
}


def r01_1_operands(ctx):
    ctx.rule("R01.1", "every op expression passes exactly the op's stack operands, in the order of the public factory's parameters")
    S = get_sites(ctx.model)
    for site in S.class_sites + S.factory_sites:
        if site.operands is None:
            continue
        ctx.analysed(site.em.func.fq)
        for op in site.ops:
            if op.startswith("?"):
                continue
            sig = S.sig(op)
            if sig is None:
                continue
            construct = f"{site.construct}:{op}"
            if op in ARITY_JUSTIFIED or (site.construct, op) in SITE_JUSTIFIED:
                ctx.ok("R01.1", construct, {"justified": ARITY_JUSTIFIED.get(op) or SITE_JUSTIFIED[(site.construct, op)]}, site.where)
                continue
            for alt in site.operands:
                if any(o.kind == "star" for o in alt):
                    continue
                # operands typed none (Comment) contribute nothing to the stack
                eff = [o for o in alt if S.nested_type(o, site.em.res) != "none"]
                ctx.check(
                    len(eff) == len(sig["pops"]),
                    "R01.1",
                    construct,
                    f"op '{S.teal_name(op)}' pops {len(sig['pops'])} value(s) but the site supplies {len(eff)}: {[o.text for o in eff]}",
                    site.where,
                    fact={"op": op, "operands": [o.text for o in eff]},
                )
                # order: parameters of the entry point must be forwarded in increasing position
                entry_params = None
                if site.level == "factory" and site.entry is not None:
                    entry_params = [p.lstrip("*") for p in site.entry.all_params()]
                    if site.entry.cls is not None and "staticmethod" not in site.entry.decorators() and entry_params:
                        entry_params = entry_params[1:]
                else:
                    init = ctx.model.resolve_method(site.cls, "__init__")
                    if init is not None:
                        entry_params = [p.lstrip("*") for p in init.all_params()][1:]
                if entry_params is None:
                    continue
                pos = []
                for o in eff:
                    if o.kind == "param" and o.param is not None and o.param.lstrip("*") in entry_params:
                        pos.append((entry_params.index(o.param.lstrip("*")), o.sub if o.sub is not None else -1))
                if len(pos) >= 2 and construct + ":order" in ORDER_JUSTIFIED:
                    ctx.ok("R01.1", construct + ":order", {"justified": ORDER_JUSTIFIED[construct + ":order"]}, site.where)
                elif len(pos) >= 2:
                    ctx.check(
                        all(a < b for a, b in zip(pos, pos[1:])),
                        "R01.1",
                        construct + ":order",
                        f"stack operands {[o.text for o in eff]} are not in the order of the parameters {entry_params}",
                        site.where,
                        fact={"operands": [o.text for o in eff], "params": entry_params},
                    )
    ctx.require_min("R01.1", 150)


_run_wiring_only = run


def run(ctx):  # noqa: F811
    r01_3_wiring(ctx)
    r01_1_operands(ctx)
    return (
        "Def-use edge facts of every control construct's __teal__ compared with a reference lowering; operand order/arity at emission "
        "sites; pattern rules on NormalizeBlocks/sortBlocks/flattenBlocks/replaceOutgoing. Behaviour over inputs is not decided."
    )
