"""C14 - inner method calls are marshalled per ARC-4 (structural clauses)."""
from __future__ import annotations

import ast
import itertools
import re

from sa import q
from sa.astutil import u, walk_local
from sa.minieval import MiniEval, Raised, Rec, Sym, Unknown, run_function, model_ctor_fields
from sa.model import AnalysisError
from rules.c19 import TypeWorld
from spec import arc4

CUTOFF = 15


ENUMINT = Sym("class:EnumInt", attrs={"classname": "EnumInt"})


def _strip(x):
    return re.sub(r"#\d+", "", repr(x))


def _world(ctx, kinds, variant):
    """kinds: list of 'plain' | 'account' | 'application' | 'asset' | 'txn:<kind>'; variant: 'abi' | 'expr' for the way reference/plain args are supplied"""
    TW = TypeWorld(ctx)
    specs, args = [], []
    TT = Sym("TealType", attrs={k: f"TealType.{k}" for k in ("uint64", "bytes", "none", "anytype")})
    for i, k in enumerate(kinds):
        if k == "plain":
            sp = TW.spec(("uint", 64))
            specs.append(sp)
            if variant == "abi":
                a = Sym(f"abi-value{i}", attrs={"$isa": {"BaseType"}}, methods={"type_spec": lambda sp=sp: sp, "encode": lambda i=i: Rec("name", f"ENC{i}")})
            else:
                a = Sym(f"expr{i}", attrs={"$isa": {"Expr"}}, methods={"type_of": lambda: TT.attrs["bytes"]})
            args.append(a)
        elif k in ("account", "application", "asset"):
            sp = TW.spec(("ref", k))
            specs.append(sp)
            if variant == "abi":
                cls = {"account": "Account", "application": "Application", "asset": "Asset"}[k]
                meth = {"account": "address", "application": "application_id", "asset": "asset_id"}[k]
                a = Sym(f"ref{i}", attrs={"$isa": {"BaseType", cls}}, methods={meth: (lambda i=i, k=k: Rec("name", f"{k.upper()}{i}")), "type_spec": lambda sp=sp: sp})
            else:
                # the expression a caller is most likely to pass: the current application's own id / address (a Global leaf);
                # for the ARC-4 callee index 0 means the callee itself, so this too must travel as a foreign reference
                looks = {"application": ("Global", "current_app_id"), "account": ("Global", "current_app_address")}.get(k)
                isa = {"Expr"} | ({"Global", "LeafExpr"} if looks else set())
                a = Sym(f"{k}-expr{i}", attrs={"$isa": isa}, methods={"type_of": lambda k=k: TT.attrs["bytes" if k == "account" else "uint64"]})
                if looks:
                    a.attrs["field"] = Rec("attr", Rec("name", "GlobalField"), looks[1])
            args.append(a)
        else:
            kind = k.split(":")[1]
            sp = TW.spec(("txn", kind))
            specs.append(sp)
            ei = Sym(f"enumint:{kind if kind != 'txn' else 'pay'}", attrs={"name": kind if kind != "txn" else "pay", "$type": ENUMINT})
            args.append({"TXNFIELD.type_enum": ei, "TXNFIELD.amount": Rec("name", f"AMOUNT{i}")})
    return TW, specs, args, TT


def r14_1_marshalling(ctx):
    ctx.rule("R14.1", "InnerTxnBuilder.MethodCall marshals per ARC-4: selector first, plain arguments in order, account/application arguments as 1-based index into the foreign array after appending, asset arguments as 0-based index, every index one uint8 byte; transaction arguments become preceding transactions, each followed by itxn_next, before the call's own fields; at most 15 arguments besides the selector")
    f = ctx.model.find_func("InnerTxnBuilder.MethodCall", "pyteal.ast.itxn")
    rt = ctx.model.find_func("require_type", "pyteal.types")
    ctx.analysed(f.fq)
    shapes = {
        "no args": [], "3 plain": ["plain"] * 3,
        "account, plain, account": ["account", "plain", "account"],
        "asset, asset, application": ["asset", "asset", "application"],
        "application x2, asset, account x3": ["application", "application", "asset", "account", "account", "account"],
        "txn, plain, txn": ["txn:pay", "plain", "txn:axfer"],
        "generic txn + refs": ["txn:txn", "account", "asset", "plain"],
        "15 plain": ["plain"] * 15,
        "16 plain": ["plain"] * 16,
        "18 plain": ["plain"] * 18,
        "13 plain + account, application, asset (16 application arguments)": ["plain"] * 13 + ["account", "application", "asset"],
        "12 plain + account, application, asset (15 application arguments)": ["plain"] * 12 + ["account", "application", "asset"],
        "16 plain + 2 transactions": ["txn:pay"] + ["plain"] * 16 + ["txn:axfer"],
    }
    for sname, kinds in shapes.items():
        for variant in ("abi", "expr"):
            for with_app in (True, False):
                TW, specs, args, TT = _world(ctx, kinds, variant)
                txn_specs = [s for s in specs if s.attrs["shape"][0] == "txn"]
                ref_specs = [s for s in specs if s.attrs["shape"][0] == "ref"]
                all_txn_specs = [TW.spec(("txn", k)) for k in arc4.TXN_KINDS]
                all_ref_specs = [TW.spec(("ref", k)) for k in arc4.REF_KINDS]
                TxnField = Sym("TxnField", attrs={k: f"TXNFIELD.{k}" for k in ("type_enum", "application_id", "accounts", "applications", "assets", "application_args", "amount")})
                abi_sym = Sym("abi", attrs={"TransactionTypeSpecs": all_txn_specs, "ReferenceTypeSpecs": all_ref_specs, "BaseType": Rec("name", "abi.BaseType"), "Account": Rec("name", "abi.Account"), "Application": Rec("name", "abi.Application"), "Asset": Rec("name", "abi.Asset"),
                                             "AccountTypeSpec": Rec("name", "abi.AccountTypeSpec"), "ApplicationTypeSpec": Rec("name", "abi.ApplicationTypeSpec"), "AssetTypeSpec": Rec("name", "abi.AssetTypeSpec"),
                                             "TransactionTypeSpec": (lambda: TW.spec(("txn", "txn")))},
                              methods={"type_specs_from_signature": lambda sig: (list(specs), None), "type_spec_from_algosdk": lambda name: TW.spec(("txn", name))})
                cls_sym = Sym("InnerTxnBuilder", methods={"SetField": lambda fld, val: Rec("call", Rec("name", "SetField"), [fld, val], {}), "SetFields": lambda d: Rec("call", Rec("name", "SetFields"), [d], {}), "Next": lambda: Rec("name", "NEXT")})

                def oracle(e, me):
                    t = u(e)
                    if t == "abi":
                        return abi_sym
                    if t == "TxnField":
                        return TxnField
                    if t == "TealType":
                        return TT
                    if t == "InnerTxnBuilder":
                        return cls_sym
                    if t == "TxnType":
                        return Sym("TxnType", attrs={"ApplicationCall": Rec("name", "TxnType.ApplicationCall")})
                    if t == "EnumInt":
                        return ENUMINT
                    if isinstance(e, ast.Call) and u(e.func) == "algosdk.abi.ABIType.from_string":
                        ty = me.ev(e.args[0])
                        return Sym("abitype", methods={"encode": lambda n, ty=ty: ("ENC", ty, n)})
                    if isinstance(e, ast.Call) and u(e.func) == "type_spec_is_assignable_to":
                        return True
                    raise Unknown()

                def setup(me):
                    me.expr_compare = True

                    def isa(v, cname):
                        cname = cname.split(".")[-1]
                        if isinstance(v, Sym) and "$isa" in v.attrs:
                            return cname in v.attrs["$isa"]
                        if isinstance(v, Rec):
                            return cname == "Expr"
                        if isinstance(v, dict):
                            return cname == "dict"
                        return None

                    me.isinstance_hook = isa

                construct = f"MethodCall[{sname},{variant},{'app' if with_app else 'create'}]"
                app_id = Sym("appid-expr", attrs={"$isa": {"Expr"}}, methods={"type_of": lambda: TT.attrs["uint64"]}) if with_app else None
                try:
                    val, _ = run_function(f.node, {"cls": cls_sym, "app_id": app_id, "method_signature": "m(sig)void", "args": list(args), "extra_fields": None}, oracle, f.fq, permissive=True, resolver=lambda nm: rt.node if nm == "require_type" else None, setup=setup)
                except Raised as r:
                    n_plain = sum(1 for k in kinds if not k.startswith("txn"))
                    if n_plain > 15 and "TealInputError" in r.exc_text:
                        # ARC-4 carries at most 15 arguments besides the selector; refusing a longer list is the sound answer of a
                        # builder that does not pack the tail into a tuple
                        ctx.ok("R14.1", construct, {"refused": r.exc_text[:80]}, f.where)
                    else:
                        ctx.bad("R14.1", construct, f"raises {r.exc_text[:70]}", f.where)
                    continue
                q.need(isinstance(val, Rec) and val.is_call("Seq"), f"{f.fq}: result is not a Seq")
                items = val.args
                problems = []
                # --- preceding transactions
                ntx = sum(1 for k in kinds if k.startswith("txn"))
                pre = items[:ntx]
                tx_args = [a for a, k in zip(args, kinds) if k.startswith("txn")]
                for j, (it, a) in enumerate(zip(pre, tx_args)):
                    ok = isinstance(it, Rec) and it.is_call("Seq") and len(it.args) == 2 and isinstance(it.args[0], Rec) and it.args[0].is_call("SetFields") and it.args[0].args[0] is a and _strip(it.args[1]) == "NEXT"
                    if not ok:
                        problems.append(f"transaction argument {j} is not lowered to Seq(SetFields(<its fields>), Next()) at position {j}: {_strip(it)[:80]}")
                rest = items[ntx:]
                fields = {}
                for it in rest:
                    if isinstance(it, Rec) and it.is_call("SetField"):
                        if it.args[0] in fields:
                            problems.append(f"field {it.args[0]} is set twice")
                        fields[it.args[0]] = it.args[1]
                if any(isinstance(it, Rec) and it.is_call("Seq") for it in rest):
                    problems.append("a transaction group element appears after the call's own fields")
                if _strip(fields.get("TXNFIELD.type_enum")) != "TxnType.ApplicationCall":
                    problems.append("the call is not typed as an application call")
                if with_app and fields.get("TXNFIELD.application_id") is not app_id:
                    problems.append("application_id is not the given app id")
                if not with_app and "TXNFIELD.application_id" in fields:
                    problems.append("application_id is set although app_id is None")
                app_args = fields.get("TXNFIELD.application_args")
                if not isinstance(app_args, list) or not app_args or not (isinstance(app_args[0], Rec) and app_args[0].is_call("MethodSignature") and app_args[0].args == ["m(sig)void"]):
                    problems.append(f"application_args does not start with the selector of the stated signature: {_strip(app_args)[:80]}")
                    app_args = app_args if isinstance(app_args, list) else []
                # --- expected argument list
                want, accts, apps, assets = [], [], [], []
                for i, (k, a) in enumerate(zip(kinds, args)):
                    if k == "plain":
                        want.append(f"ENC{i}" if variant == "abi" else a.name)
                    elif k == "account":
                        accts.append(f"ACCOUNT{i}" if variant == "abi" else a.name)
                        want.append(f"Bytes(('ENC', 'uint8', {len(accts)}))")
                    elif k == "application":
                        apps.append(f"APPLICATION{i}" if variant == "abi" else a.name)
                        want.append(f"Bytes(('ENC', 'uint8', {len(apps)}))")
                    elif k == "asset":
                        want.append(f"Bytes(('ENC', 'uint8', {len(assets)}))")
                        assets.append(f"ASSET{i}" if variant == "abi" else a.name)
                got = [_strip(x) if not isinstance(x, Sym) else x.name for x in app_args[1:]]
                n_plain_like = len(want)
                if n_plain_like <= CUTOFF:
                    if got != want:
                        problems.append(f"application arguments after the selector are {got[:6]}; ARC-4 says {want[:6]}")
                else:
                    if len(got) != CUTOFF:
                        problems.append(f"{n_plain_like} arguments are passed as {len(got)} application arguments; ARC-4 packs the 15th and later into one tuple (15 arguments besides the selector, 16 in total is the protocol limit)")
                for fld, lst in (("accounts", accts), ("applications", apps), ("assets", assets)):
                    v = fields.get(f"TXNFIELD.{fld}")
                    gotl = [(_strip(x) if not isinstance(x, Sym) else x.name) for x in v] if isinstance(v, list) else None
                    if lst and gotl != lst:
                        problems.append(f"foreign {fld} array is {gotl}; expected {lst} (the indices passed refer to these positions)")
                    if not lst and v is not None:
                        problems.append(f"foreign {fld} array is set although no such argument exists")
                key = construct
                if problems and any("packs the 15th" in p for p in problems) and len(problems) == 1:
                    key = f"MethodCall[more than 15 arguments,{variant}]"
                ctx.check(not problems, "R14.1", key, "; ".join(problems[:3]), f.where, fact={"application_args": got[:5], "pre": len(pre)})
    ctx.require_min("R14.1", 30)


def r14_2_argument_checks(ctx):
    ctx.rule("R14.2", "arguments that do not fit the signature are refused when the expression is built: wrong count, non-dict for a transaction, wrong transaction type, wrong Python kind for a reference, wrong ABI type")
    f = ctx.model.find_func("InnerTxnBuilder.MethodCall", "pyteal.ast.itxn")
    need = [
        ("argument-count", "len(args) == len(abi.type_specs_from_signature(method_signature)[0])", False, "TealInputError"),
        ("txn-must-be-dict", "isinstance(args[idx], dict)", False, "TealTypeError"),
        ("txn-needs-type", "TxnField.type_enum in args[idx]", False, "TealInputError"),
        ("txn-type-is-enum", "type(args[idx][TxnField.type_enum]) is EnumInt", False, "TealTypeError"),
    ]
    for name, test, pol, exc in need:
        hits = [r for r in q.raises_of(f.node) if q.raise_type(r) == exc and q.rguards(f.node, r) and q.rguards(f.node, r)[-1] == (test, pol)]
        ctx.check(len(hits) == 1, "R14.2", f"MethodCall:{name}", f"a {exc} guarded by `{'' if pol else 'not '}{test}` is required; found {len(hits)}", f.where, fact={})
    # every kind dispatch ends in a refusal
    els = [r for r in q.raises_of(f.node) if q.raise_type(r) == "TealTypeError" and len(r.exc.args) == 2 and u(r.exc.args[1]).startswith("abi.") and u(r.exc.args[1]).endswith("| Expr")]
    ctx.check(len(els) == 4, "R14.2", "MethodCall:kind-fallthrough", f"each of the four argument kinds (account, application, asset, plain) must refuse values that are neither the ABI type nor an Expr; found {len(els)} such refusals", f.where, fact={"n": len(els)})
    # raw expressions are type-checked
    rts = sorted(q.rtext(f.node, c) for c in q.calls_named(f.node, "require_type", into_nested=False))
    ctx.check(rts == sorted(["require_type(app_id, TealType.uint64)", "require_type(args[idx], TealType.bytes)", "require_type(args[idx], TealType.uint64)", "require_type(args[idx], TealType.uint64)", "require_type(args[idx], TealType.bytes)"]), "R14.2", "MethodCall:raw-expression-types", f"raw expressions must be type-checked (address bytes, ids uint64, encoded value bytes); found {rts}", f.where, fact={"checks": rts})
    ctx.require_min("R14.2", 6)


def r14_3_set_field(ctx):
    ctx.rule("R14.3", "SetField / SetFields hand every value on: a list given for an array field becomes one itxn_field per element, in order, repeated elements (the same expression object listed twice, as MethodCall does when two reference parameters get the same argument) included; a scalar field gets exactly its value; SetFields sets every entry of the dictionary in insertion order; list-for-scalar and scalar-for-array are refused")
    itb = ctx.model.find_class("InnerTxnBuilder", "pyteal.ast.itxn")
    sf, sfs = itb.methods["SetField"], itb.methods["SetFields"]
    ctx.analysed(sf.fq, sfs.fq)

    # the members of TxnField this rule uses, with the array flag read from the enum's own rows
    tf = ctx.model.find_class("TxnField", "pyteal.ast.txn")
    TXF = Sym("TxnField")
    for nm, node in tf.class_attrs.items():
        if isinstance(node, ast.Tuple) and len(node.elts) >= 5:
            TXF.attrs[nm] = Sym(f"TxnField.{nm}", attrs={"is_array": bool(isinstance(node.elts[3], ast.Constant) and node.elts[3].value), "name": nm})
    q.need(all(k in TXF.attrs for k in ("accounts", "applications", "assets", "application_args", "note", "fee", "type_enum")), "TxnField rows are no longer written as tuples")

    def field(name, is_array):
        q.need(TXF.attrs[name].attrs["is_array"] == is_array, f"TxnField.{name}: array flag assumption")
        return TXF.attrs[name]

    def setup(me):
        me.isinstance_hook = lambda v, c: (c.split(".")[-1] in v.attrs.get("$isa", ())) if isinstance(v, Sym) else (False if isinstance(v, (list, int, str)) or v is None else None)

    def expr(n):
        return Sym(f"e:{n}", attrs={"$isa": {"Expr"}})

    a, b, c = expr("a"), expr("b"), expr("c")
    cls_sym = Sym("InnerTxnBuilder")
    cls_sym.methods["SetField"] = lambda fld, val: run_function(sf.node, {"cls": cls_sym, "field": fld, "value": val}, oracle, sf.fq, permissive=True, setup=setup)[0]

    def oracle(e, me):
        if u(e) in ("InnerTxnBuilder", "cls"):
            return cls_sym
        if u(e) == "TxnField":
            return TXF
        raise Unknown()

    def fields_of(t):
        """[(field name, value)] of a Seq(...) / single InnerTxnFieldExpr term"""
        if isinstance(t, Rec) and t.is_call("InnerTxnFieldExpr"):
            return [(t.args[0].attrs["name"], t.args[1])]
        if isinstance(t, Rec) and t.is_call("Seq"):
            items = t.args[0] if len(t.args) == 1 and isinstance(t.args[0], list) else t.args
            out = []
            for x in items:
                out += fields_of(x)
            return out
        raise AnalysisError(f"{sf.fq}: result {t!r} is not built from Seq / InnerTxnFieldExpr")

    lists = {"one": [a], "two distinct": [a, b], "same object twice": [a, a], "a, b, a": [a, b, a], "three times the same": [c, c, c], "empty": []}
    for fname in ("accounts", "applications", "assets", "application_args"):
        for lname, vals in lists.items():
            construct = f"SetField[{fname},{lname}]"
            try:
                val, _ = run_function(sf.node, {"cls": cls_sym, "field": field(fname, True), "value": list(vals)}, oracle, sf.fq, permissive=True, setup=setup)
            except Raised as r:
                ctx.bad("R14.3", construct, f"raises {r.exc_text[:60]}", sf.where)
                continue
            got = fields_of(val)
            want = [(fname, v) for v in vals]
            ok = len(got) == len(want) and all(g[0] == w[0] and g[1] is w[1] for g, w in zip(got, want))
            ctx.check(ok, "R14.3", construct, f"sets {[(n, repr(v)) for n, v in got]}; the list given is {[repr(v) for v in vals]} (callers number the elements by position)", sf.where, fact={"set": len(got)})
    for fname, arr, value, want_ok in (("note", False, a, True), ("note", False, [a], False), ("accounts", True, a, False), ("fee", False, b, True)):
        construct = f"SetField[{fname},{'list' if isinstance(value, list) else 'scalar'}]"
        try:
            val, _ = run_function(sf.node, {"cls": cls_sym, "field": field(fname, arr), "value": value}, oracle, sf.fq, permissive=True, setup=setup)
            got = fields_of(val)
            ok = want_ok and len(got) == 1 and got[0][0] == fname and got[0][1] is value
            why = f"sets {[(n, repr(v)) for n, v in got]}"
        except Raised as r:
            ok = (not want_ok) and "TealInputError" in r.exc_text
            why = f"raises {r.exc_text[:50]}"
        ctx.check(ok, "R14.3", construct, f"{why}; expected {'exactly the value' if want_ok else 'TealInputError'}", sf.where, fact={})
    d = {field("type_enum", False): a, field("accounts", True): [b, b], field("fee", False): c, field("assets", True): [a]}
    val, _ = run_function(sfs.node, {"cls": cls_sym, "fields": d}, oracle, sfs.fq, permissive=True, setup=setup)
    got = fields_of(val)
    want = [("type_enum", a), ("accounts", b), ("accounts", b), ("fee", c), ("assets", a)]
    ctx.check(len(got) == len(want) and all(g[0] == w[0] and g[1] is w[1] for g, w in zip(got, want)), "R14.3", "SetFields[4 entries]", f"sets {[(n, repr(v)) for n, v in got]}; the dictionary lists {[(n, repr(v)) for n, v in want]}", sfs.where, fact={"set": len(got)})
    ctx.require_min("R14.3", 25)


def run(ctx):
    r14_1_marshalling(ctx)
    r14_2_argument_checks(ctx)
    r14_3_set_field(ctx)
    from rules import c19 as _c19

    _c19.r19_2_callers(ctx)
    _c19.r19_5_signature_types(ctx)  # the parameter types of the called method are the ones its signature names (shared with C19)
    from rules import c13 as _c13, c12 as _c12

    _c12.r12_2b_named_ints(ctx)  # the type_enum of a transaction argument names the transaction type it says (shared with C12)
    _c13.r13_1_bytes_forms(ctx)  # the selector placed in ApplicationArgs[0] is the hash of the signature text itself (shared with C13)
    _c19.r19_1_relation(ctx)
    return (
        "Abstract evaluation of InnerTxnBuilder.MethodCall on symbolic signatures (plain, reference and transaction parameters in several orders, ABI values and raw expressions): "
        "selector, argument order, reference index conventions and one-byte encoding, foreign arrays, preceding transactions followed by itxn_next, field set; refusal guards; the "
        "assignability relation (shared with C19). The submitted group as a callee sees it is not executed."
    )
