"""C04 - successful compilation yields complete, target-legal TEAL."""
from __future__ import annotations

import ast

from sa.astutil import u
from sa.model import AnalysisError
from sa.tables import op_table, field_enum
from spec import avm


def r04_1_op_table(ctx):
    ctx.rule("R04.1", "every Op member's (teal name, modes, min version) equals the AVM reference table")
    ops = op_table(ctx.model)
    seen = set()
    for mem, row in ops.items():
        name = row["teal"]
        where = f"pyteal/ir/ops.py:{row['line']}"
        if name == "//":
            ctx.check(row["v"] == 0 and row["modes"] == "SA", "R04.1", f"Op.{mem}", "comment pseudo-op must be legal in every version and both modes", where, fact=row)
            continue
        ref = avm.OPS.get(name)
        if ref is None:
            ctx.uncheck(f"Op.{mem} ('{name}') has no row in the reference table")
            continue
        if name in seen:
            ctx.bad("R04.1", f"Op.{mem}", f"teal name '{name}' appears twice in the Op enum", where)
        seen.add(name)
        want_v = max(ref["v"], avm.MIN_PROGRAM_VERSION)
        ctx.check(
            row["v"] == want_v and row["modes"] == ref["modes"],
            "R04.1",
            f"Op.{mem}",
            f"Op.{mem} = ('{name}', modes {row['modes']}, v{row['v']}) but the AVM has modes {ref['modes']}, v{want_v}",
            where,
            fact={"op": name, "v": row["v"], "modes": row["modes"]},
        )
    ctx.require_min("R04.1", 170)
    return ops


def r04_2_field_tables(ctx):
    ctx.rule("R04.2", "every field enum row (name, type, min version, is_array) equals the AVM reference table")
    for cname, table in avm.FIELD_ENUMS.items():
        rows = field_enum(ctx.model, cname)
        c = ctx.model.find_class(cname)
        for mem, row in rows.items():
            where = f"{c.module.rel}:{row['line']}"
            name = row.get("name")
            ref = table.get(name)
            construct = f"{cname}.{mem}"
            if ref is None:
                ctx.uncheck(f"{construct} ('{name}') has no row in the reference table")
                continue
            t, v, arr = ref
            want_v = max(v, avm.MIN_PROGRAM_VERSION)
            problems = []
            if row.get("v") != want_v:
                problems.append(f"min version {row.get('v')} != {want_v}")
            if "type" in row and t != "-" and row["type"] != t:
                problems.append(f"type {row['type']} != {t}")
            if "array" in row and bool(row["array"]) != arr:
                problems.append(f"is_array {row['array']} != {arr}")
            ctx.check(not problems, "R04.2", construct, f"{construct} ('{name}'): " + "; ".join(problems), where, fact={"name": name, "type": row.get("type"), "v": row.get("v"), "array": row.get("array")})
        missing = set(table) - {r.get("name") for r in rows.values()}
        # fields of the target that PyTeal does not offer are not a violation of C04
    ctx.require_min("R04.2", 130)


def run(ctx):
    r04_1_op_table(ctx)
    r04_2_field_tables(ctx)
    return (
        "Static comparison of PyTeal's op and field tables (extracted from the syntax tree) with an independent AVM "
        "reference table; version/field gating, immediate provenance, final sweep, placeholder and label rules."
    )
