"""C04 - successful compilation yields complete, target-legal TEAL."""
from __future__ import annotations

import ast

from sa.astutil import u
from sa.model import AnalysisError
from sa.tables import op_table, field_enum
from spec import avm


def r04_1_op_table(ctx):
    ctx.rule("R04.1", "every Op member's (teal name, modes, min version) equals the AVM reference table")
    ops = op_table(ctx.model)
    seen = set()
    for mem, row in ops.items():
        name = row["teal"]
        where = f"pyteal/ir/ops.py:{row['line']}"
        if name == "//":
            ctx.check(row["v"] == 0 and row["modes"] == "SA", "R04.1", f"Op.{mem}", "comment pseudo-op must be legal in every version and both modes", where, fact=row)
            continue
        ref = avm.OPS.get(name)
        if ref is None:
            ctx.uncheck(f"Op.{mem} ('{name}') has no row in the reference table")
            continue
        if name in seen:
            ctx.bad("R04.1", f"Op.{mem}", f"teal name '{name}' appears twice in the Op enum", where)
        seen.add(name)
        want_v = max(ref["v"], avm.MIN_PROGRAM_VERSION)
        ctx.check(
            row["v"] == want_v and row["modes"] == ref["modes"],
            "R04.1",
            f"Op.{mem}",
            f"Op.{mem} = ('{name}', modes {row['modes']}, v{row['v']}) but the AVM has modes {ref['modes']}, v{want_v}",
            where,
            fact={"op": name, "v": row["v"], "modes": row["modes"]},
        )
    ctx.require_min("R04.1", 170)
    return ops


def r04_2_field_tables(ctx):
    ctx.rule("R04.2", "every field enum row (name, type, min version, is_array) equals the AVM reference table")
    for cname, table in avm.FIELD_ENUMS.items():
        rows = field_enum(ctx.model, cname)
        c = ctx.model.find_class(cname)
        for mem, row in rows.items():
            where = f"{c.module.rel}:{row['line']}"
            name = row.get("name")
            ref = table.get(name)
            construct = f"{cname}.{mem}"
            if ref is None:
                ctx.uncheck(f"{construct} ('{name}') has no row in the reference table")
                continue
            t, v, arr = ref
            want_v = max(v, avm.MIN_PROGRAM_VERSION)
            problems = []
            if row.get("v") != want_v:
                problems.append(f"min version {row.get('v')} != {want_v}")
            if "type" in row and t != "-" and row["type"] != t:
                problems.append(f"type {row['type']} != {t}")
            if "array" in row and bool(row["array"]) != arr:
                problems.append(f"is_array {row['array']} != {arr}")
            ctx.check(not problems, "R04.2", construct, f"{construct} ('{name}'): " + "; ".join(problems), where, fact={"name": name, "type": row.get("type"), "v": row.get("v"), "array": row.get("array")})
        missing = set(table) - {r.get("name") for r in rows.values()}
        # fields of the target that PyTeal does not offer are not a violation of C04
    ctx.require_min("R04.2", 130)


def run(ctx):
    r04_1_op_table(ctx)
    r04_2_field_tables(ctx)
    return (
        "Static comparison of PyTeal's op and field tables (extracted from the syntax tree) with an independent AVM "
        "reference table; version/field gating, immediate provenance, final sweep, placeholder and label rules."
    )


# ------------------------------------------------------------------------------------------
from rules.emitcommon import get_sites  # noqa: E402
from sa.astutil import allowed_interval, try_const, INF  # noqa: E402
from sa.pe import alts, show, is_param  # noqa: E402


class _G:
    def __init__(self, expr, pol):
        self.expr, self.polarity = expr, pol

    def text(self):
        return ("" if self.polarity else "not ") + u(self.expr)


def _global_int_consts(model):
    out = {}
    for m in model.modules.values():
        for k, v in m.assigns.items():
            ok, c = try_const(model, m, v)
            if ok and isinstance(c, int) and not isinstance(c, bool) and k.isupper():
                out.setdefault(k, c)
    return out


def _interval(ctx, site, expr):
    """integer interval the immediate `expr` is confined to at the emission site"""
    env = _global_int_consts(ctx.model)
    ok, c = try_const(ctx.model, site.em.func.module, expr, env)
    if ok and isinstance(c, int) and not isinstance(c, bool):
        return c, c, ["literal"]
    guards = [_G(g, p) for g, p in site.em.guards]
    # knowledge about Python ints that are immediates: type(x) is int holds on this path
    lo, hi, used = allowed_interval(ctx.model, site.em.func.module, guards, u(expr), env)
    return lo, hi, used


# immediates that are `<Int expr>.value`: Int's constructor guarantees 0 <= value < 2**64
INT_VALUE_NONNEG = "Int.value is a Python int in [0, 2**64) by Int.__init__ (checked under C13 R13.2)"


def r04_3_field_gating(ctx):
    ctx.rule("R04.3", "every field-name immediate is version-gated on that field's own minimum version before emission")
    S = get_sites(ctx.model)
    for site in S.class_sites + S.factory_sites:
        for op in site.ops:
            if op.startswith("?"):
                continue
            sig = S.sig(op)
            if sig is None:
                continue
            for i, (imm, kind) in enumerate(zip(site.em.immediates, sig["imm"])):
                if not (isinstance(kind, str) and kind.startswith("field:")):
                    continue
                construct = f"{site.construct}:{op}:field"
                t = u(imm)
                # (a) symbolic enum member: <x>.arg_name  -> verifyFieldVersion(<x>.arg_name, <x>.min_version, options.version)
                if isinstance(imm, ast.Attribute) and imm.attr == "arg_name":
                    base = u(imm.value)
                    gated = False
                    for v in site.em.version_checks:
                        if v.short == "verifyFieldVersion" and len(v.call.args) >= 3:
                            a0, a1, a2 = v.call.args[:3]
                            if u(a0) == t and u(a1) == base + ".min_version" and u(a2).endswith("options.version"):
                                gated = True
                    ctx.check(gated, "R04.3", construct, f"field immediate {show(site.em.res, imm)} of '{S.teal_name(op)}' is emitted without verifyFieldVersion({base}.arg_name, {base}.min_version, options.version) before it", site.where, fact={"imm": t})
                    continue
                # (b) literal field name
                ok, c = try_const(ctx.model, site.em.func.module, imm)
                if ok and isinstance(c, str):
                    table = avm.LITERAL_FIELD_OPS.get(S.teal_name(op))
                    if table is None or c not in table:
                        ctx.uncheck(f"{construct}: literal field '{c}' has no reference row")
                        continue
                    fv = max(table[c][1], avm.MIN_PROGRAM_VERSION)
                    opv = max(sig["v"], avm.MIN_PROGRAM_VERSION)
                    gate = opv
                    for ev in site.em.path.teal.events:
                        if ev.short in ("verifyProgramVersion", "verifyFieldVersion"):
                            for a in list(ev.call.args) + [k.value for k in ev.call.keywords]:
                                okv, cv = try_const(ctx.model, ev.func.module, a)
                                if okv and isinstance(cv, int) and not isinstance(cv, bool):
                                    gate = max(gate, cv)
                    ctx.check(gate >= fv, "R04.3", f"{construct}:{c}", f"field '{c}' exists from version {fv} but '{S.teal_name(op)} {c}' is emitted whenever the version is >= {gate} (no field version check on the path)", site.where, fact={"field": c, "field_v": fv, "gate": gate})
                    continue
                if site.level == "factory":
                    continue  # bound enum member: gate checked at class level with the symbolic field
                ctx.uncheck(f"{construct}: field immediate {t} not recognised")
    ctx.require_min("R04.3", 40)


# classes whose `int`/`byte` immediate is a symbolic name, not a number; covered by other rules
STRING_IMMEDIATE_CLASSES = {
    "EnumInt": "named integer constant (TxnType / OnComplete): only built from literals inside the package (C13 who-may-call) and resolved by the assembler or C12's table",
    "Tmpl": "template placeholder, validated by valid_tmpl (C13)",
}


def r04_4_immediates(ctx):
    ctx.rule("R04.4", "every integer immediate is a literal in range or is confined to the immediate's encoding range by checks that dominate the emission")
    S = get_sites(ctx.model)
    seen = set()
    for site in S.class_sites + S.factory_sites:
        for op in site.ops:
            if op.startswith("?"):
                continue
            sig = S.sig(op)
            if sig is None:
                continue
            for i, (imm, kind) in enumerate(zip(site.em.immediates, sig["imm"])):
                if not isinstance(kind, tuple):
                    continue
                _k, lo_need, hi_need = kind
                construct = f"{site.construct}:{op}:imm{i}"
                key = (construct, ast.dump(imm), tuple((ast.dump(g), p) for g, p in site.em.guards))
                if key in seen:
                    continue
                seen.add(key)
                text = show(site.em.res, imm)
                if isinstance(imm, ast.Constant) and imm.value is None:
                    continue  # artefact of an infeasible constructor/__teal__ path combination
                if site.cls.name in STRING_IMMEDIATE_CLASSES:
                    ctx.ok("R04.4", construct, {"justified": STRING_IMMEDIATE_CLASSES[site.cls.name]}, site.where)
                    continue
                if text in ("self", "$p_slot", "$p_subroutine") or text.endswith(".slot") or "ScratchSlot" in text:
                    # a placeholder object resolved later by assignSlot / resolveSubroutine (R04.6, C10)
                    continue
                lo, hi, used = _interval(ctx, site, imm)
                if lo == -INF and text.endswith(".value"):
                    lo = 0
                    ctx.assume(INT_VALUE_NONNEG)
                ok = lo >= lo_need and hi <= hi_need
                ctx.check(ok, "R04.4", construct, f"immediate {text} of '{S.teal_name(op)}' must lie in [{lo_need}, {hi_need}] but the checks on the path only confine it to [{lo}, {hi}]", site.where, fact={"imm": text, "interval": [str(lo), str(hi)], "guards": used[:4]})
    ctx.require_min("R04.4", 30)


_run0 = run


def run(ctx):  # noqa: F811
    r04_1_op_table(ctx)
    r04_2_field_tables(ctx)
    r04_3_field_gating(ctx)
    r04_4_immediates(ctx)
    return (
        "Static comparison of PyTeal's op and field tables (extracted from the syntax tree) with an independent AVM "
        "reference table; version/field gating, immediate provenance, final sweep, placeholder and label rules."
    )
