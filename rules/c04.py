"""C04 - successful compilation yields complete, target-legal TEAL."""
from __future__ import annotations

import ast

from sa.astutil import u
from sa.model import AnalysisError
from sa.tables import op_table, field_enum
from spec import avm


def r04_1_op_table(ctx):
    ctx.rule("R04.1", "every Op member's (teal name, modes, min version) equals the AVM reference table")
    ops = op_table(ctx.model)
    seen = set()
    for mem, row in ops.items():
        name = row["teal"]
        where = f"pyteal/ir/ops.py:{row['line']}"
        if name == "//":
            ctx.check(row["v"] == 0 and row["modes"] == "SA", "R04.1", f"Op.{mem}", "comment pseudo-op must be legal in every version and both modes", where, fact=row)
            continue
        ref = avm.OPS.get(name)
        if ref is None:
            ctx.uncheck(f"Op.{mem} ('{name}') has no row in the reference table")
            continue
        if name in seen:
            ctx.bad("R04.1", f"Op.{mem}", f"teal name '{name}' appears twice in the Op enum", where)
        seen.add(name)
        want_v = max(ref["v"], avm.MIN_PROGRAM_VERSION)
        ctx.check(
            row["v"] == want_v and row["modes"] == ref["modes"],
            "R04.1",
            f"Op.{mem}",
            f"Op.{mem} = ('{name}', modes {row['modes']}, v{row['v']}) but the AVM has modes {ref['modes']}, v{want_v}",
            where,
            fact={"op": name, "v": row["v"], "modes": row["modes"]},
        )
    ctx.require_min("R04.1", 170)
    return ops


def r04_2_field_tables(ctx):
    ctx.rule("R04.2", "every field enum row (name, type, min version, is_array) equals the AVM reference table")
    for cname, table in avm.FIELD_ENUMS.items():
        rows = field_enum(ctx.model, cname)
        c = ctx.model.find_class(cname)
        for mem, row in rows.items():
            where = f"{c.module.rel}:{row['line']}"
            name = row.get("name")
            ref = table.get(name)
            construct = f"{cname}.{mem}"
            if ref is None:
                ctx.uncheck(f"{construct} ('{name}') has no row in the reference table")
                continue
            t, v, arr = ref
            want_v = max(v, avm.MIN_PROGRAM_VERSION)
            problems = []
            if row.get("v") != want_v:
                problems.append(f"min version {row.get('v')} != {want_v}")
            if "type" in row and t != "-" and row["type"] != t:
                problems.append(f"type {row['type']} != {t}")
            if "array" in row and bool(row["array"]) != arr:
                problems.append(f"is_array {row['array']} != {arr}")
            ctx.check(not problems, "R04.2", construct, f"{construct} ('{name}'): " + "; ".join(problems), where, fact={"name": name, "type": row.get("type"), "v": row.get("v"), "array": row.get("array")})
        missing = set(table) - {r.get("name") for r in rows.values()}
        # fields of the target that PyTeal does not offer are not a violation of C04
    ctx.require_min("R04.2", 130)


# ------------------------------------------------------------------------------------------
from rules.emitcommon import get_sites  # noqa: E402
from sa.astutil import allowed_interval, try_const, INF  # noqa: E402
from sa.pe import alts, show, is_param  # noqa: E402


class _G:
    def __init__(self, expr, pol):
        self.expr, self.polarity = expr, pol

    def text(self):
        return ("" if self.polarity else "not ") + u(self.expr)


def _global_int_consts(model):
    out = {}
    for m in model.modules.values():
        for k, v in m.assigns.items():
            ok, c = try_const(model, m, v)
            if ok and isinstance(c, int) and not isinstance(c, bool) and k.isupper():
                out.setdefault(k, c)
    return out


def _interval(ctx, site, expr):
    """integer interval the immediate `expr` is confined to at the emission site"""
    env = _global_int_consts(ctx.model)
    ok, c = try_const(ctx.model, site.em.func.module, expr, env)
    if ok and isinstance(c, int) and not isinstance(c, bool):
        return c, c, ["literal"]
    guards = [_G(g, p) for g, p in site.em.guards]
    # knowledge about Python ints that are immediates: type(x) is int holds on this path
    lo, hi, used = allowed_interval(ctx.model, site.em.func.module, guards, u(expr), env)
    return lo, hi, used


# immediates that are `<Int expr>.value`: Int's constructor guarantees 0 <= value < 2**64
INT_VALUE_NONNEG = "Int.value is a Python int in [0, 2**64) by Int.__init__ (checked under C13 R13.2)"


def r04_3_field_gating(ctx):
    ctx.rule("R04.3", "every field-name immediate is version-gated on that field's own minimum version before emission")
    S = get_sites(ctx.model)
    for site in S.class_sites + S.factory_sites:
        for op in site.ops:
            if op.startswith("?"):
                continue
            sig = S.sig(op)
            if sig is None:
                continue
            for i, (imm, kind) in enumerate(zip(site.em.immediates, sig["imm"])):
                if not (isinstance(kind, str) and kind.startswith("field:")):
                    continue
                construct = f"{site.construct}:{op}:field"
                t = u(imm)
                # (a) symbolic enum member: <x>.arg_name  -> verifyFieldVersion(<x>.arg_name, <x>.min_version, options.version)
                if isinstance(imm, ast.Attribute) and imm.attr == "arg_name":
                    base = u(imm.value)
                    gated = False
                    for v in site.em.version_checks:
                        if v.short == "verifyFieldVersion" and len(v.call.args) >= 3:
                            a0, a1, a2 = v.call.args[:3]
                            if u(a0) == t and u(a1) == base + ".min_version" and u(a2).endswith("options.version"):
                                gated = True
                    ctx.check(gated, "R04.3", construct, f"field immediate {show(site.em.res, imm)} of '{S.teal_name(op)}' is emitted without verifyFieldVersion({base}.arg_name, {base}.min_version, options.version) before it", site.where, fact={"imm": t})
                    continue
                # (b) literal field name
                ok, c = try_const(ctx.model, site.em.func.module, imm)
                if ok and isinstance(c, str):
                    table = avm.LITERAL_FIELD_OPS.get(S.teal_name(op))
                    if table is None or c not in table:
                        ctx.uncheck(f"{construct}: literal field '{c}' has no reference row")
                        continue
                    fv = max(table[c][1], avm.MIN_PROGRAM_VERSION)
                    opv = max(sig["v"], avm.MIN_PROGRAM_VERSION)
                    gate = opv
                    for ev in site.em.path.teal.events:
                        if ev.short in ("verifyProgramVersion", "verifyFieldVersion"):
                            for a in list(ev.call.args) + [k.value for k in ev.call.keywords]:
                                okv, cv = try_const(ctx.model, ev.func.module, a)
                                if okv and isinstance(cv, int) and not isinstance(cv, bool):
                                    gate = max(gate, cv)
                    ctx.check(gate >= fv, "R04.3", f"{construct}:{c}", f"field '{c}' exists from version {fv} but '{S.teal_name(op)} {c}' is emitted whenever the version is >= {gate} (no field version check on the path)", site.where, fact={"field": c, "field_v": fv, "gate": gate})
                    continue
                if site.level == "factory":
                    continue  # bound enum member: gate checked at class level with the symbolic field
                ctx.uncheck(f"{construct}: field immediate {t} not recognised")
    ctx.require_min("R04.3", 40)


# classes whose `int`/`byte` immediate is a symbolic name, not a number; covered by other rules
STRING_IMMEDIATE_CLASSES = {
    "EnumInt": "named integer constant (TxnType / OnComplete): only built from literals inside the package (C13 who-may-call) and resolved by the assembler or C12's table",
    "Tmpl": "template placeholder, validated by valid_tmpl (C13)",
}


def r04_4_immediates(ctx):
    ctx.rule("R04.4", "every integer immediate is a literal in range or is confined to the immediate's encoding range by checks that dominate the emission")
    S = get_sites(ctx.model)
    seen = set()
    for site in S.class_sites + S.factory_sites:
        for op in site.ops:
            if op.startswith("?"):
                continue
            sig = S.sig(op)
            if sig is None:
                continue
            for i, (imm, kind) in enumerate(zip(site.em.immediates, sig["imm"])):
                if not isinstance(kind, tuple):
                    continue
                _k, lo_need, hi_need = kind
                construct = f"{site.construct}:{op}:imm{i}"
                key = (construct, ast.dump(imm), tuple((ast.dump(g), p) for g, p in site.em.guards))
                if key in seen:
                    continue
                seen.add(key)
                text = show(site.em.res, imm)
                if isinstance(imm, ast.Constant) and imm.value is None:
                    continue  # artefact of an infeasible constructor/__teal__ path combination
                if site.cls.name in STRING_IMMEDIATE_CLASSES:
                    ctx.ok("R04.4", construct, {"justified": STRING_IMMEDIATE_CLASSES[site.cls.name]}, site.where)
                    continue
                if text in ("self", "$p_slot", "$p_subroutine") or text.endswith(".slot") or "ScratchSlot" in text:
                    # a placeholder object resolved later by assignSlot / resolveSubroutine (R04.6, C10)
                    continue
                lo, hi, used = _interval(ctx, site, imm)
                if lo == -INF and text.endswith(".value"):
                    lo = 0
                    ctx.assume(INT_VALUE_NONNEG)
                ok = lo >= lo_need and hi <= hi_need
                ctx.check(ok, "R04.4", construct, f"immediate {text} of '{S.teal_name(op)}' must lie in [{lo_need}, {hi_need}] but the checks on the path only confine it to [{lo}, {hi}]", site.where, fact={"imm": text, "interval": [str(lo), str(hi)], "guards": used[:4]})
    ctx.require_min("R04.4", 30)



# ------------------------------------------------------------------------------------------
from sa import q  # noqa: E402
from sa.astutil import walk_local  # noqa: E402
from sa.minieval import MiniEval, OpVal, Raised, Rec, Sym, Unknown, run_function  # noqa: E402
import re  # noqa: E402


def r04_0_op_accessors(ctx):
    ctx.rule("R04.0", "the Op enum's accessors read the row they belong to: OpType fields are (value, mode, min_version) in the order the rows are written, Op.mode / Op.min_version / str(Op) return those fields")
    m = ctx.model.module("pyteal.ir.ops")
    ot = ctx.model.find_class("OpType", "pyteal.ir.ops")
    fields = [st.target.id for st in ot.node.body if isinstance(st, ast.AnnAssign) and isinstance(st.target, ast.Name)]
    ctx.check(fields == ["value", "mode", "min_version"], "R04.0", "OpType:fields", f"OpType fields {fields} must be (value, mode, min_version): every Op row is written positionally in that order", ot.where, fact={"fields": fields})
    op = ctx.model.find_class("Op", "pyteal.ir.ops")
    want = {"mode": "self.value.mode", "min_version": "self.value.min_version", "__str__": "self.value.value"}
    for name, expr in want.items():
        f = q.need(op.methods.get(name), f"Op.{name} vanished")
        rets = q.returns_of(f.node)
        ctx.check(len(rets) == 1 and u(rets[0].value) == expr, "R04.0", f"Op.{name}", f"Op.{name} must return {expr}; returns {[u(r.value) for r in rets]}", f.where, fact={"returns": [u(r.value) for r in rets]})
    ctx.require_min("R04.0", 4)


def _mode_sym():
    return Sym("Mode", attrs={"Signature": 1, "Application": 2})


def r04_5_final_sweep(ctx):
    ctx.rule("R04.5", "the version range is checked first; every path of _compile_impl to assembly passes through verifyOpsForVersion and verifyOpsForMode on the final component list; both refuse any op whose min version exceeds the target / whose modes exclude the target; constant blocks are created only for version >= 3")
    f = ctx.model.find_func("Compilation._compile_impl", "pyteal.compiler.compiler")
    vv = ctx.model.find_func("verifyOpsForVersion", "pyteal.compiler.compiler")
    vm = ctx.model.find_func("verifyOpsForMode", "pyteal.compiler.compiler")
    ctx.analysed(f.fq, vv.fq, vm.fq)
    TEALOP = Rec("name", "TealOp")

    origin = {"n": 0}

    def comp(v, modes):
        o = Sym(f"op(v{v},modes{modes})", attrs={"min_version": v, "mode": modes, "name": "x"})
        # ops come from user expressions and from the compiler itself (spill code, branches: no expression) alternately
        origin["n"] += 1
        expr = Sym("user-expression", attrs={"$isa": {"Expr"}}) if origin["n"] % 2 else None
        return Sym("teal-op", attrs={"$isa": {"TealOp", "TealComponent"}, "expr": expr, "op": o, "args": [], "_sframes_container": None}, methods={"getOp": lambda: o})

    label = Sym("teal-label", attrs={"$isa": {"TealLabel", "TealComponent"}})
    oracle = lambda e, me: (_ for _ in ()).throw(Unknown())
    # verifyOpsForVersion: refuse iff some op has min_version > version, wherever it sits
    for pos in (0, 1, 2, 0, 1, 2):
        for opv, target, want_raise in ((5, 4, True), (5, 5, False), (2, 10, False), (11, 10, True), (3, 2, True)):
            lst = [comp(2, 3), label, comp(2, 3)]
            lst[pos if pos != 1 else 2] = comp(opv, 3)
            try:
                run_function(vv.node, {"teal": lst, "version": target}, oracle, vv.fq, permissive=True)
                raised = None
            except Raised as r:
                raised = r.exc_text
            ok = (raised is not None and "TealInputError" in raised) if want_raise else raised is None
            ctx.check(ok, "R04.5", f"verifyOpsForVersion[op v{opv} at {pos}, target v{target}]", f"{'accepted' if raised is None else 'refused with ' + raised[:40]}; an op of min version {opv} {'must be refused' if want_raise else 'is legal'} at version {target}", vv.where, fact={"raised": raised is not None})
    M = _mode_sym()
    for pos in (0, 2):
        for modes, target, want_raise in ((1, 2, True), (2, 1, True), (3, 1, False), (3, 2, False), (2, 2, False), (1, 1, False)):
            lst = [comp(2, 3), label, comp(2, 3)]
            lst[pos] = comp(2, modes)
            tgt = Sym("Mode.x", attrs={"name": "x"})
            try:
                # Mode is a Flag: model its members as bit masks so that `op.mode & mode` is evaluated by the fragment itself
                run_function(vm.node, {"teal": lst, "mode": target}, lambda e, me: (_ for _ in ()).throw(Unknown()), vm.fq, permissive=True)
                raised = None
            except Raised as r:
                raised = r.exc_text
            except AnalysisError as e:
                if "attribute" in str(e) and "name" in str(e):
                    raised = "TealInputError (message formatting reached)"
                else:
                    raise
            ok = (raised is not None and "TealInputError" in raised) if want_raise else raised is None
            ctx.check(ok, "R04.5", f"verifyOpsForMode[op modes {modes:02b} at {pos}, target {target:02b}]", f"{'accepted' if raised is None else 'refused'}; an op available in modes {modes:02b} {'must be refused' if want_raise else 'is legal'} in mode {target:02b}", vm.where, fact={"raised": raised is not None})
    # ordering inside _compile_impl
    body = f.node.body
    first = [s for s in body if not (isinstance(s, ast.Expr) and isinstance(s.value, ast.Constant))][0]
    t = u(first.test) if isinstance(first, ast.If) else ""
    ok = isinstance(first, ast.If) and "MIN_PROGRAM_VERSION <= self.version <= MAX_PROGRAM_VERSION" in t and "type(self.version) is not int" in t and any(isinstance(x, ast.Raise) and q.raise_type(x) == "TealInputError" for x in first.body)
    ctx.check(ok, "R04.5", "_compile_impl:version-range-first", f"the first statement must refuse versions outside [MIN_PROGRAM_VERSION, MAX_PROGRAM_VERSION] and non-int versions with TealInputError; found `{t}`", f"{f.module.rel}:{first.lineno}", fact={"test": t})
    from sa.astutil import try_const
    comp_mod = ctx.model.module("pyteal.compiler.compiler")
    okmin, vmin = try_const(ctx.model, comp_mod, comp_mod.assigns["MIN_PROGRAM_VERSION"])
    okmax, vmax = try_const(ctx.model, comp_mod, comp_mod.assigns["MAX_PROGRAM_VERSION"])
    ctx.check(okmin and okmax and vmin == avm.MIN_PROGRAM_VERSION and vmax <= avm.MAX_AVM_VERSION, "R04.5", "version-range-constants", f"accepted range [{vmin}, {vmax}] must lie inside the AVM's [{avm.MIN_PROGRAM_VERSION}, {avm.MAX_AVM_VERSION}]", "pyteal/compiler/compiler.py", fact={"min": vmin, "max": vmax})
    sweeps = {}
    for nm in ("verifyOpsForVersion", "verifyOpsForMode"):
        found = q.calls_named(f.node, nm, into_nested=False)
        if len(found) != 1:
            ctx.bad("R04.5", f"_compile_impl:sweep-{nm}", f"_compile_impl must call {nm} exactly once on the final component list; found {len(found)} call(s)", f.where)
            return
        sweeps[nm] = found[0]
    cv, cm = sweeps["verifyOpsForVersion"], sweeps["verifyOpsForMode"]
    comps = q.name_assigned_from(f.node, q.is_call_to("flattenSubroutines"), "the flattened component list in _compile_impl")
    opts = q.name_assigned_from(f.node, q.is_call_to("CompileOptions"), "the CompileOptions object in _compile_impl")
    fl = q.one(q.calls_named(f.node, "flattenSubroutines", into_nested=False), "_compile_impl: flattenSubroutines")
    asm = [c for c in q.calls_named(f.node, "assemble", into_nested=False)]
    asm = q.one(asm, "_compile_impl: assemble")
    for name, c, arg2 in (("version", cv, f"{opts}.version"), ("mode", cm, f"{opts}.mode")):
        ok = u(c.args[0]) == comps and u(c.args[1]) == arg2 and not q.nguards(c, ("branch",)) and q.dominates(c, asm) and fl.lineno < c.lineno
        ctx.check(ok, "R04.5", f"_compile_impl:sweep-{name}", f"verifyOpsFor{name.capitalize()}(components, {arg2}) must run unconditionally on the flattened component list before assembly; found `{u(c)}` under {q.nguards(c, ('branch',))}", f"{f.module.rel}:{c.lineno}", fact={"call": u(c)})
    # nothing but the constants pass and the pragma prefix touches `components` after the sweep
    later = [n for n in walk_local(f.node) if isinstance(n, ast.Assign) and u(n.targets[0]) == comps and n.lineno > cm.lineno]

    def kind(v):
        if isinstance(v, ast.Call) and q.last_name(v) == "createConstantBlocks" and [u(a) for a in v.args] == [comps]:
            return "constants-pass"
        if isinstance(v, ast.BinOp) and isinstance(v.op, ast.Add) and u(v.right) == comps and isinstance(v.left, ast.Name) and all(isinstance(d, ast.List) and all(isinstance(x, ast.Call) and q.last_name(x) == "TealPragma" for x in d.elts) for d in q.assigns_to(f.node, v.left.id)):
            return "pragma-prefix"
        return "other: " + u(v)

    srcs = sorted(kind(n.value) for n in later)
    ctx.check(srcs == ["constants-pass", "pragma-prefix"], "R04.5", "_compile_impl:after-sweep", f"after the sweep the component list may only be passed through createConstantBlocks and prefixed with the pragma; found {srcs}", f.where, fact={"assignments": srcs})
    cb = q.one(q.calls_named(f.node, "createConstantBlocks", into_nested=False), "_compile_impl: createConstantBlocks")
    gs = q.nguards(cb)
    need3 = max(avm.OPS["pushint"]["v"], avm.OPS["pushbytes"]["v"])
    ok = ("self.assemble_constants", True) in gs and ("self.version < 3", False) in gs and need3 == 3
    ctx.check(ok, "R04.5", "_compile_impl:constants-need-v3", f"createConstantBlocks (which emits pushint/pushbytes, AVM v{need3}) must be reached only with assemble_constants and version >= 3; guards {gs[-3:]}", f"{f.module.rel}:{cb.lineno}", fact={"guards": gs[-3:]})
    # the pragma carries the compiled version
    tp = [c for c in q.calls_named(f.node, "TealPragma", into_nested=False) if any(k.arg == "version" for k in c.keywords)]
    ctx.check(len(tp) == 1 and u([k.value for k in tp[0].keywords if k.arg == "version"][0]) == "self.version", "R04.5", "_compile_impl:pragma-version", "the program must open with TealPragma(version=self.version)", f.where, fact={})
    pre = [n for n in walk_local(f.node) if isinstance(n, ast.Assign) and u(n.targets[0]) == comps and isinstance(n.value, ast.BinOp) and isinstance(n.value.op, ast.Add) and u(n.value.right) == comps and any(isinstance(x, ast.Call) and q.last_name(x) == "TealPragma" for d in q.assigns_to(f.node, u(n.value.left)) for x in ast.walk(d))]
    ctx.check(len(pre) == 1, "R04.5", "_compile_impl:pragma-first", "the pragma prefix must be placed in front of the components", f.where, fact={})
    ctx.require_min("R04.5", 30)


def r04_6_placeholders(ctx):
    ctx.rule("R04.6", "no placeholder survives: TealOp.assemble refuses ScratchSlot and SubroutineDefinition arguments; assignSlot / resolveSubroutine rewrite every matching argument; resolveSubroutines visits every op of every routine for every subroutine")
    c = ctx.model.find_class("TealOp", "pyteal.ir.tealop")
    asm = c.methods["assemble"]
    ctx.analysed(asm.fq)
    slot = Sym("slot", attrs={"$isa": {"ScratchSlot"}})
    sub = Sym("subdef", attrs={"$isa": {"SubroutineDefinition"}})
    lab = Sym("labelref", attrs={"$isa": {"LabelReference"}}, methods={"getLabel": lambda: "main_l1"})
    for name, args, want in (("slot", [3, slot], "raise"), ("subroutine", [sub], "raise"), ("slot-first", [slot, 1], "raise"), ("ints", [1, 2], "x 1 2"), ("label", [lab], "x main_l1"), ("text", ["Fee"], "x Fee"), ("none", [], "x")):
        selfs = Sym("self", attrs={"op": "x", "args": list(args)})
        try:
            val, _ = run_function(asm.node, {"self": selfs}, lambda e, me: (_ for _ in ()).throw(Unknown()), asm.fq, permissive=True)
            out = val
        except Raised as r:
            out = "raise" if "TealInternalError" in r.exc_text else "raise:" + r.exc_text[:30]
        except (AnalysisError, TypeError) as ex:
            out = f"no PyTeal error (the placeholder object reaches the text assembly: {str(ex)[:60]})"
        ctx.check(out == want, "R04.6", f"TealOp.assemble[{name}]", f"assemble of an op with arguments {args!r} gives {out!r}; expected {want!r}", asm.where, fact={"out": str(out)})
    for mname, other in (("assignSlot", 7), ("resolveSubroutine", "label_0")):
        f = c.methods[mname]
        ctx.analysed(f.fq)
        target = Sym("placeholder")
        selfs = Sym("self", attrs={"args": [target, 5, target, "x"]})
        run_function(f.node, {"self": selfs, f.params()[1]: target, f.params()[2]: other}, lambda e, me: (_ for _ in ()).throw(Unknown()), f.fq)
        ctx.check(selfs.attrs["args"] == [other, 5, other, "x"], "R04.6", f"TealOp.{mname}", f"{mname} must replace every occurrence of the placeholder and nothing else; args became {selfs.attrs['args']!r}", f.where, fact={"args": repr(selfs.attrs["args"])})
    rs = ctx.model.find_func("resolveSubroutines", "pyteal.compiler.subroutines")
    ctx.analysed(rs.fq)
    calls = []
    s1 = Sym("sub1", attrs={"id": 5}, methods={"name": lambda: "my sub!"})
    s2 = Sym("sub2", attrs={"id": 2}, methods={"name": lambda: "my_sub!"})
    s3 = Sym("sub3", attrs={"id": 9}, methods={"name": lambda: "mysub_0"})

    def mk(n):
        o = Sym(n)
        o.methods["resolveSubroutine"] = lambda s, l, o=o: calls.append((o.name, s.name, l))
        return o

    ops = {None: [mk("m0"), mk("m1")], s1: [mk("a0")], s2: [mk("b0"), mk("b1")], s3: [mk("c0")]}
    import re as _re

    def oracle(e, me):
        if isinstance(e, ast.Call) and u(e.func) == "re.sub":
            a = [me.ev(x) for x in e.args]
            return _re.sub(*a)
        if u(e) == "OrderedDict":
            return dict
        raise Unknown()

    val, _ = run_function(rs.node, {"subroutineMapping": ops}, oracle, rs.fq)
    labels = dict(val)
    ctx.check(len(set(labels.values())) == 3 and all(_re.fullmatch(r"[A-Za-z0-9]*_\d+", l) for l in labels.values()), "R04.7", "resolveSubroutines:labels-unique", f"subroutine labels {sorted(labels.values())} must be pairwise distinct and of the form <alnum>_<index> although the sanitised names coincide", rs.where, fact={"labels": {k.name: v for k, v in labels.items()}})
    ctx.check([k.name for k in labels] == ["sub2", "sub1", "sub3"], "R04.7", "resolveSubroutines:order-by-id", f"label indices must follow the subroutine ids (creation order); order is {[k.name for k in labels]}", rs.where, fact={})
    want_calls = {(o.name, s.name, labels[s]) for lst in ops.values() for o in lst for s in (s1, s2, s3)}
    ctx.check(set(calls) == want_calls, "R04.6", "resolveSubroutines:every-op", f"every op of every routine must be offered every (subroutine, label) pair; {len(want_calls - set(calls))} pairs missing, {len(set(calls) - want_calls)} unexpected", rs.where, fact={"calls": len(calls)})
    ctx.require_min("R04.6", 10)


def r04_7_labels(ctx):
    ctx.rule("R04.7", "labels are defined once: per-routine branch labels get a routine-unique prefix (main_ / <subroutine label>_) applied to the shared LabelReference objects, the subroutine label line uses the resolved label, and routines are concatenated main first")
    f = ctx.model.find_func("flattenSubroutines", "pyteal.compiler.flatten")
    ctx.analysed(f.fq)
    out_prefix = []

    def mklabel(name):
        ref = Sym("ref:" + name, attrs={"label": name})
        ref.methods["addPrefix"] = lambda p, ref=ref: ref.attrs.__setitem__("label", p + ref.attrs["label"])
        return Sym("label:" + name, attrs={"$isa": {"TealLabel", "TealComponent"}}, methods={"getLabelRef": lambda: ref}), ref

    def mkop(name, ref=None):
        return Sym("op:" + name, attrs={"$isa": {"TealOp", "TealComponent"}, "ref": ref})

    ml, mref = mklabel("l1")
    al, aref = mklabel("l1")
    bl, bref = mklabel("l1")
    sa_, sb_ = Sym("subA", methods={"name": lambda: "a", "get_declaration_by_option": lambda fp: "declA"}), Sym("subB", methods={"name": lambda: "b", "get_declaration_by_option": lambda fp: "declB"})
    mapping = {None: [mkop("m0", mref), ml, mkop("m1")], sa_: [mkop("a0", aref), al], sb_: [bl, mkop("b0", bref)]}
    tolabel = {sa_: "a_0", sb_: "b_1"}
    options = Sym("options", attrs={"use_frame_pointers": False})

    def oracle(e, me):
        if u(e) in ("TealLabel", "LabelReference"):
            nm = u(e)
            return lambda *a, **k: Rec("call", Rec("name", nm), list(a), k)
        raise Unknown()

    def setup(me):
        me.isinstance_hook = lambda v, cname: (cname in v.attrs.get("$isa", ())) if isinstance(v, Sym) else (False if isinstance(v, Rec) else None)

    val, _ = run_function(f.node, {"subroutineMapping": mapping, "subroutineToLabel": tolabel, "options": options}, oracle, f.fq, permissive=True, setup=setup)
    q.need(isinstance(val, list), f"{f.fq}: does not return a list")
    got_refs = [mref.attrs["label"], aref.attrs["label"], bref.attrs["label"]]
    ctx.check(got_refs == ["main_l1", "a_0_l1", "b_1_l1"], "R04.7", "flattenSubroutines:prefixes", f"branch labels of the three routines became {got_refs}; expected main_l1, a_0_l1, b_1_l1 (each prefixed exactly once with its routine's prefix)", f.where, fact={"labels": got_refs})
    names = [x.name if isinstance(x, Sym) else x.text for x in val]
    want = ["op:m0", "label:l1", "op:m1", None, "op:a0", "label:l1", None, "label:l1", "op:b0"]
    shape_ok = len(names) == len(want) and all(w is None or w == n for w, n in zip(want, names))
    ctx.check(shape_ok, "R04.7", "flattenSubroutines:order", f"routines must be concatenated main first, then each subroutine behind its own label line; got {names}", f.where, fact={"components": names})
    if shape_ok:
        for idx, (lab, sub) in ((3, ("a_0", "a")), (6, ("b_1", "b"))):
            r = val[idx]
            ok = isinstance(r, Rec) and r.is_call("TealLabel") and len(r.args) >= 2 and isinstance(r.args[1], Rec) and r.args[1].is_call("LabelReference") and r.args[1].args == [lab]
            ctx.check(ok, "R04.7", f"flattenSubroutines:subroutine-label[{sub}]", f"the label line of subroutine {sub} must define exactly its resolved label {lab}; got {r.text if isinstance(r, Rec) else r}", f.where, fact={})
    ctx.require_min("R04.7", 4)


def r04_8_has_return(ctx):
    ctx.rule("R04.8", "has_return() is sound for every Expr class: it may be true only if every path through the construct ends in return/retsub/err (evaluated over all combinations of the children's has_return values)")
    terminators = {"Return", "ExitProgram", "Err"}
    n = 0
    for c in ctx.model.iter_classes():
        if not c.module.name.startswith("pyteal.ast") or "has_return" not in c.methods:
            continue
        f = c.methods["has_return"]
        body = [s for s in f.node.body if not (isinstance(s, ast.Expr) and isinstance(s.value, ast.Constant))]
        text = "; ".join(u(s) for s in body)
        construct = f"{c.name}.has_return"
        ctx.analysed(f.fq)
        if text in ("return False", "pass"):
            ctx.ok("R04.8", construct, "never claims to return", f.where)
            continue
        if text == "return True":
            # must emit a terminator op unconditionally
            teal = ctx.model.resolve_method(c, "__teal__")
            ops = {n_.attr for n_ in ast.walk(teal.node) if isinstance(n_, ast.Attribute) and u(n_.value) == "Op"} if teal else set()
            ctx.check(c.name in terminators and ops and ops <= {"return_", "retsub", "err"}, "R04.8", construct, f"{c.name} claims to always return but its lowering emits {sorted(ops)}", f.where, fact={"ops": sorted(ops)})
            continue
        # delegating / composite: evaluate over children
        if c.name in ("Nonce", "Pragma", "SubroutineDeclaration"):
            attr = "body" if c.name == "SubroutineDeclaration" else "child"
            for v in (True, False):
                child = Sym("child", methods={"has_return": lambda v=v: v})
                val, _ = run_function(f.node, {"self": Sym("self", attrs={attr: child})}, lambda e, me: (_ for _ in ()).throw(Unknown()), f.fq)
                ctx.check(val == v, "R04.8", f"{construct}[child={v}]", f"wrapper must delegate has_return to its child; child {v} gives {val}", f.where, fact={"value": val})
            continue
        if c.name == "Seq":
            for combo in itertools.product((True, False), repeat=3):
                for k in range(0, 4):
                    kids = [Sym(f"k{i}", methods={"has_return": lambda v=v: v}) for i, v in enumerate(combo[:k])]
                    val, _ = run_function(f.node, {"self": Sym("self", attrs={"args": kids})}, lambda e, me: (_ for _ in ()).throw(Unknown()), f.fq)
                    sound = (not val) or any(combo[:k])
                    ctx.check(sound, "R04.8", f"Seq.has_return[{combo[:k]}]", f"Seq of children returning {combo[:k]} claims has_return={val} although no element always returns", f.where, fact={"value": val})
            continue
        if c.name == "If":
            for tv in (True, False):
                for ev_ in (None, True, False):
                    then = Sym("then", methods={"has_return": lambda tv=tv: tv})
                    els = None if ev_ is None else Sym("else", methods={"has_return": lambda ev_=ev_: ev_})
                    val, _ = run_function(f.node, {"self": Sym("self", attrs={"thenBranch": then, "elseBranch": els, "cond": Sym("c")})}, lambda e, me: (_ for _ in ()).throw(Unknown()), f.fq)
                    sound = (not val) or (tv and ev_ is True)
                    ctx.check(sound, "R04.8", f"If.has_return[then={tv},else={ev_}]", f"If claims has_return={val} with then={tv}, else={ev_}: a path falls through", f.where, fact={"value": val})
            continue
        if c.name == "Cond":
            for combo in itertools.product((True, False), repeat=2):
                args = [[Sym("c"), Sym("b", methods={"has_return": lambda v=v: v})] for v in combo]
                val, _ = run_function(f.node, {"self": Sym("self", attrs={"args": args})}, lambda e, me: (_ for _ in ()).throw(Unknown()), f.fq)
                sound = (not val) or all(combo)
                ctx.check(sound, "R04.8", f"Cond.has_return[{combo}]", f"Cond with arm bodies returning {combo} claims has_return={val}", f.where, fact={"value": val})
            continue
        if c.name == "SubroutineFnWrapper":
            ctx.ok("R04.8", construct, "delegates to the evaluated declaration (SubroutineDeclaration.has_return)", f.where)
            continue
        if c.name in ("While", "For"):
            continue  # decided below by evaluation
        raise AnalysisError(f"{c.fq}.has_return has a form the rule does not know: `{text[:80]}`")
    # the loops never claim to return (they can fall out when the condition is false)
    for name in ("While", "For"):
        c = ctx.model.find_class(name)
        f = ctx.model.resolve_method(c, "has_return")
        for body_returns in (True, False, None):
            body = None if body_returns is None else Sym("body", attrs={"$isa": {"Expr"}}, methods={"has_return": lambda b=body_returns: b})
            selfs = Sym(f"self:{name}", attrs={"doBlock": body, "cond": Sym("cond", methods={"has_return": lambda: False}), "start": Sym("start", methods={"has_return": lambda: False}), "step": Sym("step", methods={"has_return": lambda: False})})
            try:
                val, _ = run_function(f.node, {"self": selfs}, lambda e, me: (_ for _ in ()).throw(Unknown()), f.fq, permissive=True)
            except Raised:
                continue  # a loop without a body refuses to answer
            ctx.check(val is False or (isinstance(val, bool) and not val), "R04.8", f"{name}.has_return[body {'missing' if body_returns is None else 'returns' if body_returns else 'falls through'}]", f"{name}.has_return() is {val!r}: a loop can run zero times and fall out through its condition, so it never guarantees a return (the routine would lose its closing return)", f.where, fact={"value": repr(val)})
    ctx.require_min("R04.8", 60)


import itertools  # noqa: E402


def run(ctx):  # noqa: F811
    r04_0_op_accessors(ctx)
    r04_1_op_table(ctx)
    r04_2_field_tables(ctx)
    r04_3_field_gating(ctx)
    r04_4_immediates(ctx)
    r04_5_final_sweep(ctx)
    r04_6_placeholders(ctx)
    r04_7_labels(ctx)
    from rules import c01 as _c01

    _c01.r01_4_flatten(ctx)  # every branch target gets its label exactly once (shared with C01)
    _c01.r01_4e_flatten_traces(ctx)  # ... decided on flattened block lists: every b/bz/bnz names a label that is defined once
    r04_8_has_return(ctx)
    from rules import c10 as _c10, c18 as _c18, c13 as _c13

    _c13.r13_3_escape(ctx)  # every string literal is one well-formed token of the assembler's grammar (shared with C13)
    _c13.r13_1_bytes_forms(ctx)

    _c01.r01_13_is_terminal(ctx)  # which blocks need no fall-through branch (shared with C01)
    from rules.lowering_sem import r01_15_pipeline, r04_9_whole_program

    r04_9_whole_program(ctx)
    r01_15_pipeline(ctx)  # composed passes: every branch names a defined label, no execution runs off the end (shared with C01)
    _c18.r18_1_annotations_delegate(ctx)  # annotation text reaches the program only as one-line comment ops (shared with C18)
    _c18.r18_3_single_line_text(ctx)

    _c10.r10_1_assignment(ctx)  # every load/store immediate is an index in 0..255: more slots than the AVM has are refused (shared with C10)
    return (
        "Static comparison of PyTeal's op and field tables (extracted from the syntax tree) with an independent AVM reference table; version/field gating and immediate "
        "provenance at every emission site; abstract evaluation of the final sweep, of assemble/assignSlot/resolveSubroutine(s), of label prefixing in flattenSubroutines and "
        "of every has_return() over all child combinations; ordering (must-pass-through) in _compile_impl."
    )
