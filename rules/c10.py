"""C10 - every variable is its own storage cell; slot limits are enforced (structural clauses)."""
from __future__ import annotations

import ast
import itertools

from sa import q
from sa.astutil import u, walk_local, try_const
from sa.minieval import MiniEval, OpVal, Raised, Rec, Sym, Unknown, run_function
from sa.model import AnalysisError
from rules.c03 import Blocks, make_oracle, mkop, op_sym
from spec import avm


def _slot(name, sid, reserved):
    return Sym(f"slot:{name}", attrs={"id": sid, "isReservedSlot": reserved})


def _program(OpS, B, routines):
    """routines: {key: [slots...]} -> blocks whose ops reference those slots; ops record assignSlot calls"""
    prog, allops = {}, []
    for key, slots in routines.items():
        ops = []
        for s in slots:
            o = mkop(OpS, "store", s)
            o.attrs["assigned"] = {}
            o.methods["assignSlot"] = lambda slot, loc, o=o: o.attrs["assigned"].__setitem__(slot, loc)
            ops.append(o)
            allops.append(o)
        blk = B.block(f"blk:{key}", ops)
        blk.methods["validateSlots"] = lambda slotsInUse=None, **k: []
        prog[key] = blk
    return prog, allops


def r10_1_assignment(ctx):
    ctx.rule("R10.1", "slot assignment is injective and honours requested ids: over programs mixing requested and automatic slots (adjacent requested ids, prefixes, gaps, many automatic slots, several routines) every slot gets its own index in 0..255, a requested id is the index used, every op is rewritten, duplicate requests and more than 256 slots are refused, exactly 256 are accepted")
    f = ctx.model.find_func("assignScratchSlotsToSubroutines", "pyteal.compiler.scratchslots")
    css = ctx.model.find_func("collectScratchSlots", "pyteal.compiler.scratchslots")
    ctx.analysed(f.fq, css.fq)
    OpS = op_sym(ctx.model)
    ok_num, nslots = try_const(ctx.model, ctx.model.module("pyteal.config"), ctx.model.module("pyteal.config").assigns["NUM_SLOTS"])
    ctx.check(ok_num and nslots == avm.NUM_SCRATCH_SLOTS, "R10.1", "config.NUM_SLOTS", f"NUM_SLOTS = {nslots}; the AVM has {avm.NUM_SCRATCH_SLOTS} scratch slots", "pyteal/config.py", fact={"NUM_SLOTS": nslots})

    def oracle_extra(e, me):
        if u(e) == "NUM_SLOTS":
            return nslots
        if u(e) == "TealInternalError":
            raise Unknown()
        raise Unknown()

    sub = Sym("sub")
    scenarios = {
        "adjacent requested ids 10,11 + 14 automatic": ([10, 11], 14, 0),
        "requested prefix 0,1,2 + 5 automatic": ([0, 1, 2], 5, 0),
        "requested 1,3,5 interleaved + 6 automatic": ([1, 3, 5], 6, 0),
        "requested 255 + 3 automatic": ([255], 3, 0),
        "no requested, 4 automatic in two routines": ([], 2, 2),
        "requested 0 in subroutine + automatic in both": ([0], 3, 3),
        "requested 2,3,4,5 + 250 automatic (254 total)": ([2, 3, 4, 5], 250, 0),
        "two automatic variables carrying the same id (the id counter was rewound after a probe)": ([7], 4, 0, "dup"),
        "automatic variables of two routines carrying the same id": ([], 3, 3, "dup-across"),
    }
    if ctx.tier == "thorough":
        for k in range(1, 6):
            for combo in itertools.combinations(range(0, 8), k):
                scenarios[f"requested {combo} + 9 automatic"] = (list(combo), 9, 0)
    for name, sc in scenarios.items():
        req, n_auto_main, n_auto_sub = sc[:3]
        dup = sc[3] if len(sc) > 3 else None
        B = Blocks()
        # ids of automatic slots are >= 256 and deliberately not in creation order of use
        main_slots = [_slot(f"r{r}", r, True) for r in req] + [_slot(f"a{i}", 1000 - i, False) for i in range(n_auto_main)]
        sub_slots = [_slot(f"s{i}", 300 + i, False) for i in range(n_auto_sub)]
        if dup == "dup":
            main_slots.append(_slot("a-same-id", main_slots[-1].attrs["id"], False))
        elif dup == "dup-across":
            sub_slots[0].attrs["id"] = main_slots[0].attrs["id"]
        routines = {None: main_slots}
        if sub_slots:
            routines[sub] = sub_slots
        prog, allops = _program(OpS, B, routines)
        construct = f"assign[{name}]"
        try:
            val, _ = run_function(f.node, {"subroutineBlocks": prog}, make_oracle(OpS, B, oracle_extra), f.fq, resolver=lambda nm: css.node if nm == "collectScratchSlots" else None)
        except Raised as r:
            ctx.bad("R10.1", construct, f"a program that fits into {nslots} slots is refused: {r.exc_text[:80]}", f.where)
            continue
        assigned = {}
        problems = []
        for o in allops:
            for s in o.methods["getSlots"]():
                if s not in o.attrs["assigned"]:
                    problems.append(f"op {o.name} keeps its placeholder")
                else:
                    assigned.setdefault(s, set()).add(o.attrs["assigned"][s])
        if any(len(v) != 1 for v in assigned.values()):
            problems.append("a slot is rewritten to different indices in different ops")
        flat = {s: next(iter(v)) for s, v in assigned.items()}
        if len(set(flat.values())) != len(flat):
            dup = [f"{a.name}->{i}" for a, i in flat.items() if list(flat.values()).count(i) > 1]
            problems.append(f"two variables share an index: {dup}")
        for s, i in flat.items():
            if s.attrs["isReservedSlot"] and i != s.attrs["id"]:
                problems.append(f"requested id {s.attrs['id']} is placed at {i}")
            if not (isinstance(i, int) and 0 <= i < nslots):
                problems.append(f"{s.name} gets index {i!r} outside [0, {nslots})")
        # the returned local-slot sets are the assigned indices of each routine's own slots
        if isinstance(val, dict):
            for key, slots in routines.items():
                want = {flat[s] for s in slots if s in flat}
                if set(val.get(key, ())) != want:
                    problems.append(f"local slot set of {key!r} is {sorted(val.get(key, ()))}, expected {sorted(want)}")
        else:
            problems.append("does not return the per-routine local slot sets")
        ctx.check(not problems, "R10.1", construct, "; ".join(problems[:3]), f.where, fact={"assignment": {k.name: v for k, v in list(flat.items())[:8]}})
    # limits
    for name, n, want_raise, nreq in (("exactly 256 slots", 256, False, 0), ("257 slots", 257, True, 0), ("3 requested + 253 automatic (256 total)", 253, False, 3), ("3 requested + 254 automatic (257 total)", 254, True, 3), ("requested 255 + 256 automatic (257 total)", 256, True, 1)):
        B = Blocks()
        reqs = [_slot("r255", 255, True)] if nreq == 1 else [_slot(f"r{7 * j}", 7 * j, True) for j in range(nreq)]
        prog, allops = _program(OpS, B, {None: reqs + [_slot(f"a{i}", 500 + i, False) for i in range(n)]})
        try:
            run_function(f.node, {"subroutineBlocks": prog}, make_oracle(OpS, B, oracle_extra), f.fq, resolver=lambda nm: css.node if nm == "collectScratchSlots" else None)
            raised = None
        except Raised as r:
            raised = r.exc_text
        ok = (raised is not None and "TealInternalError" in raised) if want_raise else raised is None
        ctx.check(ok, "R10.1", f"assign[{name}]", f"{name}: {'refused with ' + raised[:50] if raised else 'accepted'}", f.where, fact={"raised": raised is not None})
    B = Blocks()
    prog, _ = _program(OpS, B, {None: [_slot("x", 7, True), _slot("y", 7, True), _slot("z", 600, False)]})
    try:
        run_function(f.node, {"subroutineBlocks": prog}, make_oracle(OpS, B, oracle_extra), f.fq, resolver=lambda nm: css.node if nm == "collectScratchSlots" else None)
        raised = None
    except Raised as r:
        raised = r.exc_text
    ctx.check(raised is not None and "TealInternalError" in raised, "R10.1", "assign[two variables request id 7]", "two different variables requesting the same id must be refused", f.where, fact={"raised": raised})
    # the same requested id in different routines / one shared and one routine-local: still one cell, still refused
    s1, s2 = Sym("sub1"), Sym("sub2")
    for name, mk in (
        ("main and a subroutine request id 7", lambda x, y, g: {None: [x, _slot("z", 600, False)], s1: [y]}),
        ("two subroutines request id 7", lambda x, y, g: {None: [_slot("z", 600, False)], s1: [x], s2: [y]}),
        ("a variable used in two routines and a routine-local one request id 7", lambda x, y, g: {None: [g, _slot("z", 600, False)], s1: [g], s2: [y]}),
        ("a variable used in two routines and one of the main routine request id 0", lambda x, y, g: {None: [g, y], s1: [g]}),
        ("two variables each used in two routines request id 7", lambda x, y, g: {None: [g, x, _slot("z", 600, False)], s1: [g, x]}),
        ("two variables each used in two different pairs of routines request id 7", lambda x, y, g: {None: [g], s1: [g, x], s2: [x]}),
    ):
        sid = 0 if name.endswith("id 0") else 7
        B = Blocks()
        prog, _ = _program(OpS, B, mk(_slot("x", sid, True), _slot("y", sid, True), _slot("g", sid, True)))
        try:
            run_function(f.node, {"subroutineBlocks": prog}, make_oracle(OpS, B, oracle_extra), f.fq, resolver=lambda nm: css.node if nm == "collectScratchSlots" else None)
            raised = None
        except Raised as r:
            raised = r.exc_text
        ctx.check(raised is not None and "TealInternalError" in raised, "R10.1", f"assign[{name}]", "two different variables requesting the same id must be refused wherever they are used (they would share one cell)", f.where, fact={"raised": raised})
    # validateSlots errors stop compilation
    B = Blocks()
    prog, _ = _program(OpS, B, {None: [_slot("x", 600, False)]})
    prog[None].methods["validateSlots"] = lambda slotsInUse=None, **k: ["load-before-store error"]
    try:
        run_function(f.node, {"subroutineBlocks": prog}, make_oracle(OpS, B, oracle_extra), f.fq, resolver=lambda nm: css.node if nm == "collectScratchSlots" else None)
        raised = None
    except Raised as r:
        raised = r.exc_text
    ctx.check(raised is not None and "TealInternalError" in raised, "R10.1", "assign[validateSlots reports an error]", "an error from the definite-assignment check must stop compilation", f.where, fact={"raised": raised})
    ctx.require_min("R10.1", 16)


def r10_2_identity(ctx):
    ctx.rule("R10.2", "slots are keyed by object identity: ScratchSlot defines neither __eq__ nor __hash__; requested ids are range-checked at construction and mark the slot reserved; automatic ids start at NUM_SLOTS so they never collide with requested ones")
    c = ctx.model.find_class("ScratchSlot", "pyteal.ast.scratch")
    ctx.check("__eq__" not in c.methods and "__hash__" not in c.methods, "R10.2", "ScratchSlot:identity", "ScratchSlot must compare and hash by identity (two variables must never be merged)", c.where, fact={"methods": sorted(c.methods)})
    init = c.methods["__init__"]
    ctx.analysed(init.fq)
    nslots = avm.NUM_SCRATCH_SLOTS
    cls_attr = c.class_attrs.get("nextSlotId")
    ctx.check(cls_attr is not None and u(cls_attr) == "NUM_SLOTS", "R10.2", "ScratchSlot.nextSlotId:initial", "automatic ids must start at NUM_SLOTS (requested ids live below it)", c.where, fact={"initial": u(cls_attr) if cls_attr is not None else None})
    for req in (None, -1, 0, 255, 256, 100000):
        S = Sym("ScratchSlot", attrs={"nextSlotId": 300})
        selfs = Sym("self")

        def oracle(e, me, S=S):
            if u(e) == "ScratchSlot":
                return S
            if u(e) == "NUM_SLOTS":
                return nslots
            raise Unknown()

        try:
            run_function(init.node, {"self": selfs, "requestedSlotId": req}, oracle, init.fq)
            out = (selfs.attrs.get("id"), selfs.attrs.get("isReservedSlot"), S.attrs["nextSlotId"])
        except Raised as r:
            out = "TealInputError" if "TealInputError" in r.exc_text else r.exc_text[:30]
        if req is None:
            want = (300, False, 301)
        elif 0 <= req < nslots:
            want = (req, True, 300)
        else:
            want = "TealInputError"
        ctx.check(out == want, "R10.2", f"ScratchSlot({req})", f"ScratchSlot({req}) gives {out}; expected {want}", init.where, fact={"out": str(out)})
    ctx.require_min("R10.2", 8)


def r10_5_frame_locals(ctx):
    ctx.rule("R10.5", "frame locals: a new abstract variable becomes frame cell len(locals) while that index fits the int8 immediate of frame_dig/frame_bury (at most 128 cells including the ABI return cell), otherwise a scratch variable of its own; outside a frame-pointer routine always a scratch variable")
    f = ctx.model.find_func("alloc_abstract_var", "pyteal.ast.abstractvar")
    ctx.analysed(f.fq)
    fr = ctx.model.module("pyteal.ast.frame")
    ok, maxl = try_const(ctx.model, fr, fr.assigns["MAX_FRAME_LOCAL_VARS"])
    i8max = avm.I8[2]
    ctx.check(ok and maxl - 1 <= i8max, "R10.5", "MAX_FRAME_LOCAL_VARS", f"MAX_FRAME_LOCAL_VARS = {maxl}: the largest frame index {maxl - 1} must fit frame_dig's int8 immediate (max {i8max})", "pyteal/ast/frame.py", fact={"max": maxl})
    for n_before, in_proto, nret in [(n, p, r) for n in (0, 1, 126, 127, 128, 200) for p in (True, False) for r in (0, 1) if not (r == 1 and (n == 0 or not p))]:
        if True:
            locals_ = [f"t{i}" for i in range(n_before)]
            proto = Sym("proto", attrs={"num_args": 2, "num_returns": 1, "mem_layout": Sym("layout", attrs={"local_stack_types": locals_, "num_return_allocs": nret, "arg_stack_types": ["a", "b"]})}) if in_proto else None
            SE = Sym("SubroutineEval", attrs={"_current_proto": proto})

            def oracle(e, me):
                t = u(e)
                if t == "SubroutineEval":
                    return SE
                if t == "MAX_FRAME_LOCAL_VARS":
                    return maxl
                raise Unknown()

            val, _ = run_function(f.node, {"stack_type": "T"}, oracle, f.fq, permissive=True)
            construct = f"alloc_abstract_var[{'frame' if in_proto else 'no-frame'},{n_before} locals{', first is the ABI return cell' if nret else ''}]"
            if in_proto and n_before <= i8max:
                ok = isinstance(val, Rec) and val.is_call("FrameVar") and val.args[1] == n_before and len(locals_) == n_before + 1 and locals_[-1] == "T"
                why = f"gives {val.text if isinstance(val, Rec) else val} with {len(locals_)} locals recorded; expected FrameVar(proto, {n_before}) and the type appended"
            else:
                ok = isinstance(val, Rec) and val.is_call("ScratchVar") and len(locals_) == n_before
                why = f"gives {val.text if isinstance(val, Rec) else val}; expected a ScratchVar of its own (frame index {n_before} does not exist / does not fit)"
            ctx.check(ok, "R10.5", construct, why, f.where, fact={"result": val.text if isinstance(val, Rec) else repr(val)})
    # every index the allocator can hand out is one FrameDig / FrameBury accept, and nothing outside the immediate's range is
    fr_mod = "pyteal.ast.frame"
    for cname in ("FrameDig", "FrameBury"):
        c = ctx.model.find_class(cname, fr_mod)
        init = c.methods["__init__"]
        for idx in (-129, -128, -1, 0, 126, 127, 128, 255):
            selfs = Sym(f"self:{cname}")
            args = {"self": selfs, "frame_index": idx}
            if cname == "FrameBury":
                args["value"] = Sym("value", attrs={"$isa": {"Expr"}}, methods={"type_of": lambda: "TealType.uint64"})

            def orc(e, me):
                if isinstance(e, ast.Call) and u(e) == "super()":
                    return Sym("super", methods={"__init__": lambda: None})
                if isinstance(e, ast.Call) and u(e.func) == "require_type":
                    return None
                raise Unknown()

            try:
                run_function(init.node, args, orc, init.fq, permissive=True)
                acc = True
            except Raised:
                acc = False
            want = avm.I8[1] <= idx <= avm.I8[2]
            ctx.check(acc == want, "R10.5", f"{cname}[index {idx}]", f"{cname} with frame index {idx} is {'accepted' if acc else 'refused'}; the immediate holds {avm.I8[1]}..{avm.I8[2]}, and the allocator hands out cells up to {maxl - 1}", init.where, fact={"accepted": acc})
    ctx.require_min("R10.5", 28)


def r10_6_counter_rewind(ctx):
    ctx.rule("R10.6", "only the three save/restore sites may rewind the slot id counter, each with a value read from ScratchSlot.nextSlotId earlier in the same function")
    allowed = {"_SubroutineDeclByOption.__probe_info", "SubroutineEval._new_abi_instance_from_storage", "Router._cleaning_context"}
    n = 0
    for f in ctx.model.iter_funcs():
        for c in q.calls_named(f.node, "reset_slot_numbering", into_nested=False):
            n += 1
            construct = f"{f.qualname}:reset_slot_numbering"
            if f.qualname not in allowed:
                ctx.bad("R10.6", construct, f"{f.fq} rewinds the global slot id counter; only {sorted(allowed)} may (ids of live slots could be reissued)", f"{f.module.rel}:{c.lineno}")
                continue
            arg = c.args[0] if c.args else None
            src = q.rtext(f.node, arg) if arg is not None else ""
            saved = [n_ for n_ in walk_local(f.node) if isinstance(n_, ast.Assign) and u(n_.value) == "ScratchSlot.nextSlotId" and n_.lineno < c.lineno]
            ctx.check(bool(saved) and src == "ScratchSlot.nextSlotId", "R10.6", construct, f"the counter must be restored to the value saved at entry (restored to `{src}`)", f"{f.module.rel}:{c.lineno}", fact={"restored_to": src})
    ctx.require_min("R10.6", 3)


def r10_7_ops_carry_slots(ctx):
    from sa.lowerworld import World

    ctx.rule("R10.7", "every construct that refers to a variable's slot hands the slot object itself to its op - for automatic and for requested ids alike - so that the allocator sees every reference (a literal number in its place is invisible to it: the index can be given to another variable, duplicate requests go unnoticed)")
    cases = [("ScratchIndex", {}, "int"), ("ScratchLoad", {"type": None, "index_expression": None}, "load"), ("ScratchStore", {"value": "child", "index_expression": None}, "store"), ("ScratchStackStore", {}, "store")]
    for cname, extra_attrs, want_op in cases:
        c = ctx.model.find_class(cname, "pyteal.ast.scratch")
        ctx.analysed(c.fq + ".__teal__")
        for reserved in (False, True):
            W = World(ctx.model)
            sl = Sym(f"slot:{'requested 7' if reserved else 'automatic'}", attrs={"id": 7 if reserved else 300, "isReservedSlot": reserved, "$isa": {"ScratchSlot"}})
            attrs = {"slot": sl}
            for k, v in extra_attrs.items():
                attrs[k] = W.child("V", "uint64") if v == "child" else (W.TT.attrs["anytype"] if k == "type" else v)
            construct = f"{cname}.__teal__[{'requested' if reserved else 'automatic'} slot]"
            try:
                val, me, f = W.run_teal(cname, attrs, W.options(8), module="pyteal.ast.scratch")
                ops = W.chain(val[0], val[1])
            except Raised as r:
                ctx.bad("R10.7", construct, f"raises {r.exc_text[:60]}", c.where)
                continue
            mine = [o for o in ops if not o.op.startswith("$")]
            ok = len(mine) == 1 and mine[0].op == want_op and any(a is sl for a in mine[0].args)
            ctx.check(ok, "R10.7", construct, f"emits {[repr(o) for o in mine]}; the `{want_op}` op must carry the slot object", c.where, fact={"ops": [repr(o) for o in mine]})
    ctx.require_min("R10.7", 8)


def run(ctx):
    r10_1_assignment(ctx)
    r10_2_identity(ctx)
    r10_5_frame_locals(ctx)
    r10_6_counter_rewind(ctx)
    r10_7_ops_carry_slots(ctx)
    from rules import c04 as _c04, c03 as _c03, c02 as _c02

    _c02.r02_2_convention(ctx)  # a by-reference parameter is bound to the frame cell of its own position (shared with C02)
    _c02.r02_1_call_site(ctx)  # a by-reference argument hands over the index of the caller's variable, whatever kind of variable it is (shared with C02)

    _c04.r04_6_placeholders(ctx)  # every placeholder is rewritten / refused (shared with C04)
    _c03.r03_1_skip_set(ctx)  # local/global slot classification; reserved, shared and dynamically indexed slots are never optimised away (shared)
    _c03.r03_1b_slot_classes(ctx)
    _c03.r03_2_dependency_scan(ctx)  # a variable that is still loaded somewhere keeps its stores (shared with C03)
    from rules import c11 as _c11

    _c11.r11_8_object_state_inventory(ctx)  # two uses of a value get two storage cells: nothing hands out a remembered instance (shared with C11)
    from rules import c09 as _c09

    _c09.r09_1_decode(ctx)  # the router's argument cells under frame pointers are pairwise different (shared with C09)
    _c11.r11_3_exception_safe_restore(ctx)  # the marker that decides frame cell vs scratch slot for ABI values is restored on every path (shared with C11)
    return (
        "Abstract evaluation of the slot allocator on programs mixing requested and automatic slots (injectivity, requested ids honoured, total rewrite, limits), of the "
        "ScratchSlot constructor, and of the frame-local allocator around the 128 boundary; who-may-rewind rule for the id counter. Run-time isolation of values is not decided."
    )
