"""C12 - assembleConstants changes how constants load, not their values (structural clauses)."""
from __future__ import annotations

import ast
import base64
import itertools
import random
import re

from sa import q
from sa.astutil import u, walk_local, try_const
from sa.minieval import MiniEval, OpVal, Raised, Rec, Sym, Unknown, run_function
from sa.model import AnalysisError
from rules.c03 import op_sym
from spec import avm
from spec import teal_literals as TL


def _const_op(OpS, opname, arg, idx):
    o = Sym(f"{opname} {arg!r}", attrs={"op": OpS.attrs[opname], "args": [arg], "expr": f"expr#{idx}", "$isa": {"TealOp", "TealComponent"}})
    o.methods["getOp"] = lambda: OpS.attrs[opname]
    return o


def _other(OpS, name, idx):
    o = Sym(f"{name}#{idx}", attrs={"op": OpS.attrs[name], "args": [], "expr": None, "$isa": {"TealOp", "TealComponent"}})
    o.methods["getOp"] = lambda: OpS.attrs[name]
    return o


class _Digest(bytes):
    """stand-in for a SHA-512/256 digest: injective in the hashed text, and so is its 4-byte prefix (the selector)"""

    def __getitem__(self, k):
        if isinstance(k, slice) and k.start in (None, 0) and k.stop == 4 and k.step is None:
            return b"SEL(" + bytes(self)[2:-1] + b")"
        return bytes.__getitem__(self, k)


def fake_checksum(b: bytes) -> bytes:
    return _Digest(b"H(" + bytes(b) + b")")


def fake_decode_address(a: str) -> bytes:
    return b"PK(" + a.encode() + b")"


def ref_value(opname, arg):
    """reference value of a constant-loading pseudo-op"""
    if opname == "int":
        return TL.decode_int_arg(arg)
    if opname == "byte":
        return TL.decode_byte_arg(arg)
    if opname == "addr":
        return arg if arg.startswith("TMPL_") else fake_decode_address(arg)
    if opname == "method_signature":
        if not (arg.startswith('"') and arg.endswith('"')):
            raise TL.LiteralError("method signature not quoted")
        return fake_checksum(arg[1:-1].encode("utf-8"))[:4]
    raise AnalysisError(opname)


def block_value(x):
    """value denoted by an entry of an emitted intcblock / bytecblock or a pushint / pushbytes immediate"""
    if isinstance(x, int):
        return x
    if isinstance(x, str):
        if x.startswith("TMPL_"):
            return x
        if x.startswith("0x"):
            return bytes.fromhex(x[2:])
    raise AnalysisError(f"constant block entry {x!r} is not an int, a TMPL_ name or 0x-hex")


def r12_1_sites(ctx):
    ctx.rule("R12.1", "createConstantBlocks: at every constant-load site the value loaded (through intc/bytec index into the emitted block, or pushint/pushbytes) is the value the pseudo-op denotes - over programs mixing repeated/unique, small/large, named, template and differently spelled constants; non-constant ops are untouched")
    f = ctx.model.find_func("createConstantBlocks", "pyteal.compiler.constants")
    cmod = f.module
    util = ctx.model.module("pyteal.util")
    helpers = {x.name: x.node for x in cmod.all_funcs if x.cls is None}
    helpers.update({x.name: x.node for x in util.all_funcs if x.cls is None and x.name in ("unescapeStr", "correctBase32Padding")})
    ctx.analysed(f.fq, *[f"{cmod.name}.{n}" for n in helpers])
    OpS = op_sym(ctx.model)
    enumvals = named_int_table(ctx)
    ctx.check(enumvals == TL.NAMED_INTS, "R12.2", "intEnumValues", f"named integer constants {enumvals} must equal the AVM's OnCompletion / TxnType numbering {TL.NAMED_INTS}", f.module.rel, fact={"table": enumvals})

    def oracle(e, me):
        t = u(e)
        if t == "Op":
            return OpS
        if t == "intEnumValues":
            return dict(enumvals)
        if t == "base64":
            return base64
        if t == "OrderedDict":
            return dict
        if isinstance(e, ast.Name) and e.id in cmod.assigns:
            okc, vc = try_const(ctx.model, cmod, cmod.assigns[e.id])
            if okc:
                return vc
        if t == "encoding":
            return Sym("encoding", methods={"checksum": fake_checksum, "decode_address": fake_decode_address})
        raise Unknown()

    def setup(me):
        me.isinstance_hook = lambda v, c: (c.split(".")[-1] in v.attrs.get("$isa", ())) if isinstance(v, Sym) else (False if not isinstance(v, (int, str, bytes)) else None)

    rnd = random.Random(99 + ctx.seed)
    INTS = [0, 1, 2, 3, 4, 5, 6, 127, 128, 1000, 2000, 2**64 - 1, "TMPL_A", "TMPL_B", "NoOp", "OptIn", "pay", "appl", "DeleteApplication"]
    BYTES = [("byte", '"a"'), ("byte", "0x61"), ("byte", "base64(YQ==)"), ("byte", "base32(ME======)"), ("byte", "base32(ME)"), ("byte", '"caf\\xc3\\xa9"'), ("byte", "0x636166c3a9"), ("byte", '"q\\"uote\\\\ \\n"'), ("byte", "0x"), ("byte", '""'),
             ("byte", "TMPL_C"), ("addr", "AAAAAAAAAAAAAAAAAAAAAAAAAAAAAAAAAAAAAAAAAAAAAAAAAAAAY5HFKQ"), ("addr", "TMPL_D"), ("method_signature", '"add(uint64,uint64)uint64"'), ("method_signature", '"f()void"'), ("byte", '"b"'), ("byte", '"c"'), ("byte", '"d"'), ("byte", '"e"'), ("byte", '"f"')]
    scenarios = []
    # hand-made: the block rule (top four, or >= 128 / template) and index-after-dropped-small-int
    scenarios.append(("five small then large", [("int", v) for v in [0, 0, 1, 1, 2, 2, 3, 3, 4, 4, 1000, 1000, 2000, 2000]]))
    scenarios.append(("ties", [("int", v) for v in [5, 6, 5, 6, 7, 7, 8, 8, 9, 9, 300, 300, 9, 8]]))
    scenarios.append(("enum merges with number", [("int", "OptIn"), ("int", 1), ("int", "pay"), ("int", 1), ("int", "NoOp"), ("int", 0)]))
    scenarios.append(("templates", [("int", "TMPL_A")] * 2 + [("int", 7)] * 3 + [("int", "TMPL_B")]))
    scenarios.append(("repeated template ranked below four more frequent constants", [("int", v) for v in [1, 1, 1, 2, 2, 2, 3, 3, 3, 400, 400, 400, "TMPL_A", "TMPL_A", 5, 5, "OptIn", "pay"]]))
    scenarios.append(("repeated byte template ranked below four more frequent constants", [b for b in [BYTES[0], BYTES[15], BYTES[16], BYTES[17]] for _ in range(3)] + [BYTES[10], BYTES[10], BYTES[12], BYTES[12]]))
    scenarios.append(("same bytes, four spellings", [BYTES[0], BYTES[1], BYTES[2], BYTES[3], BYTES[4], BYTES[15], BYTES[15]]))
    scenarios.append(("non-ascii string vs hex", [BYTES[5], BYTES[6], BYTES[5], BYTES[7], BYTES[7]]))
    scenarios.append(("six repeated byte constants", [b for b in [BYTES[0], BYTES[15], BYTES[16], BYTES[17], BYTES[18], BYTES[19]] for _ in range(2)] + [BYTES[8], BYTES[9]]))
    scenarios.append(("addr and method", [BYTES[11], BYTES[11], BYTES[12], BYTES[13], BYTES[13], BYTES[14]]))
    # the same operand text under different pseudo-ops denotes different values
    same = '"add(uint64,uint64)uint64"'
    scenarios.append(("byte and method with the same text", [("byte", same), ("method_signature", same), ("byte", same), ("method_signature", same)]))
    scenarios.append(("method then byte with the same text", [("method_signature", same), ("byte", same), ("method_signature", same), ("byte", same), ("byte", '"f()void"'), ("method_signature", '"f()void"')]))
    scenarios.append(("byte and addr with the same template", [("byte", "TMPL_D"), ("addr", "TMPL_D"), ("byte", "TMPL_D"), ("addr", "TMPL_D")]))
    # every legal final group of a base32 literal, padded and not
    b32 = ["ME", "ME======", "MFRA", "MFRA====", "MFRGG", "MFRGG===", "MFRGGZA", "MFRGGZA=", "MFRGGZDF", "MFRGGZDFMY", "MFRGGZDFMY======"]
    scenarios.append(("base32 final groups of 2, 4, 5, 7 and 8 characters", [("byte", f"base32({x})") for x in b32 for _ in range(2)]))
    scenarios.append(("base32 final groups, single use", [("byte", f"base32({x})") for x in b32]))
    # a signature is hashed exactly as written
    scenarios.append(("method signatures differing in blanks", [("method_signature", '"add(uint64, uint64)uint64"'), ("method_signature", same), ("method_signature", '"add(uint64, uint64)uint64"'), ("method_signature", same), ("method_signature", '" f()void"')]))
    n_rand = 60 if ctx.tier == "quick" else 600
    for i in range(n_rand):
        k = rnd.randint(1, 14)
        pool_i = rnd.sample(INTS, rnd.randint(1, min(9, len(INTS))))
        pool_b = rnd.sample(BYTES, rnd.randint(1, 7))
        seq = []
        for _ in range(k):
            seq.append(("int", rnd.choice(pool_i)) if rnd.random() < 0.55 else rnd.choice(pool_b))
        scenarios.append((f"random#{i}", seq))
    for name, consts in scenarios:
        ops, sites = [], []
        for idx, (opn, arg) in enumerate(consts):
            if idx % 3 == 1:
                ops.append(_other(OpS, "pop", idx))
            o = _const_op(OpS, opn, arg, idx)
            ops.append(o)
            sites.append((o, opn, arg))
        ops.append(_other(OpS, "return_", 999))
        construct = f"constants[{name}]"
        try:
            val, _ = run_function(f.node, {"ops": list(ops)}, oracle, f.fq, resolver=lambda nm: helpers.get(nm), setup=setup)
        except Raised as r:
            ctx.bad("R12.1", construct, f"raises {r.exc_text[:80]} on legal constants", f.where)
            continue
        out = list(val)
        problems = []
        iblock = bblock = None
        body = []
        for x in out:
            if isinstance(x, OpVal) and x.op == "intcblock":
                iblock = [block_value(a) for a in x.args]
            elif isinstance(x, OpVal) and x.op == "bytecblock":
                bblock = [block_value(a) for a in x.args]
            else:
                body.append(x)
        if len(body) != len(ops):
            problems.append(f"{len(ops)} components in, {len(body)} out (besides the blocks)")
        for blk, nm in ((iblock, "intcblock"), (bblock, "bytecblock")):
            if blk is not None and len(set(map(repr, blk))) != len(blk):
                problems.append(f"{nm} holds the same value twice")
        for orig, new in zip(ops, body):
            if not orig.name.startswith(("int ", "byte ", "addr ", "method_signature ")):
                if new is not orig:
                    problems.append(f"non-constant op {orig.name} was replaced by {new!r}")
                continue
            opn, arg = orig.name.split(" ", 1)[0], orig.attrs["args"][0]
            want = ref_value(opn, arg)
            if not isinstance(new, OpVal):
                problems.append(f"{orig.name} was left as a pseudo-op")
                continue
            try:
                if new.op == "pushint" or new.op == "pushbytes":
                    got = block_value(new.args[0])
                elif new.op.startswith("intc"):
                    i = int(new.op[5]) if new.op != "intc" else new.args[0]
                    if new.op == "intc" and not (isinstance(i, int) and 0 <= i <= 255):
                        problems.append(f"{orig.name}: index {i} does not fit intc's one-byte immediate")
                    got = iblock[i] if iblock is not None and isinstance(i, int) and 0 <= i < len(iblock) else f"<no entry {i} in intcblock of {len(iblock or [])}>"
                elif new.op.startswith("bytec"):
                    i = int(new.op[6]) if new.op != "bytec" else new.args[0]
                    got = bblock[i] if bblock is not None and isinstance(i, int) and 0 <= i < len(bblock) else f"<no entry {i} in bytecblock of {len(bblock or [])}>"
                else:
                    got = f"<unexpected op {new.op}>"
            except AnalysisError as e:
                got = f"<{e}>"
            if got != want:
                problems.append(f"`{orig.name}` denotes {want!r} but the site loads {got!r} via `{new!r}`"[:220])
            # the rewritten op stays attributed to the expression of the op it replaces (source maps), one op object per site
            if new.expr != orig.attrs["expr"]:
                problems.append(f"`{orig.name}` of {orig.attrs['expr']} is replaced by an op attributed to {new.expr!r}")
            if sum(1 for x in body if x is new) != 1:
                problems.append(f"the op object `{new!r}` stands at several sites")
            if isinstance(new, OpVal) and isinstance(want, int) and (new.op == "int"):
                problems.append("pseudo-op left")
        ctx.check(not problems, "R12.1", construct, "; ".join(problems[:3]), f.where, fact={"in": [o.name for o in ops][:8], "out": [repr(x) for x in out][:10]})
    ctx.require_min("R12.1", 40)


def r12_4_index_range(ctx):
    ctx.rule("R12.4", "constant-block indices fit the one-byte immediate of intc/bytec: a program with more than 256 distinct repeated constants must not emit `intc 256`")
    f = ctx.model.find_func("createConstantBlocks", "pyteal.compiler.constants")
    cmod = f.module
    helpers = {x.name: x.node for x in cmod.all_funcs if x.cls is None}
    OpS = op_sym(ctx.model)
    ok, enumvals = True, named_int_table(ctx)

    def oracle(e, me):
        t = u(e)
        if t == "Op":
            return OpS
        if t == "intEnumValues":
            return dict(enumvals)
        if t == "OrderedDict":
            return dict
        if isinstance(e, ast.Name) and e.id in cmod.assigns:
            okc, vc = try_const(ctx.model, cmod, cmod.assigns[e.id])
            if okc:
                return vc
        raise Unknown()

    def setup(me):
        me.isinstance_hook = lambda v, c: (c.split(".")[-1] in v.attrs.get("$isa", ())) if isinstance(v, Sym) else (False if not isinstance(v, (int, str, bytes)) else None)

    ops = []
    for k in range(258):
        for _ in range(2):
            ops.append(_const_op(OpS, "int", 1000 + k, len(ops)))
    try:
        val, _ = run_function(f.node, {"ops": list(ops)}, oracle, f.fq, resolver=lambda nm: helpers.get(nm), setup=setup)
        worst = max([x.args[0] for x in val if isinstance(x, OpVal) and x.op == "intc"] or [0])
        ctx.check(worst <= 255, "R12.4", "createConstantBlocks:intc-index", f"258 distinct repeated integers >= 128 compile to `intc {worst}`: the index does not fit the opcode's one-byte immediate, the assembler rejects the program", f.where, fact={"max_index": worst})
    except Raised as r:
        ctx.ok("R12.4", "createConstantBlocks:intc-index", {"refused": r.exc_text[:60]}, f.where)
    # the same for byte-like constants, and every load site must still find its value (in the block or pushed)
    import base64 as _b64

    def oracle_b(e, me):
        t = u(e)
        if t == "base64":
            return _b64
        if t == "encoding":
            return Sym("encoding", methods={"checksum": fake_checksum, "decode_address": fake_decode_address})
        return oracle(e, me)

    util = ctx.model.module("pyteal.util")
    helpers_b = dict(helpers)
    helpers_b.update({x.name: x.node for x in util.all_funcs if x.cls is None and x.name in ("unescapeStr", "correctBase32Padding")})
    for label, mk in (("byte", lambda k: ("byte", "0x%04x" % k)), ("byte and method", lambda k: (("byte", "0x%04x" % k) if k % 2 else ("method_signature", '"m%d()void"' % k)))):
        ops = []
        for k in range(260):
            for _ in range(2):
                opn, arg = mk(k)
                ops.append(_const_op(OpS, opn, arg, len(ops)))
        construct = f"createConstantBlocks:bytec-index[{label}]"
        try:
            val, _ = run_function(f.node, {"ops": list(ops)}, oracle_b, f.fq, resolver=lambda nm: helpers_b.get(nm), setup=setup)
        except Raised as r:
            ctx.ok("R12.4", construct, {"refused": r.exc_text[:60]}, f.where)
            continue
        out = list(val)
        block = next(([block_value(a) for a in x.args] for x in out if isinstance(x, OpVal) and x.op == "bytecblock"), [])
        body = [x for x in out if not (isinstance(x, OpVal) and x.op in ("bytecblock", "intcblock"))]
        problems = []
        for orig, new in zip(ops, body):
            want = ref_value(orig.name.split(" ", 1)[0], orig.attrs["args"][0])
            if isinstance(new, OpVal) and new.op == "bytec":
                i = new.args[0]
                if not (isinstance(i, int) and 0 <= i <= 255):
                    problems.append(f"`bytec {i}` does not fit the one-byte immediate")
                elif i >= len(block) or block[i] != want:
                    problems.append(f"`bytec {i}` loads {block[i] if i < len(block) else 'nothing (block has ' + str(len(block)) + ' entries)'} instead of {want!r}")
            elif isinstance(new, OpVal) and new.op.startswith("bytec_"):
                i = int(new.op[6])
                if i >= len(block) or block[i] != want:
                    problems.append(f"`{new.op}` loads the wrong entry")
            elif isinstance(new, OpVal) and new.op == "pushbytes":
                if block_value(new.args[0]) != want:
                    problems.append("pushbytes pushes the wrong value")
            else:
                problems.append(f"{orig.name} became {new!r}")
            if len(problems) > 3:
                break
        if len(block) > 256:
            problems.append(f"bytecblock has {len(block)} entries")
        ctx.check(not problems, "R12.4", construct, f"260 distinct repeated byte constants: {'; '.join(problems[:3])}", f.where, fact={"block_entries": len(block)})


def _sdk_enum_member(ctx, module_name: str, cls_name: str, member: str):
    """value of an IntEnum member of the installed SDK, read from its source text (nothing is imported)"""
    import os
    import sysconfig

    rel = module_name.replace(".", os.sep) + ".py"
    for base in [sysconfig.get_paths()["purelib"]] + [p_ for p_ in __import__("sys").path if p_.endswith("site-packages")]:
        fn = os.path.join(base, rel)
        if os.path.exists(fn):
            tree = ast.parse(open(fn, encoding="utf-8").read())
            for st in tree.body:
                if isinstance(st, ast.ClassDef) and st.name == cls_name:
                    for x in st.body:
                        if isinstance(x, ast.Assign) and any(isinstance(t, ast.Name) and t.id == member for t in x.targets) and isinstance(x.value, ast.Constant) and isinstance(x.value.value, int):
                            return x.value.value
            return None
    return None


def _sdk_module_constant(module_name: str, name: str):
    """a module-level literal of the installed SDK, read from its source text (nothing is imported)"""
    import os
    import sysconfig

    rel = module_name.replace(".", os.sep)
    for base in [sysconfig.get_paths()["purelib"]] + [p_ for p_ in __import__("sys").path if p_.endswith("site-packages")]:
        for fn in (os.path.join(base, rel + ".py"), os.path.join(base, rel, "__init__.py")):
            if os.path.exists(fn):
                for st in ast.parse(open(fn, encoding="utf-8").read()).body:
                    if isinstance(st, ast.Assign) and any(isinstance(t, ast.Name) and t.id == name for t in st.targets):
                        try:
                            return ast.literal_eval(st.value)
                        except (ValueError, SyntaxError):
                            return None
                return None
    return None


def named_int_table(ctx) -> dict:
    """the constants pass's table of named integers; entries written as literals or as (int of) a member of an SDK enum"""
    cmod = ctx.model.module("pyteal.compiler.constants")
    node = cmod.assigns["intEnumValues"]
    ok, v = try_const(ctx.model, cmod, node)
    if ok:
        return v
    q.need(isinstance(node, ast.Dict), "intEnumValues is not a dict display")
    out = {}
    for k, val in zip(node.keys, node.values):
        q.need(isinstance(k, ast.Constant) and isinstance(k.value, str), "intEnumValues has a computed key")
        okv, cv = try_const(ctx.model, cmod, val)
        if okv:
            out[k.value] = cv
            continue
        inner = val.args[0] if isinstance(val, ast.Call) and u(val.func) == "int" and len(val.args) == 1 else val
        got = None
        if isinstance(inner, ast.Attribute) and isinstance(inner.value, ast.Name):
            imp = cmod.imports.get(inner.value.id, "")
            if imp.startswith("algosdk."):
                modname, _, clsname = imp.rpartition(".")
                got = _sdk_enum_member(ctx, modname, clsname, inner.attr)
        q.need(got is not None, f"intEnumValues[{k.value!r}] = `{u(val)}` cannot be resolved statically")
        out[k.value] = got
    return out


def r12_2b_named_ints(ctx):
    """shared with C08 / C09: the numbering behind `int NoOp`, `int axfer`, ... when constants are assembled"""
    ctx.rule("R12.2", "named integer constants: the table the constants pass reads equals the AVM's OnCompletion / transaction type numbering, and every EnumInt literal of the package is one of its names")
    cmod = ctx.model.module("pyteal.compiler.constants")
    q.need("intEnumValues" in cmod.assigns, "pyteal.compiler.constants.intEnumValues vanished")
    enumvals = named_int_table(ctx)
    ctx.check(enumvals == TL.NAMED_INTS, "R12.2", "intEnumValues", f"named integer constants {enumvals} must equal the AVM's OnCompletion / TxnType numbering {TL.NAMED_INTS}", cmod.rel, fact={"table": enumvals})
    n = 0
    for fn in ctx.model.modules.values():
        for node in ast.walk(fn.tree):
            if isinstance(node, ast.Call) and u(node.func) == "EnumInt" and node.args:
                a0 = node.args[0]
                if isinstance(a0, ast.Constant):
                    name = a0.value
                elif isinstance(a0, ast.Attribute) and isinstance(a0.value, ast.Name) and fn.imports.get(a0.value.id, "").startswith("algosdk"):
                    name = _sdk_module_constant(fn.imports[a0.value.id], a0.attr)
                    if name is None:
                        continue
                else:
                    continue  # EnumInt(<parameter>) inside the class itself
                n += 1
                tgt = getattr(node, "parent", None)
                attr = u(tgt.targets[0]) if isinstance(tgt, ast.Assign) else None
                ctx.check(name in TL.NAMED_INTS, "R12.2", f"EnumInt({name!r})", f"EnumInt({name!r}) is not a named integer constant of the AVM", f"{fn.rel}:{node.lineno}", fact={"bound_to": attr})
    q.need(n >= 12, f"only {n} EnumInt literals found; the OnComplete and TxnType enumerations have 13")
    # each public constant carries its own name: TxnType.AssetFreeze is `afrz`, not a neighbour's
    want_attr = {"TxnType": {"Unknown": "unknown", "Payment": "pay", "KeyRegistration": "keyreg", "AssetConfig": "acfg", "AssetTransfer": "axfer", "AssetFreeze": "afrz", "ApplicationCall": "appl"},
                 "OnComplete": {"NoOp": "NoOp", "OptIn": "OptIn", "CloseOut": "CloseOut", "ClearState": "ClearState", "UpdateApplication": "UpdateApplication", "DeleteApplication": "DeleteApplication"}}
    for cname, table in want_attr.items():
        c = ctx.model.find_class(cname)
        for attr, lit in table.items():
            node = c.class_attrs.get(attr)
            got = u(node) if node is not None else None
            if isinstance(node, ast.Call) and u(node.func) == "EnumInt" and node.args:
                a0 = node.args[0]
                if isinstance(a0, ast.Constant):
                    got = a0.value
                elif isinstance(a0, ast.Attribute) and isinstance(a0.value, ast.Name):
                    # a constant of the SDK (algosdk.constants.PAYMENT_TXN ...): read from its source text
                    imp = c.module.imports.get(a0.value.id, "")
                    if imp.startswith("algosdk"):
                        v = _sdk_module_constant(imp, a0.attr)
                        if v is not None:
                            got = v
            ctx.check(got == lit, "R12.2", f"{cname}.{attr}", f"{cname}.{attr} is EnumInt({got!r}); it names the constant `{lit}` (= {TL.NAMED_INTS.get(lit)})", c.where, fact={"literal": got})


class _IntSub(int):
    """an int subclass (what IntEnum / IntFlag members are)"""


def r12_5_int_operands(ctx):
    ctx.rule("R12.5", "emitter and reader agree on integer operands: every value the Int constructor accepts and lowers to an `int` pseudo-op is a value the constants pass can read back to the same number (plain ints, the range limits, int subclasses such as enum members, bool, strings)")
    ic = ctx.model.find_class("Int", "pyteal.ast.int")
    init = ic.methods["__init__"]
    ev = ctx.model.find_func("extractIntValue", "pyteal.compiler.constants")
    ctx.analysed(init.fq, ev.fq)
    OpS = op_sym(ctx.model)
    table = named_int_table(ctx)
    teal = ic.methods["__teal__"]
    ctx.analysed(teal.fq)

    def teal_oracle(e, me):
        t = u(e)
        if t == "Op":
            return OpS
        if t == "TealBlock":
            return Sym("TealBlock", methods={"FromOp": lambda options, op, *a: op})
        raise Unknown()

    for v in (0, 1, 127, 128, 2**64 - 1, _IntSub(1), _IntSub(0), _IntSub(300), True, False, 2**64, -1, "1", "TMPL_A", 1.0, "0xFF00", "0x10", "0b11", "0o17", "1_000"):
        selfs = Sym("self")
        try:
            run_function(init.node, {"self": selfs, "value": v}, lambda e, me: Sym("super", methods={"__init__": lambda: None}) if isinstance(e, ast.Call) and u(e) == "super()" else (_ for _ in ()).throw(Unknown()), init.fq, permissive=True)
            accepted = "value" in selfs.attrs
        except Raised:
            accepted = False
        construct = f"Int({type(v).__name__} {v!r})"
        if not accepted:
            ctx.ok("R12.5", construct, "refused by the constructor", init.where)
            continue
        # the operand of the pseudo-op is what the class's own lowering writes, not necessarily the stored value
        try:
            lowered, _ = run_function(teal.node, {"self": selfs, "options": Sym("options")}, teal_oracle, teal.fq, permissive=True)
            stored = lowered.args[0] if isinstance(lowered, OpVal) and lowered.op == "int" and len(lowered.args) == 1 else selfs.attrs["value"]
        except (Raised, AnalysisError):
            stored = selfs.attrs["value"]
        op = _const_op(OpS, "int", stored, 0)
        try:
            got, _ = run_function(ev.node, {"op": op}, lambda e, me: dict(table) if u(e) == "intEnumValues" else (_ for _ in ()).throw(Unknown()), ev.fq, permissive=True)
            ok = isinstance(got, int) and not isinstance(got, bool) and got == (int(v, 0) if isinstance(v, str) else int(v)) if not isinstance(v, bool) else False
            why = f"the constructor accepts it and the constants pass reads {got!r}"
        except Raised as r:
            ok = False
            why = f"the constructor accepts it (the plain program holds `int {stored}`) but the constants pass refuses it: {r.exc_text[:60]}"
        ctx.check(ok, "R12.5", construct, why, ev.where, fact={"stored": repr(stored)})
    ctx.require_min("R12.5", 12)


def r12_2_readers(ctx):
    ctx.rule("R12.2", "literal readers agree with the emitters: the constant-loading pseudo-ops handled are exactly int/byte/addr/method; every byte-literal syntax Bytes/Tmpl/Addr/MethodSignature can emit is understood; every EnumInt literal of the package is a named constant of the table; unknown forms raise")
    f = ctx.model.find_func("createConstantBlocks", "pyteal.compiler.constants")
    handled = sorted({n.attr for n in ast.walk(f.node) if isinstance(n, ast.Attribute) and u(n.value) == "Op" and isinstance(getattr(n, "parent", None), ast.Compare)})
    ctx.check(handled == ["addr", "byte", "int", "method_signature"], "R12.2", "createConstantBlocks:pseudo-ops", f"constant pseudo-ops handled: {handled}; the constant-loading pseudo-ops are int, byte, addr, method", f.where, fact={"handled": handled})
    # EnumInt literals
    n = 0
    for fn in ctx.model.modules.values():
        for node in ast.walk(fn.tree):
            if isinstance(node, ast.Call) and u(node.func) == "EnumInt" and node.args and isinstance(node.args[0], ast.Constant):
                n += 1
                name = node.args[0].value
                ctx.check(name in TL.NAMED_INTS, "R12.2", f"EnumInt({name!r})", f"EnumInt({name!r}) is not a named integer constant of the AVM", f"{fn.rel}:{node.lineno}", fact={})
    # byte syntaxes: what Bytes.__teal__ can emit
    b = ctx.model.find_class("Bytes", "pyteal.ast.bytes")
    teal = b.methods["__teal__"]
    forms = sorted(u(n.value) for n in walk_local(teal.node) if isinstance(n, ast.Assign) and u(n.targets[0]) == "payload")
    ctx.check(forms == sorted(["self.byte_str", "'0x' + self.byte_str", "f'{self.base}({self.byte_str})'"]), "R12.2", "Bytes.__teal__:forms", f"byte literal forms emitted: {forms}", teal.where, fact={"forms": forms})
    ebv = ctx.model.find_func("extractBytesValue", "pyteal.compiler.constants")
    tests = sorted(u(n.test) for n in walk_local(ebv.node) if isinstance(n, ast.If) and "startswith" in u(n.test))
    want = sorted(["value.startswith('TMPL_')", "value.startswith('\"') and value.endswith('\"')", "value.startswith('0x')", "value.startswith('base32(') and value.endswith(')')", "value.startswith('base64(') and value.endswith(')')"])
    ctx.check(tests == want, "R12.2", "extractBytesValue:forms", f"byte literal forms understood: {tests}", ebv.where, fact={"forms": tests})
    last = [s for s in ebv.node.body if isinstance(s, ast.Raise)]
    ctx.check(bool(last) and q.raise_type(last[-1]) == "TealInternalError", "R12.2", "extractBytesValue:unknown-raises", "an unknown literal form must raise", ebv.where, fact={})
    ctx.require_min("R12.2", 15)





def r12_6_byte_literal_agreement(ctx):
    import base64 as _b64
    import re as _re

    ctx.rule("R12.6", "emitter and reader agree on byte literals: whatever Bytes(...) accepts and lowers to a `byte` pseudo-op - every base name it takes (long and short spellings), strings, raw bytes - is an operand extractBytesValue reads back to the bytes the literal denotes under the TEAL grammar")
    b = ctx.model.find_class("Bytes", "pyteal.ast.bytes")
    init, teal = b.methods["__init__"], b.methods["__teal__"]
    ev = ctx.model.find_func("extractBytesValue", "pyteal.compiler.constants")
    ctx.analysed(init.fq, teal.fq, ev.fq)
    util, types_, cmod = ctx.model.module("pyteal.util"), ctx.model.module("pyteal.types"), ev.module
    helpers = {x.name: x.node for m_ in (util, types_, cmod) for x in m_.all_funcs if x.cls is None}
    OpS = op_sym(ctx.model)

    def oracle(e, me):
        t = u(e)
        if t == "re":
            return _re
        if t == "base64":
            return _b64
        if t == "Op":
            return OpS
        if isinstance(e, ast.Call) and t == "super()":
            return Sym("super", methods={"__init__": lambda: None})
        if t == "TealBlock":
            return Sym("TealBlock", methods={"FromOp": lambda options, op, *a: op})
        raise Unknown()

    cases = [("hello",), ("é",), (b"\x00\xff",), ("base16", "DEADBEEF"), ("base16", "0xdead"), ("hex", "dead"), ("b16", "dead"), ("base32", "MZXW6==="), ("base32", "MZXW6"), ("b32", "MZXW6"), ("base64", "Zm9v"), ("b64", "Zm9v"), ("base64", "Zg=="), ("utf8", "x"), ("BASE64", "Zm9v")]
    for args in cases:
        selfs = Sym("self:Bytes")
        construct = f"Bytes{args!r}"
        try:
            run_function(init.node, {"self": selfs, "arg1": args[0], "arg2": args[1] if len(args) > 1 else None}, oracle, init.fq, permissive=True, resolver=lambda nm: helpers.get(nm))
            op, _ = run_function(teal.node, {"self": selfs, "options": Sym("options")}, oracle, teal.fq, permissive=True, resolver=lambda nm: helpers.get(nm))
        except Raised:
            ctx.ok("R12.6", construct, "refused by the constructor", init.where)
            continue
        payload = op.args[0] if isinstance(op, OpVal) and op.op == "byte" and len(op.args) == 1 else None
        if not isinstance(payload, str):
            ctx.bad("R12.6", construct, f"lowered to {op!r}", teal.where)
            continue
        try:
            want = TL.decode_byte_arg(payload)
        except TL.LiteralError as e:
            ctx.bad("R12.6", construct, f"emits `byte {payload}`, which the TEAL grammar does not read ({e})", teal.where)
            continue
        sym = _const_op(OpS, "byte", payload, 0)
        try:
            got, _ = run_function(ev.node, {"op": sym}, oracle, ev.fq, permissive=True, resolver=lambda nm: helpers.get(nm))
            ok, why = got == want, f"emits `byte {payload}` = {want!r}; the constants pass reads {got!r}"
        except Raised as r:
            ok, why = False, f"emits `byte {payload}` (valid TEAL for {want!r}), which the constants pass refuses: {r.exc_text[:60]} - the program compiles only without assembleConstants"
        ctx.check(ok, "R12.6", construct, why, ev.where, fact={"operand": payload})
    ctx.require_min("R12.6", 12)


def run(ctx):
    r12_1_sites(ctx)
    r12_2_readers(ctx)
    r12_5_int_operands(ctx)
    r12_6_byte_literal_agreement(ctx)
    r12_4_index_range(ctx)
    from rules import c04 as _c04

    _c04.r04_5_final_sweep(ctx)  # option plumbing: constants pass only with version >= 3, after the sweep
    _c04.r04_1_op_table(ctx)  # intc_N / bytec_N / pushint / pushbytes members are spelled as the ops they name (shared with C04)
    return (
        "Abstract evaluation of createConstantBlocks and its literal readers on op lists mixing repeated/unique, small/large, named, template and differently spelled constants; "
        "each load site of the result is resolved through the emitted block and compared with an independent decoder of the TEAL literal grammar; reader/emitter form tables; "
        "index range. Run-time equality of the two programs follows only for the constant loads."
    )
