"""C13 - literals reach the program byte for byte (structural clauses)."""
from __future__ import annotations

import ast
import base64
import hashlib
import itertools
import re

from sa import q
from sa.astutil import u, walk_local
from sa.minieval import MiniEval, OpVal, Raised, Rec, Sym, Unknown, run_function
from sa.model import AnalysisError
from rules.c03 import op_sym
from spec import teal_literals as TL


def _oracle_re(e, me):
    if u(e) == "re":
        return re
    raise Unknown()


def r13_3_escape(ctx):
    ctx.rule("R13.3", "escapeStr: for every string (all single code points up to U+017F and boundary code points beyond, every pair and triple over the special characters) the emitted token is one TEAL token on one line whose value, read by the assembler's string grammar, is the string's UTF-8 encoding")
    f = ctx.model.find_func("escapeStr", "pyteal.util")
    ctx.analysed(f.fq)
    singles = [chr(c) for c in list(range(0, 0x180)) + [0x7FF, 0x800, 0x2028, 0x2029, 0xFFFD, 0xFFFF, 0x10000, 0x1F600, 0x10FFFF]]
    special = ['"', "\\", "\n", "\r", "\t", "/", ";", " ", "x", "0", "é", "😀", "\x00", "\x7f", "\x80", "\xff", "n", "'"]
    small = ['"', "\\", "/", "n", "x", "\n"]
    cases = list(singles) + ["".join(p) for p in itertools.product(special, repeat=2)] + ["".join(p) for p in itertools.product(small, repeat=3)] + ["", "//", "a//b", "a;b", "\\x41", "\\n", "C:\\new", 'say "hi"', "tab\there", "\\", "\\\\", '\\"', "\udcff", "a\ud800b", "\udc80\udcfe"]
    if ctx.tier == "thorough":
        cases += [chr(c) for c in range(0x180, 0x3000, 7)] + ["".join(p) for p in itertools.product(small, repeat=4)]
    bad = []
    for s in cases:
        try:
            s.encode("utf-8")
            encodable = True
        except UnicodeEncodeError:
            encodable = False  # a lone surrogate: the string has no UTF-8 encoding, so there are no bytes to hand over
        try:
            val, _ = run_function(f.node, {"s": s}, lambda e, me: (_ for _ in ()).throw(Unknown()), f.fq)
        except Raised as r:
            if encodable:
                bad.append((s, f"raises {r.exc_text[:40]}"))
            else:
                ctx.instances["R13.3"] = ctx.instances.get("R13.3", 0) + 1
            continue
        if not encodable:
            bad.append((s, f"emits `{val}` for a string that has no UTF-8 encoding (lone surrogate); it must be refused"))
            continue
        problem = None
        if not isinstance(val, str):
            problem = f"returns {val!r}"
        elif not TL.is_single_token(val):
            problem = f"emits `{val}`, which is not a single token on a single line (a line break, an unescaped quote or a comment/separator leaks out of the literal)"
        else:
            try:
                got = TL.decode_string_literal(val)
                if got != s.encode("utf-8"):
                    problem = f"emits `{val}`, which the assembler reads as {got!r}; the string's UTF-8 bytes are {s.encode('utf-8')!r}"
            except TL.LiteralError as e:
                problem = f"emits `{val}`, which the assembler rejects ({e})"
        if problem:
            bad.append((s, problem))
        else:
            ctx.instances["R13.3"] = ctx.instances.get("R13.3", 0) + 1
            if len(s) == 2 and s[0] == '"':
                ctx.ok("R13.3", f"escapeStr[{s!r}]", {"token": val}, f.where)
    for s, problem in bad[:6]:
        ctx.bad("R13.3", f"escapeStr[{s!r}]", problem, f.where)
    ctx.notes.append(f"R13.3: {len(cases)} strings evaluated, {len(bad)} wrong")
    ctx.require_min("R13.3", 500)


def _gen_strings(alphabet, maxlen):
    for L in range(0, maxlen + 1):
        for p in itertools.product(alphabet, repeat=L):
            yield "".join(p)


def r13_2_validators(ctx):
    ctx.rule("R13.2", "validators accept exactly the well-formed literals: base16/base32/base64 acceptance equals the RFC 4648 reference on all short strings over alphabets that include padding, out-of-alphabet characters and a line break; Int accepts exactly Python ints in [0, 2^64)")
    tmod = ctx.model.module("pyteal.types")
    for vname, ref, alphabet, maxlen, extra in (
        ("valid_base16", TL.valid_b16, ["0", "a", "F", "g", "x", "\n", " ", "\u0663", "\uff21"], 4, ["0x00", "ABCDEF", "abcde", "AbCdEf01"]),
        ("valid_base64", TL.valid_b64, ["A", "z", "9", "+", "/", "=", "\n", "-", "\u0663"], 4, ["Zm9v\n", "Zm9v", "Zm8=", "Zg==", "Zg=", "Zm9vYg==", "Zm9vYmE=", "Zm9vYmFy", "====", "Zm9v=", "\nZm9v", "Zm 9v"]),
        ("valid_base32", TL.valid_b32, ["A", "7", "2", "=", "a", "1", "\n", "\u0662"], 4, ["MZXW6===", "MZXW6", "MZXW6YQ=", "MZXW6YQ", "MZXW6YTB", "MY======", "MY", "MZXQ====", "MZXQ", "M", "MZX", "MZXW6Y", "MZXW6===\n", "MY=====", "MY=======", "ME======ME", "mzxw6ytb", "MZXW6YTBmzxw6ytb", "MZXW6YTBMZXW6YTB", "MZXW6YTBMZ"]),
    ):
        f = ctx.model.find_func(vname, "pyteal.types")
        ctx.analysed(f.fq)
        wrong = []
        n = 0
        cases = list(_gen_strings(alphabet, maxlen if ctx.tier == "quick" else maxlen + 1)) + extra
        for s in cases:
            try:
                run_function(f.node, {"s": s}, _oracle_re, f.fq)
                acc = True
            except Raised as r:
                acc = False
            n += 1
            if acc != ref(s):
                wrong.append((s, acc))
        if wrong:
            s, acc = wrong[0]
            ctx.bad("R13.2", vname, f"{vname}({s!r}) {'accepts' if acc else 'rejects'} but the string is {'not ' if acc else ''}a well-formed literal ({len(wrong)} of {n} strings disagree; e.g. {[w[0] for w in wrong[:4]]})", f.where)
        else:
            ctx.ok("R13.2", vname, {"strings": n}, f.where)
            ctx.instances["R13.2"] = ctx.instances.get("R13.2", 0) + n
    vt = ctx.model.find_func("valid_tmpl", "pyteal.types")
    for s, want in (("TMPL_A", True), ("TMPL_A_1", True), ("TMPL_", False), ("TMPL_a", False), ("TMPL_A\n", False), ("XTMPL_A", False), ("TMPL_A B", False), ("TMPL_A;", False), ("TMPL_\u00c9", False), ("TMPL_\u0661", False), ("TMPL_A\u2028", False)):
        try:
            run_function(vt.node, {"s": s}, _oracle_re, vt.fq)
            acc = True
        except Raised:
            acc = False
        ctx.check(acc == want, "R13.2", f"valid_tmpl[{s!r}]", f"valid_tmpl({s!r}) {'accepts' if acc else 'rejects'}", vt.where, fact={"accepted": acc})
    # Int
    ic = ctx.model.find_class("Int", "pyteal.ast.int")
    init = ic.methods["__init__"]
    ctx.analysed(init.fq)
    for v, want in ((0, True), (1, True), (2**64 - 1, True), (2**64, False), (-1, False), (True, False), (1.0, False), ("1", False), (None, False)):
        selfs = Sym("self")
        try:
            run_function(init.node, {"self": selfs, "value": v}, lambda e, me: Sym("super", methods={"__init__": lambda: None}) if isinstance(e, ast.Call) and u(e) == "super()" else (_ for _ in ()).throw(Unknown()), init.fq, permissive=True)
            acc = selfs.attrs.get("value") is v or selfs.attrs.get("value") == v
        except Raised as r:
            acc = False
        ctx.check(acc == want, "R13.2", f"Int({v!r})", f"Int({v!r}) is {'accepted' if acc else 'refused'}; expected {'accept' if want else 'refuse'}", init.where, fact={"accepted": acc})
    ctx.require_min("R13.2", 100)


def r13_1_bytes_forms(ctx):
    ctx.rule("R13.1", "Bytes / Addr / MethodSignature / Tmpl hand the assembler one well-formed token that denotes the user's bytes: utf-8 strings as escaped quoted strings, bytes as 0x-hex, base16/32/64 in their own syntax after validation; anything else is refused at construction")
    b = ctx.model.find_class("Bytes", "pyteal.ast.bytes")
    init, teal = b.methods["__init__"], b.methods["__teal__"]
    util = ctx.model.module("pyteal.util")
    types_ = ctx.model.module("pyteal.types")
    helpers = {x.name: x.node for x in util.all_funcs if x.cls is None}
    helpers.update({x.name: x.node for x in types_.all_funcs if x.cls is None})
    ctx.analysed(init.fq, teal.fq)
    OpS = op_sym(ctx.model)

    def oracle(e, me):
        t = u(e)
        if t == "re":
            return re
        if t == "Op":
            return OpS
        if isinstance(e, ast.Call) and t == "super()":
            return Sym("super", methods={"__init__": lambda: None})
        if t == "TealBlock":
            return Sym("TealBlock", methods={"FromOp": lambda options, op, *a: op})
        raise Unknown()

    cases = [
        (("hello",), b"hello"), (('q"uo\\te\n',), 'q"uo\\te\n'.encode()), (("é😀",), "é😀".encode()), (("",), b""), ((b"\x00\xff\"",), b"\x00\xff\""), ((bytearray(b"ab"),), b"ab"),
        (("base16", "0xDEADbeef"), bytes.fromhex("deadbeef")), (("base16", "00ff"), b"\x00\xff"), (("base16", ""), b""), (("base16", "0x"), b""),
        (("base32", "MZXW6==="), b"foo"), (("base32", "MZXW6"), b"foo"), (("base32", ""), b""),
        (("base64", "Zm9v"), b"foo"), (("base64", "Zg=="), b"f"), (("base64", ""), b""),
        (("base16", "abc"), None), (("base16", "0xzz"), None), (("base32", "mzxw6"), None), (("base32", "MZXW6=="), None), (("base64", "Zm9v\n"), None), (("base64", "Zg="), None), (("base64", "Zm9v)\nint 1"), None),
        (("base8", "17"), None), ((1,), None), (("base16", b"00"), None), ((None,), None), (("base64", "Zm9v", ), b"foo"),
    ]
    for args, want in cases:
        selfs = Sym("self:Bytes")
        construct = f"Bytes{args!r}"[:60]
        try:
            run_function(init.node, {"self": selfs, "arg1": args[0], "arg2": args[1] if len(args) > 1 else None}, oracle, init.fq, permissive=True, resolver=lambda nm: helpers.get(nm))
            op, _ = run_function(teal.node, {"self": selfs, "options": Sym("options")}, oracle, teal.fq, permissive=True)
            payload = op.args[0] if isinstance(op, OpVal) and op.op == "byte" and len(op.args) == 1 else None
            if payload is None:
                outcome = f"lowered to {op!r}"
            elif not TL.is_single_token(payload):
                outcome = f"emits `{payload}` (not a single token on one line)"
            else:
                try:
                    outcome = TL.decode_byte_arg(payload)
                except TL.LiteralError as e:
                    outcome = f"emits `{payload}`, which the assembler rejects ({e})"
        except Raised as r:
            outcome = None if "TealInputError" in r.exc_text else f"raises {r.exc_text[:40]}"
        ctx.check(outcome == want, "R13.1", construct, f"{construct} gives {outcome!r}; expected {'a TealInputError' if want is None else repr(want)}", init.where, fact={"outcome": repr(outcome)[:80]})
    # MethodSignature: the signature text is placed between quotes
    ms = ctx.model.find_class("MethodSignature", "pyteal.ast.methodsig")
    init, teal = ms.methods["__init__"], ms.methods["__teal__"]
    ctx.analysed(init.fq, teal.fq)
    for name, legal in (("add(uint64,uint64)uint64", True), ("f()void", True), ("caf\u00e9(uint64)void", True), ("f(uint64,\tbool)void", True), ("g(string) void", True), ("lookup(((uint64,bool),string))void", True), ("f((uint64,(bool,(byte,string))[])[3])(uint64,(bool,bool))", True), ("noargs()(uint64,uint64)", True), ("", False), (5, False), ('a"b()void', False), ("f()void\nint 0\nreturn", False), ("f()void\\", False), ("f()void\r", False)):
        selfs = Sym("self:MethodSignature")
        try:
            run_function(init.node, {"self": selfs, "methodName": name}, oracle, init.fq, permissive=True, resolver=lambda nm: helpers.get(nm))
            op, _ = run_function(teal.node, {"self": selfs, "options": Sym("options")}, oracle, teal.fq, permissive=True, resolver=lambda nm: helpers.get(nm))
            payload = op.args[0] if isinstance(op, OpVal) else None
            if not isinstance(payload, str) or not TL.is_single_token(payload):
                outcome = f"emits `{payload}`: the text escapes from the quoted token (injected TEAL)"
            elif payload != '"' + name + '"':
                # the `method` pseudo-op (and PyTeal's own reader) hashes the text between the quotes as it stands: no escape is undone
                outcome = f"emits `{payload}`; the selector is the hash of the text between the quotes, which must be the signature itself"
            else:
                outcome = "ok"
        except Raised as r:
            outcome = "refused" if "TealInputError" in r.exc_text else f"raises {r.exc_text[:40]}"
        want = "ok" if legal else "refused"
        ctx.check(outcome == want, "R13.1", f"MethodSignature({name!r})"[:60], f"MethodSignature({name!r}): {outcome}; expected {want}", init.where, fact={"outcome": outcome})
    ctx.require_min("R13.1", 30)


def r13_4_address(ctx):
    ctx.rule("R13.4", "Addr refuses malformed addresses at construction: wrong length, characters outside base32, and a wrong checksum")
    f = ctx.model.find_func("valid_address", "pyteal.types")
    types_ = ctx.model.module("pyteal.types")
    helpers = {x.name: x.node for x in types_.all_funcs if x.cls is None}
    ctx.analysed(f.fq)

    def mkaddr(pk: bytes, good=True) -> str:
        chk = hashlib.new("sha512_256", pk).digest()[-4:]
        if not good:
            chk = bytes([chk[0] ^ 1]) + chk[1:]
        return base64.b32encode(pk + chk).decode().rstrip("=")

    cases = [(mkaddr(bytes(32)), True, "zero address"), (mkaddr(bytes(range(32))), True, "well-formed"), (mkaddr(bytes(32))[:-1], False, "57 characters"), (mkaddr(bytes(32)) + "A", False, "59 characters"), (mkaddr(bytes(32)).lower(), False, "lower case"), (mkaddr(bytes(32))[:-1] + "1", False, "character outside base32"), (5, False, "not a string"), (mkaddr(bytes(range(32)), good=False), False, "wrong checksum")]
    # the text is emitted as written: anything around the 58 characters makes the `addr` token unreadable
    good = mkaddr(bytes(range(32)))
    cases += [(good + "=", False, "one trailing '='"), (good + "======", False, "base32 padding appended"), (good + " ", False, "a trailing blank"), (" " + good, False, "a leading blank"), (good + "\n", False, "a trailing line break"), (good.lower(), False, "lower-case letters")]
    for a, want, why in cases:
        try:
            run_function(f.node, {"address": a}, _oracle_re, f.fq, resolver=lambda nm: helpers.get(nm))
            acc = True
        except Raised as r:
            acc = False
        ctx.check(acc == want, "R13.4", f"valid_address[{why}]", f"an address with {why} is {'accepted' if acc else 'refused'}", f.where, fact={"accepted": acc})
    ctx.require_min("R13.4", 14)


def r13_5_abi_text_setters(ctx):
    from rules.abicommon import AbiWorld

    ctx.rule("R13.5", "ABI string / byte values set from Python text or bytes hold exactly that text: String.set(str) stores the uint16 length of the UTF-8 encoding followed by the UTF-8 encoding of the string as given (no normalisation, no re-encoding), String.set(bytes) / DynamicBytes.set(bytes) the length and the bytes, StaticBytes.set(bytes) / Address.set(bytes) the bytes - for ASCII, precomposed and decomposed accents, compatibility characters, emoji, NUL and the empty string")
    texts = ["", "abc", "café", "café", "Å", "가", "\U0001f600", "a\x00b", 'q"\\\n', "ﬁ", "x" * 254, "x" * 255, "y" * 256, "z" * 300, "w" * 511, "\u00e9" * 128, "v" * 65535]
    for cname, module, mk in (("String", "pyteal.ast.abi.string", lambda t: t), ("String", "pyteal.ast.abi.string", lambda t: t.encode("utf-8")), ("DynamicBytes", "pyteal.ast.abi.array_dynamic", lambda t: t.encode("utf-8"))):
        c = ctx.model.try_class(cname)
        if c is None:
            continue
        ctx.analysed(c.fq + ".set")
        for t in texts:
            W = AbiWorld(ctx)
            W.real_bases = {"BaseType"}
            arg = mk(t)
            enc = t.encode("utf-8")
            want = len(enc).to_bytes(2, "big") + enc
            construct = f"{cname}.set({type(arg).__name__} {t!r})" if len(t) <= 20 else f"{cname}.set({type(arg).__name__} {t[:1]!r} * {len(t)})"

            def extra(e, me):
                if isinstance(e, ast.Call) and u(e.func).endswith('from_string("uint16").encode') or (isinstance(e, ast.Call) and u(e.func) == "ABIType.from_string('uint16').encode"):
                    v = me.ev(e.args[0])
                    return int(v).to_bytes(2, "big")
                raise Unknown()

            try:
                inst = W.construct(cname, [], {})
                W.me.oracle = W.oracle(extra)
                res = inst.methods["set"](arg)
            except Raised as r:
                ctx.bad("R13.5", construct, f"refused: {r.exc_text[:60]}", c.where)
                continue
            # res = <storage>.store(Bytes(<payload>))
            payload = None
            if isinstance(res, Rec) and res.kind == "call" and res.args and isinstance(res.args[0], Rec) and res.args[0].is_call("Bytes") and res.args[0].args:
                payload = res.args[0].args[0]
            ok = isinstance(payload, (bytes, bytearray)) and bytes(payload) == want
            ctx.check(ok, "R13.5", construct, f"stores Bytes({repr(payload)[:60]}); the value given is {repr(want)[:60]} (uint16 length {len(want) - 2} + UTF-8 of the text as written)", c.where, fact={"stored": repr(payload)[:60]})
    ctx.require_min("R13.5", 20)


def run(ctx):
    r13_3_escape(ctx)
    r13_2_validators(ctx)
    r13_1_bytes_forms(ctx)
    r13_4_address(ctx)
    r13_5_abi_text_setters(ctx)
    from rules import c12 as _c12

    _c12.r12_4_index_range(ctx)  # ... also for the 257th distinct literal (shared with C12)
    _c12.r12_1_sites(ctx)  # with assembleConstants the literal is read back by PyTeal itself: the bytes pushed are the bytes the literal denotes (shared with C12)
    return (
        "Abstract evaluation of escapeStr, the literal validators and the Bytes/Int/MethodSignature constructors+lowerings on systematically generated literals, each result read back "
        "by an independent implementation of the TEAL literal grammar (one token, one line, denoted bytes) or compared with an RFC 4648 reference. Assembly of the bytes by a real "
        "assembler is not performed."
    )
