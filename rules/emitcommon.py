"""Shared by C01/C04/C05: all emission sites of the package, at class level (raw constructor,
symbolic arguments) and at factory level (every function/classmethod returning a freshly
constructed Expr), with ops resolved through the repository's own enums."""
from __future__ import annotations

import ast
from dataclasses import dataclass, field
from typing import Dict, List, Optional, Tuple

from sa.astutil import u
from sa.emit import Emit, Emission, ClassAnalysis
from sa.enumres import EnumResolver
from sa.model import AnalysisError, ClassInfo, FuncInfo
from sa.pe import alts, is_param, is_phi, show, _site_of, Result
from sa.tables import op_table
from spec import avm


# helper constructors whose result is of type none when called with exactly this many arguments
# (confirmed by reading: Comment(text) is a Seq of CommentExpr, each of type none)
NONE_TYPED_CALLS = {"Comment": 1}


@dataclass
class Operand:
    expr: ast.AST
    kind: str  # 'param' | 'nested' | 'star' | 'attr' | 'expr'
    param: Optional[str] = None
    sub: Optional[int] = None  # $p_x[<sub>]
    nested_cls: Optional[str] = None
    text: str = ""


@dataclass
class Site:
    level: str  # 'class' | 'factory'
    construct: str
    entry: Optional[FuncInfo]
    cls: ClassInfo
    ca: ClassAnalysis
    em: Emission
    ops: List[str]  # resolved Op member names ('?..' unresolved)
    operands: Optional[List[List[Operand]]]  # alternatives (phi over lists) of operand lists
    where: str = ""


def classify_operand(e: ast.AST, res: Result, model) -> Operand:
    t = show(res, e, 2)
    if isinstance(e, ast.Starred):
        return Operand(e, "star", text=t)
    p = is_param(e)
    if p is not None:
        return Operand(e, "param", param=p, text=t)
    if isinstance(e, ast.Subscript) and is_param(e.value) is not None and isinstance(e.slice, ast.Constant):
        return Operand(e, "param", param=is_param(e.value), sub=e.slice.value, text=t)
    k = _site_of(e)
    if k is not None and k in res.sites and isinstance(res.sites[k], ast.Call):
        c = res.sites[k]
        return Operand(e, "nested", nested_cls=u(c.func), text=t)
    if isinstance(e, ast.Attribute) and isinstance(e.value, ast.Name) and e.value.id == "self":
        return Operand(e, "attr", param=e.attr, text=t)
    return Operand(e, "expr", text=t)


def operand_alternatives(operands: List[ast.AST], res: Result, model) -> List[List[Operand]]:
    """expand `*$phi([a], [a, b])` and `*[a, b]` into alternative concrete lists"""
    outs: List[List[ast.AST]] = [[]]
    for o in operands:
        if isinstance(o, ast.Starred):
            v = o.value
            options = []
            for a in alts(v):
                if isinstance(a, (ast.List, ast.Tuple)) and not any(isinstance(x, ast.Starred) for x in a.elts):
                    options.append(list(a.elts))
                else:
                    options.append([ast.Starred(value=a, ctx=ast.Load())])
            outs = [x + opt for x in outs for opt in options]
        else:
            outs = [x + [o] for x in outs]
    return [[classify_operand(e, res, model) for e in lst] for lst in outs]


class Sites:
    def __init__(self, model):
        self.model = model
        self.E = Emit(model)
        self.enum = EnumResolver(model, self.E.pe)
        self.optab = op_table(model)
        self.class_sites: List[Site] = []
        self.factory_sites: List[Site] = []
        self.class_analyses: Dict[str, ClassAnalysis] = {}
        self.factory_analyses: List[Tuple[FuncInfo, ClassInfo, ClassAnalysis]] = []
        self._build()

    def resolve_ops(self, em: Emission) -> List[str]:
        out = []
        for o in em.op_alts:
            if not o.startswith("?"):
                out.append(o)
                continue
            # try the enum resolver on the op expression
            e = em.event.call.args[1]
            resolved = []
            for a in alts(e):
                r = self.enum.resolve_deep(a, em.res)
                for b in alts(r):
                    t = u(b)
                    resolved.append(t[3:] if t.startswith("Op.") and t.count(".") == 1 else "?" + t)
            return resolved
        return out

    def teal_name(self, member: str) -> Optional[str]:
        row = self.optab.get(member)
        return row["teal"] if row else None

    def sig(self, member: str):
        tn = self.teal_name(member)
        return avm.OPS.get(tn) if tn else None

    def _build(self):
        m = self.model
        for c in self.E.expr_classes():
            if not c.module.name.startswith("pyteal.ast"):
                continue
            ca = self.E.analyse_class(c)
            self.class_analyses[c.fq] = ca
            for em in ca.emissions:
                ops = self.resolve_ops(em)
                operands = operand_alternatives(em.operands, em.res, m) if em.operands is not None else None
                self.class_sites.append(Site("class", f"class {c.name}", None, c, ca, em, ops, operands, em.where))
        for f, res, hits in self.E.factories():
            if not f.module.name.startswith("pyteal.ast"):
                continue
            for call, cls in hits:
                ca = self.E.analyse_class(cls, call, f, res)
                self.factory_analyses.append((f, cls, ca))
                for em in ca.emissions:
                    ops = self.resolve_ops(em)
                    operands = operand_alternatives(em.operands, em.res, m) if em.operands is not None else None
                    self.factory_sites.append(Site("factory", f"{f.qualname}->{cls.name}", f, cls, ca, em, ops, operands, f.where))

    # ------------------------------------------------------------------ type knowledge
    def nested_type(self, op: Operand, res: Result) -> Optional[str]:
        """declared TealType name of a nested constructed expression (e.g. Int(..) -> uint64)"""
        if op.kind != "nested":
            return None
        name = (op.nested_cls or "").split(".")[-1]
        if name in NONE_TYPED_CALLS:
            k = _site_of(op.expr)
            c0 = res.sites.get(k)
            if isinstance(c0, ast.Call) and len(c0.args) + len(c0.keywords) == NONE_TYPED_CALLS[name]:
                return "none"
        c = self.model.try_class(name)
        if c is None:
            # factory function returning an Expr?  e.g. Int is a class; Comment is a function
            f = self.model.try_func(name)
            if f is not None:
                for (ff, cls, ca) in self.factory_analyses:
                    if ff is f and ca.type_of is not None:
                        return _type_name(ca.type_of.ret_value())
            return None
        ca = self.class_analyses.get(c.fq)
        if ca is None or ca.type_of is None:
            return None
        return _type_name(ca.type_of.ret_value())


def _type_name(e: ast.AST, enum=None, res=None) -> Optional[str]:
    names = set()
    for a in alts(e):
        if enum is not None:
            a = enum.resolve_deep(a, res)
        t = u(a)
        if t.startswith("TealType."):
            names.add(t.split(".")[1])
        else:
            return None
    return names.pop() if len(names) == 1 else None


_SITES_CACHE: Dict[int, Sites] = {}


def get_sites(model) -> Sites:
    k = id(model)
    if k not in _SITES_CACHE:
        _SITES_CACHE[k] = Sites(model)
    return _SITES_CACHE[k]


def constraint_types(site: Site, operand: Operand) -> List[str]:
    """TealType names required (by require_type in factory, constructor or __teal__) of the operand;
    other type expressions are returned as '=<text>'"""
    out = []
    target = ast.dump(operand.expr)
    for subj, ty, ev in site.em.path.constraints():
        hit = False
        for s in alts(subj):
            if ast.dump(s) == target:
                hit = True
            # loop form: for arg in args: require_type(arg, T)  -> subject $each(<list containing operand>)
            if isinstance(s, ast.Call) and isinstance(s.func, ast.Name) and s.func.id == "$each" and s.args:
                coll = s.args[0]
                for c in alts(coll):
                    if isinstance(c, (ast.List, ast.Tuple)) and any(ast.dump(x) == target for x in c.elts):
                        hit = True
                    if isinstance(operand.expr, ast.Starred) and ast.dump(operand.expr.value) == ast.dump(c):
                        hit = True
        if hit:
            for t in alts(ty):
                tt = u(t)
                out.append(tt.split(".")[1] if tt.startswith("TealType.") else "=" + show(site.em.res, t, 2))
    return out
