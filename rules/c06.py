"""C06 - ABI values assembled in PyTeal encode exactly per ARC-4 (structural clauses)."""
from __future__ import annotations

import ast
import itertools

from sa import q
from sa.astutil import u, walk_local
from sa.minieval import MiniEval, Raised, Rec, Sym, Unknown, run_function
from sa.model import AnalysisError
from rules.abicommon import AbiWorld, strip, intval
from spec import arc4


def shapes(depth):
    leaves = [("bool",), ("byte",), ("uint", 8), ("uint", 16), ("uint", 32), ("uint", 64), ("address",), ("string",), ("bytes_dyn",), ("bytes_static", 7)]
    out = list(leaves)
    level = leaves
    for _ in range(depth):
        new = []
        for t in level[:10]:
            new += [("sarr", t, 0), ("sarr", t, 1), ("sarr", t, 9), ("darr", t)]
        base = level[:6]
        for t in base:
            new.append(("tuple", (t,)))
        for a, b in itertools.product([("bool",), ("uint", 64), ("string",), ("byte",)], repeat=2):
            new.append(("tuple", (a, b)))
        new += [("tuple", ()), ("tuple", (("bool",),) * 9), ("tuple", (("bool",), ("bool",), ("uint", 8), ("bool",))), ("tuple", (("string",), ("bool",), ("bool",), ("string",), ("uint", 16)))]
        new = [x for x in new if x not in out]
        out += new
        level = new
    return out + [("txn", k) for k in arc4.TXN_KINDS] + [("ref", k) for k in arc4.REF_KINDS]


def r06_1_descriptors(ctx):
    ctx.rule("R06.1", "type descriptors agree with ARC-4: for every shape of a bounded nested universe the repository's own __str__, is_dynamic and byte_length_static (interpreted from its classes) give the ARC-4 signature string, dynamic-ness and static byte length (bool arrays and bool runs packed 8 per byte)")
    W = AbiWorld(ctx)
    n = 0
    for s in shapes(1 if ctx.tier == "quick" else 2):
        construct = f"typespec[{arc4.sig(s)}]"
        try:
            spec = W.spec(s)
            got_sig = spec.methods["__str__"]()
            got_dyn = spec.methods["is_dynamic"]() if s[0] != "txn" else None
            if s[0] == "txn":
                got_len = None
            else:
                try:
                    got_len = spec.methods["byte_length_static"]()
                except Raised as r:
                    got_len = "raises"
        except Raised as r:
            ctx.bad("R06.1", construct, f"constructing/inspecting the type spec raises {r.exc_text[:60]}", "")
            continue
        want_sig = arc4.sig(s)
        want_dyn = (False if s[0] == "ref" else arc4.is_dynamic(s)) if s[0] != "txn" else None
        want_len = None if s[0] == "txn" else ("raises" if want_dyn else arc4.byte_len(s))
        problems = []
        if got_sig != want_sig:
            problems.append(f"signature string {got_sig!r}, ARC-4 says {want_sig!r}")
        if bool(got_dyn) != bool(want_dyn) and want_dyn is not None:
            problems.append(f"is_dynamic() = {got_dyn}, ARC-4 says {want_dyn}")
        if got_len != want_len:
            problems.append(f"byte_length_static() = {got_len}, ARC-4 says {want_len}")
        n += 1
        ctx.check(not problems, "R06.1", construct, "; ".join(problems), W.model.find_class(arc4.class_of(s)).where, fact={"sig": got_sig, "dynamic": got_dyn, "static_len": got_len})
    ctx.require_min("R06.1", 60)


class Lin:
    """linear form  c + sum(len(enc_j))  used to follow the running tail offset"""

    def __init__(self, c=0, lens=()):
        self.c, self.lens = c, tuple(lens)

    def __add__(self, o):
        return Lin(self.c + o.c, self.lens + o.lens)

    def __eq__(self, o):
        return isinstance(o, Lin) and self.c == o.c and sorted(self.lens) == sorted(o.lens)

    def __repr__(self):
        return f"{self.c}" + "".join(f"+len({x})" for x in self.lens)


def r06_2_encode_tuple(ctx):
    ctx.rule("R06.2", "_encode_tuple lays a tuple out per ARC-4: heads in member order with maximal bool runs packed, each dynamic member's head holds head_length + total length of the earlier tails, tails appended once in order; the head length equals the ARC-4 head length (bounded enumeration of member-kind sequences, symbolic member values)")
    W = AbiWorld(ctx)
    f = ctx.model.find_func("_encode_tuple", "pyteal.ast.abi.tuple")
    ctx.analysed(f.fq, "pyteal.ast.abi.bool._consecutive_bool_instance_num", "pyteal.ast.abi.bool._bool_sequence_length")
    # E = the empty tuple `()`, Z = `byte[0]`: members whose encoding is always empty are still members (they end a bool run)
    kinds = {"B": ("bool",), "U": ("uint", 64), "b": ("byte",), "S": ("string",), "D": ("darr", ("uint", 16)), "A": ("sarr", ("byte",), 3), "E": ("tuple", ()), "Z": ("sarr", ("byte",), 0)}
    maxlen = 4 if ctx.tier == "quick" else 5
    seqs = [""] + ["".join(p) for L in range(1, maxlen + 1) for p in itertools.product("BUSb" if L > 3 else "BUbSDA", repeat=L)]
    seqs += ["B" * 9, "B" * 8 + "U", "BBSSS", "BBSS", "SBBBBBBBBBS", "UBBBUBS", "SUSUS"]
    seqs += ["E", "Z", "BEB", "BZB", "BBEBB", "EBB", "BBE", "SEB", "BES", "UEZU", "BEBS", "EE", "SZS"]
    # the same value object may be given for several members (t.set(s, s)): members are positions, not objects
    seqs = [(sq, False) for sq in seqs] + [(sq, True) for sq in ("SS", "SUS", "SSU", "DSD", "SSS", "USBS")]
    for sq, aliased in seqs:
        members = [kinds[c] for c in sq]
        rep = {i: (sq.index(c) if aliased and c in "SD" else i) for i, c in enumerate(sq)}
        vals = []
        for i, m in enumerate(members):
            if rep[i] != i:
                vals.append(vals[rep[i]])
                continue
            sp = W.spec(m)
            v = Sym(f"v{i}", attrs={"$isa": {"BaseType"} | ({"Bool"} if m == ("bool",) else set())})
            v.methods["type_spec"] = (lambda sp: lambda: sp)(sp)
            v.methods["encode"] = (lambda i: lambda: Rec("name", f"enc{i}"))(i)
            v.methods["get"] = (lambda i: lambda: Rec("name", f"get{i}"))(i)
            vals.append(v)
        counters = {"u16": 0, "var": 0}

        def mk_uint16():
            counters["u16"] += 1
            nm = f"u16_{counters['u16']}"
            s_ = Sym(nm)
            s_.methods.update({"set": lambda x, nm=nm: Rec("call", Rec("name", f"{nm}.set"), [x], {}), "get": lambda nm=nm: Rec("name", f"{nm}.get"), "encode": lambda nm=nm: Rec("name", f"{nm}.encode")})
            return s_

        def mk_var(t):
            counters["var"] += 1
            nm = f"var_{counters['var']}"
            s_ = Sym(nm)
            s_.methods.update({"store": lambda x, nm=nm: Rec("call", Rec("name", f"{nm}.store"), [x], {}), "load": lambda nm=nm: Rec("name", f"{nm}.load")})
            return s_

        def extra(e, me):
            t = u(e)
            if t == "Uint16":
                return mk_uint16
            if t == "alloc_abstract_var":
                return mk_var
            if isinstance(e, ast.Call) and u(e.func) == "_encode_bool_sequence":
                vs = me.ev(e.args[0])
                return Rec("call", Rec("name", "boolrun"), [[v.name for v in vs]], {})
            raise Unknown()

        construct = f"_encode_tuple[{sq or 'empty'}{', one object for equal letters' if aliased else ''}]"
        try:
            val, _ = W.run(f.node, {"values": list(vals)}, extra, f.fq)
        except Raised as r:
            ctx.bad("R06.2", construct, f"raises {r.exc_text[:60]}", f.where)
            continue
        if not members:
            ctx.check(isinstance(val, Rec) and val.is_call("Bytes") and val.args == [""], "R06.2", construct, f"the empty tuple must encode to the empty byte string; got {strip(val)}", f.where, fact={})
            continue
        if isinstance(val, Rec) and val.is_call("Bytes") and val.args == [""] and all(not arc4.is_dynamic(m) and arc4.byte_len(m) == 0 for m in members):
            ctx.ok("R06.2", construct, {"encoding": "empty"}, f.where)  # only always-empty members: the empty string is their encoding
            continue
        if not (isinstance(val, Rec) and val.is_call("Concat")):
            ctx.bad("R06.2", construct, f"{len(members)} member(s) are encoded as {strip(val)[:80]}: the members' own encodings are not part of the result", f.where)
            continue
        parts = val.args
        # reference
        H = arc4.tuple_head_len(members)
        dyn_idx = [i for i, m in enumerate(members) if arc4.is_dynamic(m)]
        want_heads = []
        i = 0
        while i < len(members):
            if members[i] == ("bool",):
                j = i
                while j < len(members) and members[j] == ("bool",):
                    j += 1
                want_heads.append(("boolrun", [f"v{k}" for k in range(i, j)]))
                i = j
            elif arc4.is_dynamic(members[i]):
                want_heads.append(("dyn", i))
                i += 1
            else:
                want_heads.append(("static", i))
                i += 1
        problems = []
        heads = parts[:len(want_heads)]
        tail = parts[len(want_heads):]
        if len(parts) != len(want_heads) + (1 if dyn_idx else 0):
            problems.append(f"{len(parts)} concatenated parts; expected {len(want_heads)} heads{' + the tail' if dyn_idx else ''}")
        # interpret the dynamic heads in order with a tiny state machine
        state = {}
        tail_parts = []
        offsets = {}
        for hw, h in zip(want_heads, heads):
            if hw[0] == "boolrun":
                if not (isinstance(h, Rec) and h.is_call("boolrun") and h.args[0] == hw[1]):
                    problems.append(f"head {strip(h)[:50]} where the bool run {hw[1]} is expected (maximal runs, in order)")
            elif hw[0] == "static":
                if strip(h) != f"enc{rep[hw[1]]}":
                    problems.append(f"head {strip(h)[:50]} where the encoding of member {hw[1]} is expected")
            else:
                k = hw[1]
                if not (isinstance(h, Rec) and h.is_call("Seq")):
                    problems.append(f"head of dynamic member {k} is {strip(h)[:50]}")
                    continue
                emitted = None

                def ev(t):
                    txt = strip(t)
                    if isinstance(t, int):
                        return Lin(t)
                    if isinstance(t, Sym) and t.name in state:
                        return state[t.name]  # a Uint16 object given as value: its current content
                    if txt.endswith(".get") or txt.endswith(".load"):
                        return state.get(txt.rsplit(".", 1)[0])
                    if isinstance(t, Rec) and t.is_call("Len"):
                        inner = ev(t.args[0])
                        return Lin(0, [inner]) if isinstance(inner, str) else None
                    if isinstance(t, Rec) and t.fn == "$binop:Add":
                        a, b = ev(t.args[0]), ev(t.args[1])
                        return a + b if isinstance(a, Lin) and isinstance(b, Lin) else None
                    if isinstance(t, Rec) and t.is_call("Concat"):
                        out_ = []
                        for x in t.args:
                            v = ev(x)
                            out_ += v if isinstance(v, list) else [v]
                        return out_
                    if txt.startswith("enc"):
                        return txt
                    return None

                def run(t):
                    nonlocal emitted
                    if isinstance(t, Rec) and t.is_call("Seq"):
                        for x in t.args:
                            run(x)
                        return
                    txt = strip(t)
                    if isinstance(t, Rec) and t.kind == "call" and (t.fn.endswith(".set") or t.fn.endswith(".store")):
                        v = ev(t.args[0])
                        if isinstance(v, str):
                            v = v if t.fn.endswith(".store") and not t.fn.startswith("u16") else v
                        state[t.fn.rsplit(".", 1)[0]] = v
                        return
                    if txt.endswith(".encode"):
                        emitted = state.get(txt.rsplit(".", 1)[0])
                        return
                    raise AnalysisError(f"{f.fq}: unrecognised element {txt[:60]} in the head of a dynamic member")

                run(h)
                earlier = [f"enc{rep[j]}" for j in dyn_idx if j < k]
                want_off = Lin(H, earlier)
                offsets[k] = emitted
                if emitted != want_off:
                    problems.append(f"the head of dynamic member {k} holds offset {emitted!r}; ARC-4 says {want_off!r} (head length {H} plus the lengths of the earlier tails)")
        if dyn_idx:
            # the tail holder finally holds all tails in order
            if len(tail) == 1 and strip(tail[0]).endswith(".load"):
                th = state.get(strip(tail[0]).rsplit(".", 1)[0])
                th = th if isinstance(th, list) else [th]
                if th != [f"enc{rep[j]}" for j in dyn_idx]:
                    problems.append(f"the concatenated tail is {th}; expected the encodings of the dynamic members in order {[f'enc{rep[j]}' for j in dyn_idx]}")
            else:
                problems.append(f"the tail part is {[strip(x)[:40] for x in tail]}")
        ctx.check(not problems, "R06.2", construct, "; ".join(problems[:3]), f.where, fact={"head_length": H, "offsets": {k: repr(v) for k, v in offsets.items()}})
    ctx.require_min("R06.2", 100)


def r06_3_uint(ctx):
    ctx.rule("R06.3", "integers are range-checked and encoded big-endian at their width: uint_set refuses Python ints >= 2^size, guards unchecked expressions narrower than 64 bits with Assert(value < 2^size), Uint.set refuses ABI values of another width, uint_encode keeps exactly size/8 low-order bytes of itob")
    W = AbiWorld(ctx)
    us = ctx.model.find_func("uint_set", "pyteal.ast.abi.uint")
    ue = ctx.model.find_func("uint_encode", "pyteal.ast.abi.uint")
    ctx.analysed(us.fq, ue.fq)
    for size in (8, 16, 32, 64):
        var = Sym("var", methods={"store": lambda x: Rec("call", Rec("name", "STORE"), [x], {}), "load": lambda: Rec("name", "LOAD")})
        var.attrs["$isa"] = {"AbstractVar"}
        for v, kind in ((0, "int"), (2**size - 1, "int"), (2**size, "int-too-big"), (2**70, "int-too-big"), (Rec("name", "EXPR"), "expr"), (Sym("uint", attrs={"$isa": {"Uint", "BaseType"}}, methods={"get": lambda: Rec("name", "OTHER.get")}), "uint")):
            construct = f"uint_set[size={size},{kind}{'' if not isinstance(v, int) else '=' + (str(v) if v < 10 else '2^' + str(v.bit_length() - 1) + ('' if v & (v - 1) == 0 else '-1'))}]"
            try:
                val, _ = W.run(us.node, {"size": size, "uint_var": var, "value": v}, None, us.fq)
                txt = strip(val)
            except Raised as r:
                txt = "refused" if "TealInputError" in r.exc_text else "raises " + r.exc_text[:30]
            if kind == "int":
                want = f"STORE(Int({v}))"
            elif kind == "int-too-big":
                want = "refused"
            elif kind == "uint":
                want = "STORE(OTHER.get)"
            else:
                want = "STORE(EXPR)" if size == 64 else f"Seq(STORE(EXPR), Assert($cmp:Lt(LOAD, Int({2**size}))))"
            ctx.check(txt == want, "R06.3", construct, f"gives {txt}; expected {want}", us.where, fact={"result": txt})
        # encode
        v = Sym("var", attrs={"$isa": {"AbstractVar"}}, methods={"load": lambda: Rec("name", "LOAD")})
        val, _ = W.run(ue.node, {"size": size, "uint_var": v}, None, ue.fq)
        txt = strip(val)
        nbytes = size // 8
        want = {8: "SetByte(Bytes(b'\\x00'), Int(0), LOAD)", 64: "Itob(LOAD)"}.get(size, f"Suffix(Itob(LOAD), Int({8 - nbytes}))")
        ctx.check(txt == want, "R06.3", f"uint_encode[size={size}]", f"gives {txt}; a uint{size} is the last {nbytes} byte(s) of the 8-byte big-endian itob: {want}", ue.where, fact={"result": txt})
    # Uint.set width guard
    uc = ctx.model.find_class("Uint", "pyteal.ast.abi.uint")
    st = uc.methods["set"]
    ctx.analysed(st.fq)
    for mine, other in itertools.product((8, 16, 64), repeat=2):
        my_spec = Sym("myspec", attrs={"$isa": {"UintTypeSpec", "TypeSpec"}}, methods={"bit_size": lambda mine=mine: mine})
        ot_spec = Sym("otspec", attrs={"$isa": {"UintTypeSpec", "TypeSpec"}}, methods={"bit_size": lambda other=other: other})
        selfs = Sym("self", attrs={"_stored_value": Sym("sv"), "$isa": {"Uint", "BaseType"}}, methods={"type_spec": lambda: my_spec})
        val_ = Sym("other", attrs={"$isa": {"Uint", "BaseType"}}, methods={"type_spec": lambda: ot_spec, "get": lambda: Rec("name", "OTHER.get")})

        def extra(e, me):
            if isinstance(e, ast.Call) and u(e.func) == "uint_set":
                return "STORED"
            raise Unknown()

        try:
            r_, _ = W.run(st.node, {"self": selfs, "value": val_}, extra, st.fq)
            out = "accepted"
        except Raised as r:
            out = "refused"
        ctx.check((out == "accepted") == (mine == other), "R06.3", f"Uint.set[uint{mine} <- uint{other}]", f"copying a uint{other} into a uint{mine} is {out}", st.where, fact={"outcome": out})
    nonuint = Sym("other", attrs={"$isa": {"Bool", "BaseType"}}, methods={"type_spec": lambda: Sym("boolspec", attrs={"$isa": {"BoolTypeSpec", "TypeSpec"}})})
    selfs = Sym("self", attrs={"_stored_value": Sym("sv"), "$isa": {"Uint", "BaseType"}}, methods={"type_spec": lambda: Sym("myspec", attrs={"$isa": {"UintTypeSpec"}}, methods={"bit_size": lambda: 8})})
    try:
        W.run(st.node, {"self": selfs, "value": nonuint}, lambda e, me: "STORED" if isinstance(e, ast.Call) and u(e.func) == "uint_set" else (_ for _ in ()).throw(Unknown()), st.fq)
        out = "accepted"
    except Raised:
        out = "refused"
    ctx.check(out == "refused", "R06.3", "Uint.set[uint8 <- bool]", f"copying a Bool into a uint8 is {out}", st.where, fact={})
    ctx.require_min("R06.3", 30)


def r06_4_bool_and_prefix(ctx):
    ctx.rule("R06.4", "bool packing and length prefixes: n consecutive bools occupy ceil(n/8) bytes with bool i at bit i (most significant first, as setbit numbers bits); Bool.set normalises expressions to 0/1; a dynamic array's encoding starts with the uint16 element count")
    W = AbiWorld(ctx)
    bsl = ctx.model.find_func("_bool_sequence_length", "pyteal.ast.abi.bool")
    ebs = ctx.model.find_func("_encode_bool_sequence", "pyteal.ast.abi.bool")
    ctx.analysed(bsl.fq, ebs.fq)
    for n in (0, 1, 7, 8, 9, 16, 17):
        val, _ = W.run(bsl.node, {"num_bools": n}, None, bsl.fq)
        ctx.check(val == (n + 7) // 8, "R06.4", f"_bool_sequence_length[{n}]", f"{n} bools take {val} byte(s); ARC-4 says {(n + 7) // 8}", bsl.where, fact={"bytes": val})
    for n in (1, 3, 9):
        vals = [Sym(f"b{i}", methods={"get": (lambda i: lambda: Rec("name", f"get{i}"))(i)}) for i in range(n)]
        val, _ = W.run(ebs.node, {"values": vals}, None, ebs.fq)
        want = f"Bytes({bytes((n + 7) // 8)!r})"
        for i in range(n):
            want = f"SetBit({want}, Int({i}), get{i})"
        ctx.check(strip(val) == want, "R06.4", f"_encode_bool_sequence[{n}]", f"gives {strip(val)[:120]}; expected bool i at bit i of {(n + 7) // 8} zero byte(s)", ebs.where, fact={})
    bc = ctx.model.find_class("Bool", "pyteal.ast.abi.bool")
    st = bc.methods["set"]
    ctx.analysed(st.fq)
    sv = Sym("sv", methods={"store": lambda x: Rec("call", Rec("name", "STORE"), [x], {})})
    selfs = Sym("self", attrs={"_stored_value": sv, "$isa": {"Bool", "BaseType"}}, methods={"type_spec": lambda: W.spec(("bool",))})
    exprs = [Sym("e", attrs={"$isa": {"Expr"} | extra_isa}, methods={"type_of": lambda: "TealType.uint64"}) for extra_isa in (set(), {"BinaryExpr"}, {"UnaryExpr"}, {"NaryExpr"}, {"ScratchLoad", "LeafExpr"}, {"TernaryExpr"})]
    for v, want in [(True, "STORE(Int(1))"), (False, "STORE(Int(0))")] + [(e_, "STORE(Not(Not(e)))") for e_ in exprs]:
        def extra(e, me):
            if isinstance(e, ast.Call) and u(e.func) == "require_type":
                return None
            raise Unknown()
        try:
            val, _ = W.run(st.node, {"self": selfs, "value": v}, extra, st.fq)
            txt = strip(val)
        except Raised as r:
            txt = "raises " + r.exc_text[:40]
        ctx.check(txt == want, "R06.4", f"Bool.set[{v if not isinstance(v, Sym) else 'expression of class ' + '/'.join(sorted(v.attrs['$isa'] - {'Expr'}) or ['Expr'])}]", f"gives {txt}; expected {want} (any uint64 expression - a difference, a bitwise and, a loaded value - can exceed 1 and must be normalised)", st.where, fact={})
    # dynamic array length prefix
    ar = ctx.model.find_class("Array", "pyteal.ast.abi.array_base")
    st = ar.methods["set"]
    ctx.analysed(st.fq)
    for dyn in (True, False):
        elem_spec = W.spec(("uint", 64))
        tspec = Sym("arrspec", methods={"value_type_spec": lambda: elem_spec, "is_length_dynamic": lambda dyn=dyn: dyn})
        sv = Sym("sv", methods={"store": lambda x: Rec("call", Rec("name", "STORE"), [x], {})})
        selfs = Sym("self", attrs={"_stored_value": sv}, methods={"type_spec": lambda: tspec})
        vals = [Sym(f"v{i}", methods={"type_spec": lambda: elem_spec}) for i in range(3)]

        def extra(e, me):
            t = u(e)
            if isinstance(e, ast.Call) and u(e.func) == "_encode_tuple":
                return Rec("name", "TUPLE-ENCODING")
            if t == "Uint16":
                return lambda: Sym("u16", methods={"set": lambda x: Rec("call", Rec("name", "u16.set"), [x], {}), "encode": lambda: Rec("name", "u16.encode")})
            raise Unknown()

        val, _ = W.run(st.node, {"self": selfs, "values": vals}, extra, st.fq)
        want = "STORE(Concat(Seq(u16.set(3), u16.encode), TUPLE-ENCODING))" if dyn else "STORE(TUPLE-ENCODING)"
        ctx.check(strip(val) == want, "R06.4", f"Array.set[{'dynamic' if dyn else 'static'}]", f"gives {strip(val)}; expected {want}", st.where, fact={})
    ctx.require_min("R06.4", 14)


def r06_5_sequence_setters(ctx):
    ctx.rule("R06.5", "arrays and addresses assembled from element values accept any sequence of the right elements: a list and a tuple of the same element values are both accepted by StaticArray.set, DynamicArray.set and Address.set and build the same expression; a sequence of the wrong length is refused for the fixed-length types")
    W = AbiWorld(ctx)
    W.real_bases = {"BaseType"}
    cases = [(("sarr", ("uint", 8), 3), ("uint", 8), 3), (("darr", ("uint", 16)), ("uint", 16), 2), (("address",), ("byte",), 32), (("sarr", ("bool",), 9), ("bool",), 9), (("darr", ("string",)), ("string",), 2)]
    for shape, el, n in cases:
        cname = arc4.class_of(shape).replace("TypeSpec", "")
        c = ctx.model.find_class(cname)
        ctx.analysed(c.fq + ".set")
        results = {}
        for kind in ("list", "tuple"):
            t = W.spec(shape).methods["new_instance"]()
            vals = [W.spec(el).methods["new_instance"]() for _ in range(n)]
            arg = list(vals) if kind == "list" else tuple(vals)
            try:
                r = t.methods["set"](arg)
                results[kind] = "accepted"
            except Raised as ex:
                results[kind] = f"refused ({ex.exc_text[:50]})"
        ctx.check(results["list"] == "accepted" and results["tuple"] == "accepted", "R06.5", f"{cname}.set[{arc4.sig(shape)} from {n} element value(s)]", f"a list is {results['list']}, a tuple is {results['tuple']}; both are sequences of the {n} element values", c.where, fact=results)
        if shape[0] in ("sarr", "address"):
            t = W.spec(shape).methods["new_instance"]()
            try:
                t.methods["set"]([W.spec(el).methods["new_instance"]() for _ in range(n - 1)])
                short = "accepted"
            except Raised:
                short = "refused"
            ctx.check(short == "refused", "R06.5", f"{cname}.set[{arc4.sig(shape)} from {n - 1} element value(s)]", f"a sequence of {n - 1} element(s) for {n} is {short}", c.where, fact={})
    ctx.require_min("R06.5", 7)


def run(ctx):
    r06_1_descriptors(ctx)
    r06_2_encode_tuple(ctx)
    r06_3_uint(ctx)
    r06_4_bool_and_prefix(ctx)
    r06_5_sequence_setters(ctx)
    from rules import c10 as _c10b, c19 as _c19b

    _c10b.r10_5_frame_locals(ctx)  # where the 128th value of a routine lives (frame cell or scratch slot) when a value is assembled from many parts (shared with C10)
    _c19b.r19_5_signature_types(ctx)  # types taken from a method signature keep their ARC-4 name (shared with C19)
    from rules import c03 as _c03, c11 as _c11

    # the encoders park head/tail pieces in temporaries (store ...; load ...): the encoded bytes survive compilation only
    # if the slot optimiser deletes nothing that is still read (shared with C03) ...
    _c03.r03_2_dependency_scan(ctx)
    # ... and the storage back-end of a new ABI value is the proto that is current: it must be restored on every exit (shared with C11)
    _c11.r11_3_exception_safe_restore(ctx)
    from rules import c13 as _c13

    _c13.r13_5_abi_text_setters(ctx)  # a string / byte-string value set from a Python literal of any length (254, 255, 256, 65535 bytes) carries its uint16 length prefix (shared with C13)
    return (
        "Abstract evaluation of the ABI layer's own code: type descriptors of every shape of a bounded nested universe against an ARC-4 reference model; _encode_tuple on all "
        "short member-kind sequences with symbolic member values (head order, bool runs, running tail offsets as linear forms, tail order); uint range checks and big-endian "
        "narrowing; bool packing; dynamic-array length prefix. The bytes produced at run time are not executed."
    )
