"""C08 - the router dispatches a call to its handler iff the registration allows it (structural clauses)."""
from __future__ import annotations

import ast
import itertools

from sa import q
from sa.astutil import u, walk_local
from sa.minieval import MiniEval, Raised, Rec, Sym, Unknown, run_function, model_ctor_fields
from sa.model import AnalysisError
from spec import avm

OC = {"NoOp": 0, "OptIn": 1, "CloseOut": 2, "ClearState": 3, "UpdateApplication": 4, "DeleteApplication": 5}
FIELD_OF_OC = {"NoOp": "no_op", "OptIn": "opt_in", "CloseOut": "close_out", "ClearState": "clear_state", "UpdateApplication": "update_application", "DeleteApplication": "delete_application"}
CC_NAMES = ["NEVER", "CALL", "CREATE", "ALL"]


class Fail(Exception):
    pass


def allows(cc: str, creating: bool) -> bool:
    """reference semantics of a CallConfig: NEVER - no call; CALL - only when the application exists; CREATE - only on creation; ALL - both"""
    return {"NEVER": False, "CALL": not creating, "CREATE": creating, "ALL": True}[cc]


class RouterWorld:
    def __init__(self, ctx):
        self.ctx = ctx
        self.model = ctx.model
        self.me = None
        m = self.model
        cc_cls = m.find_class("CallConfig", "pyteal.ast.router")
        self.CC = Sym("CallConfig")
        vals = {}
        for name in CC_NAMES:
            node = cc_cls.class_attrs.get(name)
            q.need(node is not None and isinstance(node, ast.Constant), f"CallConfig.{name} vanished or is not a literal")
            vals[name] = node.value
        self.cc_values = vals
        for name in CC_NAMES:
            mem = Sym(f"CallConfig.{name}", attrs={"name": name, "value": vals[name]})
            mem.methods["approval_condition_under_config"] = (lambda mem: lambda: self.me.call_def(cc_cls.methods["approval_condition_under_config"].node, [mem], {}, {}))(mem)
            mem.methods["__bool__"] = (lambda name: lambda: vals[name] != 0)(name)
            self.CC.attrs[name] = mem
        self.OCS = Sym("OnComplete", attrs={k: Rec("name", f"OnComplete.{k}") for k in OC})

    def cc(self, name):
        return self.CC.attrs[name]

    def oracle(self, extra=None):
        def o(e, me):
            t = u(e)
            if t == "CallConfig":
                return self.CC
            if t == "OnComplete":
                return self.OCS
            if extra is not None:
                return extra(e, me)
            raise Unknown()

        return o

    def setup(self, me):
        self.me = me
        me.expr_compare = True
        me.ctor_fields = model_ctor_fields(self.model)

        def isa(v, cname):
            cname = cname.split(".")[-1]
            if isinstance(v, Rec):
                return cname == "Expr"
            if isinstance(v, Sym) and "$isa" in v.attrs:
                return cname in v.attrs["$isa"]
            if isinstance(v, (int, str)) or v is None:
                return False
            return None

        me.isinstance_hook = isa
        me.truth_hook = lambda v: (v.methods["__bool__"]() if isinstance(v, Sym) and "__bool__" in v.methods else None)

    # ---------------------------------------------------------------- interpretation of the built expression
    def value(self, t, call):
        """evaluate a condition term on a call context {oc, creating, nargs, selector}"""
        if isinstance(t, bool):
            return int(t)
        if isinstance(t, int):
            return t
        if isinstance(t, Rec):
            txt = t.text
            if t.kind == "name" and txt.startswith("OnComplete."):
                return OC[txt.split(".")[1]]
            if t.kind == "call":
                fn = t.fn
                if fn.startswith("$cmp:"):
                    a, b = self.value(t.args[0], call), self.value(t.args[1], call)
                    k = fn[5:]
                    if k == "Eq":
                        return int(a == b)
                    if k == "NotEq":
                        return int(a != b)
                    return int({"Lt": lambda: a < b, "Gt": lambda: a > b, "LtE": lambda: a <= b, "GtE": lambda: a >= b}[k]())
                if fn == "Or":
                    return int(any(self.value(a, call) for a in t.args))
                if fn == "And":
                    return int(all(self.value(a, call) for a in t.args))
                if fn == "Not":
                    return int(not self.value(t.args[0], call))
                if fn == "Int":
                    return t.args[0]
                if fn == "Txn.on_completion":
                    return call["oc"]
                if fn == "Txn.application_id":
                    return 0 if call["creating"] else 77
                if fn == "Txn.application_args.length":
                    return call["nargs"]
                if fn == "MethodSignature":
                    return ("selector", t.args[0])
            if t.kind == "item" and t.parts[0].text == "Txn.application_args":
                if t.parts[1] == 0:
                    return ("selector", call["selector"]) if call["nargs"] > 0 else ("selector", None)
        raise AnalysisError(f"routing interpreter: cannot evaluate condition term {t!r}")

    def run(self, t, call, trace):
        """execute a statement term; appends handler names to trace; returns 'approve' | 'reject' | None (falls through); raises Fail"""
        if isinstance(t, Sym):
            if t.name.startswith("handler:"):
                trace.append(t.name)
                return "approve" if t.attrs.get("returns") else None
            raise AnalysisError(f"routing interpreter: statement {t!r}")
        if isinstance(t, Rec) and t.kind == "call":
            fn = t.fn
            if fn == "Seq":
                items = t.args[0] if len(t.args) == 1 and isinstance(t.args[0], list) else t.args
                for x in items:
                    r = self.run(x, call, trace)
                    if r is not None:
                        return r
                return None
            if fn == "Assert":
                for c in t.args:
                    if not self.value(c, call):
                        raise Fail("assert")
                return None
            if fn == "Cond":
                for arm in t.args:
                    cond, body = arm[0], arm[1]
                    if self.value(cond, call):
                        return self.run(body, call, trace)
                raise Fail("no Cond arm matched (err)")
            if fn == "Approve":
                return "approve"
            if fn == "Reject":
                return "reject"
            if fn == "wrapped-method":
                trace.append(t.args[0].name)
                return "approve"
        raise AnalysisError(f"routing interpreter: cannot execute term {t!r}")


def r08_1_method_config(ctx):
    ctx.rule("R08.1", "MethodConfig.approval_cond is true exactly for the (OnCompletion, creation status) pairs the five CallConfigs allow: all 4^5 configurations x 6 OnCompletion values x {create, call}")
    W = RouterWorld(ctx)
    mc = ctx.model.find_class("MethodConfig", "pyteal.ast.router")
    f = mc.methods["approval_cond"]
    ctx.analysed(f.fq, "pyteal.ast.router.CallConfig.approval_condition_under_config")
    fields = ["no_op", "opt_in", "close_out", "update_application", "delete_application"]
    bad = 0
    for combo in itertools.product(CC_NAMES, repeat=5):
        cfg = dict(zip(fields, combo))
        selfs = Sym("method-config", attrs={k: W.cc(v) for k, v in cfg.items()})
        selfs.attrs["clear_state"] = W.cc("NEVER")
        val, _ = run_function(f.node, {"self": selfs}, W.oracle(), f.fq, permissive=True, setup=W.setup)
        problems = []
        for ocname, ocv in OC.items():
            if ocname == "ClearState":
                continue  # a ClearState call runs the clear-state program; the approval program never sees it
            for creating in (True, False):
                want = allows(cfg.get(FIELD_OF_OC[ocname], "NEVER"), creating)
                got = bool(W.value(val, {"oc": ocv, "creating": creating, "nargs": 1, "selector": "x"}))
                if got != want:
                    problems.append(f"{ocname}/{'create' if creating else 'call'}: condition is {got}, registration says {want}")
        construct = "approval_cond[" + ",".join(f"{k}={v}" for k, v in cfg.items() if v != "NEVER") + "]"
        if problems:
            bad += 1
            if bad <= 5:
                ctx.bad("R08.1", construct, "; ".join(problems[:3]) + f" (condition: {val.text[:160] if isinstance(val, Rec) else val})", f.where)
        else:
            ctx.ok("R08.1", construct, {"condition": (val.text[:120] if isinstance(val, Rec) else val)}, f.where)
        # shape: 0 iff all NEVER, 1 iff all ALL (the router relies on it to drop / not guard the method)
        if all(v == "NEVER" for v in combo) != (val == 0 and not isinstance(val, Rec)):
            ctx.bad("R08.1", construct + ":zero-iff-never", f"approval_cond must be the int 0 exactly when every CallConfig is NEVER; got {val!r}", f.where)
    # is_never
    isn = mc.methods["is_never"]
    # clear_state refused
    pi = mc.methods["__post_init__"]
    for name in CC_NAMES:
        selfs = Sym("mc", attrs={"clear_state": W.cc(name)})
        try:
            run_function(pi.node, {"self": selfs}, W.oracle(), pi.fq, permissive=True, setup=W.setup)
            raised = False
        except Raised as r:
            raised = "TealInputError" in r.exc_text
        ctx.check(raised == (name != "NEVER"), "R08.1", f"MethodConfig.__post_init__[clear_state={name}]", f"clear_state={name} {'accepted' if not raised else 'refused'}; a MethodConfig must refuse any clear_state other than NEVER", pi.where, fact={"refused": raised})
    ctx.require_min("R08.1", 1000)


def _handler(name, returns=False):
    return Sym(f"handler:{name}", attrs={"$isa": {"Expr"}, "returns": returns, "stack_frames": Sym("frames", methods={"reframe": lambda *a: None})}, methods={"type_of": lambda: "TealType.none", "has_return": lambda: returns})


def r08_2_bare_calls(ctx):
    ctx.rule("R08.2", "bare-call dispatch: for every assignment of (CallConfig, handler) to the five OnCompletion actions, the constructed Cond runs exactly the handler registered for the call's OnCompletion when its CallConfig allows the creation status, and fails otherwise; wrap_handler appends Approve unless the handler returns")
    W = RouterWorld(ctx)
    bc = ctx.model.find_class("BareCallActions", "pyteal.ast.router")
    f = bc.methods["approval_construction"]
    ab = ctx.model.find_class("ASTBuilder", "pyteal.ast.router")
    wrap = ab.methods["wrap_handler"]
    oca_cls = ctx.model.find_class("OnCompleteAction", "pyteal.ast.router")
    ctx.analysed(f.fq, wrap.fq, oca_cls.methods["is_empty"].fq)
    fields = ["no_op", "opt_in", "close_out", "update_application", "delete_application"]
    ocname_of = {v: k for k, v in FIELD_OF_OC.items()}
    TT = Sym("TealType", attrs={"none": "TealType.none"})
    combos = list(itertools.product(CC_NAMES, repeat=5))
    if ctx.tier == "quick":
        combos = [c for i, c in enumerate(combos) if i % 7 == 0 or c.count("NEVER") >= 3]
    nbad = 0
    for combo in combos:
        actions = {}
        for fld, ccn in zip(fields, combo):
            h = None if ccn == "NEVER" else _handler(fld, returns=(fld == "delete_application"))
            a = Sym(f"oca:{fld}", attrs={"action": h, "call_config": W.cc(ccn), "stack_frames": Sym("frames", methods={"reframe": lambda *a: None})})
            a.methods["is_empty"] = (lambda a: lambda: W.me.call_def(oca_cls.methods["is_empty"].node, [a], {}, {}))(a)
            actions[fld] = a
        selfs = Sym("bare", attrs=dict(actions))
        selfs.attrs["stack_frames"] = None

        def extra(e, me):
            t = u(e)
            if t == "ASTBuilder":
                return Sym("ASTBuilder", methods={"wrap_handler": lambda *a, **k: me.call_def(wrap.node, list(a), k, {})})
            if t == "TealType":
                return TT
            if t == "CondNode":
                return lambda c, b: Sym("cond-node", attrs={"condition": c, "branch": b}, methods={"reframe_asts": lambda *a: None})
            raise Unknown()

        val, _ = run_function(f.node, {"self": selfs}, W.oracle(extra), f.fq, permissive=True, setup=W.setup)
        construct = "bare[" + ",".join(f"{k}={v}" for k, v in zip(fields, combo) if v != "NEVER") + "]"
        if all(c == "NEVER" for c in combo):
            ctx.check(val is None, "R08.2", construct, f"no bare action registered: approval_construction must return None, got {val!r}", f.where, fact={})
            continue
        problems = []
        for ocn, ocv in OC.items():
            if ocn == "ClearState":
                continue
            for creating in (True, False):
                fld = FIELD_OF_OC[ocn]
                ccn = dict(zip(fields, combo)).get(fld, "NEVER")
                want = f"handler:{fld}" if allows(ccn, creating) else "fail"
                trace = []
                try:
                    verdict = W.run(val, {"oc": ocv, "creating": creating, "nargs": 0, "selector": None}, trace)
                    got = ",".join(trace) if trace else "nothing"
                    if want != "fail" and verdict != "approve":
                        problems.append(f"{ocn}/{'create' if creating else 'call'}: handler ran but the call is not approved afterwards")
                except Fail:
                    got = "fail" if not trace else ",".join(trace) + " then fail"
                if got != want:
                    problems.append(f"{ocn}/{'create' if creating else 'call'}: runs {got}, registration says {want}")
        if problems:
            nbad += 1
            if nbad <= 5:
                ctx.bad("R08.2", construct, "; ".join(problems[:3]), f.where)
        else:
            ctx.ok("R08.2", construct, {"arms": len(val.args) if isinstance(val, Rec) else 0}, f.where)
    ctx.require_min("R08.2", 100)


def r08_4_dispatch(ctx):
    ctx.rule("R08.4", "top-level dispatch: bare calls are guarded by NumAppArgs == 0, each method arm by application_args[0] == its selector with Assert(config condition) before the handler; an unknown selector, a bare call with arguments, or an empty router is rejected")
    W = RouterWorld(ctx)
    ab = ctx.model.find_class("ASTBuilder", "pyteal.ast.router")
    cwm = ctx.model.find_class("CondWithMethod", "pyteal.ast.router")
    router = ctx.model.find_class("Router", "pyteal.ast.router")
    pc, tcn, bp = ab.methods["program_construction"], cwm.methods["to_cond_node"], router.methods["_build_program"]
    ctx.analysed(pc.fq, tcn.fq, bp.fq, ab.methods["add_method_to_ast"].fq)

    def mk_cwm(sig, cond, name):
        m = Sym(f"handler:{name}")
        s = Sym(f"cwm:{name}", attrs={"method_sig": sig, "condition": cond, "method": m})
        s.methods["to_cond_node"] = (lambda s: lambda use_frame_pt=False: W.me.call_def(tcn.node, [s], {"use_frame_pt": use_frame_pt}, {}))(s)
        return s

    def extra(e, me):
        t = u(e)
        if t == "ASTBuilder":
            def wrap(is_method, handler, **k):
                if k.get("handler_stack_frames_container") is not None:
                    k["handler_stack_frames_container"].append("frames")
                return Rec("call", Rec("name", "wrapped-method"), [handler], {})
            return Sym("ASTBuilder", methods={"wrap_handler": wrap})
        if t == "CondNode":
            return lambda c, b: Sym("cond-node", attrs={"condition": c, "branch": b}, methods={"reframe_asts": lambda *a: None})
        if t == "OptimizeOptions":
            return lambda: Sym("opt", methods={"use_frame_pointers": lambda v: v >= 8})
        raise Unknown()

    def mk_builder(methods):
        # the builder's own constructor decides which fields exist; its methods are interpreted
        builder = Sym("ast-builder", attrs={})
        init = ab.methods.get("__init__")
        if init is not None:
            run_function(init.node, {"self": builder}, W.oracle(extra), init.fq, permissive=True, setup=W.setup)
        for nm, fi in ab.methods.items():
            if nm not in ("__init__", "wrap_handler") and "staticmethod" not in fi.decorators():
                builder.methods[nm] = (lambda fi: lambda *a, **k: W.me.call_def(fi.node, [builder] + list(a), dict(k), {}))(fi)
        q.need(builder.attrs.get("methods_with_conds") == [] and builder.attrs.get("bare_calls") == [], f"{ab.fq}.__init__ no longer creates empty methods_with_conds / bare_calls lists")
        builder.attrs["methods_with_conds"].extend(methods)
        return builder

    cond_noop_call = Rec("call", Rec("name", "$cmp:Eq"), [Rec("call", Rec("attr", Rec("name", "Txn"), "on_completion"), [], {}), Rec("name", "OnComplete.NoOp")], {})
    # scenarios: (bare present?, methods [(sig, cond, name)])
    bare_cond = Rec("call", Rec("name", "Cond"), [[Rec("call", Rec("name", "$cmp:Eq"), [Rec("call", Rec("attr", Rec("name", "Txn"), "on_completion"), [], {}), Rec("name", "OnComplete.NoOp")], {}), Rec("call", Rec("name", "Seq"), [[_handler("bare-noop"), Rec("call", Rec("name", "Approve"), [], {})]], {})]], {})
    bare_cond.tags["stack_frames"] = Sym("frames", methods={"reframe": lambda *a: None})
    for has_bare, nmeth in itertools.product((False, True), (0, 1, 2)):
        methods = [mk_cwm(f"m{i}()void", cond_noop_call if i == 0 else 1, f"m{i}") for i in range(nmeth)]
        builder = mk_builder(methods)
        bca = Sym("bare-actions", methods={"is_empty": lambda: not has_bare, "approval_construction": lambda: bare_cond})
        selfs = Sym("router", attrs={"bare_call_actions": bca, "approval_ast": builder, "clear_state": "CLEAR"}, methods={"contract_construct": lambda: "CONTRACT"})
        val, _ = run_function(bp.node, {"self": selfs, "version": 8, "optimize": None}, W.oracle(extra), bp.fq, permissive=True, setup=W.setup)
        q.need(isinstance(val, tuple) and len(val) == 3, f"{bp.fq}: does not return (approval, clear, contract)")
        prog = val[0]
        construct = f"dispatch[bare={has_bare},methods={nmeth}]"
        ctx.check(val[1] == "CLEAR" and val[2] == "CONTRACT", "R08.4", construct + ":triple", "the clear-state program and the contract must be returned unchanged as 2nd and 3rd component", bp.where, fact={})
        problems = []
        calls = [{"oc": 0, "creating": False, "nargs": 0, "selector": None}, {"oc": 1, "creating": False, "nargs": 0, "selector": None}, {"oc": 0, "creating": False, "nargs": 2, "selector": None}]
        for i in range(3):
            calls += [{"oc": oc, "creating": cr, "nargs": 1, "selector": f"m{i}()void"} for oc in (0, 1) for cr in (False,)]
        for call in calls:
            if call["nargs"] == 0:
                want = "handler:bare-noop" if (has_bare and call["oc"] == 0) else "fail"
            elif call["selector"] is None:
                want = "fail"
            else:
                i = int(call["selector"][1])
                if i >= nmeth:
                    want = "fail"
                elif i == 0:
                    want = "handler:m0" if call["oc"] == 0 else "fail"
                else:
                    want = f"handler:m{i}"
            trace = []
            try:
                verdict = W.run(prog, call, trace)
                got = ",".join(trace) if trace else ("reject" if verdict == "reject" else "nothing")
                if verdict == "reject" and not trace:
                    got = "fail"
            except Fail:
                got = "fail" if not trace else ",".join(trace) + " then fail"
            if got != want:
                problems.append(f"call {call}: runs {got}, expected {want}")
        ctx.check(not problems, "R08.4", construct, "; ".join(problems[:3]), bp.where, fact={"program": prog.text[:200] if isinstance(prog, Rec) else repr(prog)})
    # history: build, register another method, build again (same convention) - the second program dispatches it
    for version in (6, 8):
        builder = mk_builder([mk_cwm("m0()void", 1, "m0")])
        bca = Sym("bare-actions", methods={"is_empty": lambda: True, "approval_construction": lambda: None})
        selfs = Sym("router", attrs={"bare_call_actions": bca, "approval_ast": builder, "clear_state": "CLEAR"}, methods={"contract_construct": lambda: "CONTRACT"})
        first, _ = run_function(bp.node, {"self": selfs, "version": version, "optimize": None}, W.oracle(extra), bp.fq, permissive=True, setup=W.setup)
        builder.attrs["methods_with_conds"].append(mk_cwm("m1()void", 1, "m1"))
        second, _ = run_function(bp.node, {"self": selfs, "version": version, "optimize": None}, W.oracle(extra), bp.fq, permissive=True, setup=W.setup)
        res = []
        for prog in (first[0], second[0]):
            trace = []
            try:
                W.run(prog, {"oc": 0, "creating": False, "nargs": 1, "selector": "m1()void"}, trace)
            except Fail:
                pass
            res.append(",".join(trace) or "fail")
        ctx.check(res == ["fail", "handler:m1"], "R08.4", f"dispatch[build, register m1, build again; version {version}]", f"a call of m1 runs {res[0]} in the first program and {res[1]} in the second; expected fail, then handler:m1 (the contract of the second build lists m1)", bp.where, fact={"runs": res})
    # add_method_to_ast drops a 0 condition and nothing else
    ama = ab.methods["add_method_to_ast"]
    for cond, want in ((0, 0), (1, 1), (cond_noop_call, 1)):
        builder = Sym("b", attrs={"methods_with_conds": []})
        run_function(ama.node, {"self": builder, "method_signature": "m()void", "cond": cond, "handler": Sym("h")}, W.oracle(lambda e, me: (lambda *a: ("cwm",) + a) if u(e) == "CondWithMethod" else (_ for _ in ()).throw(Unknown())), ama.fq, permissive=True, setup=W.setup)
        ctx.check(len(builder.attrs["methods_with_conds"]) == want, "R08.4", f"add_method_to_ast[cond={cond if not isinstance(cond, Rec) else 'expr'}]", f"{len(builder.attrs['methods_with_conds'])} arm(s) registered, expected {want}", ama.where, fact={})
    ctx.require_min("R08.4", 8)


def r08_5_registration(ctx):
    ctx.rule("R08.5", "registration checks dominate registration: duplicate signature, selector collision (looked up in the selector-keyed table) and never-executable configs are refused before anything is recorded; the clear-state program is Reject() or exactly the wrapped clear_state action")
    f = ctx.model.find_func("Router.add_method_handler", "pyteal.ast.router")
    ctx.analysed(f.fq)
    first_effect = min([n.lineno for n in walk_local(f.node) if (isinstance(n, ast.Assign) and u(n.targets[0]).startswith("self.")) or (isinstance(n, ast.Call) and u(n.func) in ("self.methods.append", "self.approval_ast.add_method_to_ast"))] or [10**9])
    sig = q.name_assigned_from(f.node, lambda v: isinstance(v, ast.Call) and u(v.func).endswith(".method_signature"), "the method signature local in add_method_handler")
    sel = q.name_assigned_from(f.node, lambda v: "checksum(" in u(v), "the selector local in add_method_handler")
    checks = {
        "duplicate-signature": (f"{sig} in self.method_sig_to_selector", True),
        "selector-collision": (f"{sel} in self.method_selector_to_sig", True),
        "never-executed": ("method_config.is_never()", True),
        "handler-kind": ("isinstance(method_call, ABIReturnSubroutine)", False),
    }
    for name, (test, pol) in checks.items():
        hits = [r for r in q.raises_of(f.node) if q.raise_type(r) == "TealInputError" and (test, pol) in q.nguards(r)]
        ctx.check(len(hits) == 1 and hits[0].lineno < first_effect, "R08.5", f"add_method_handler:{name}", f"a TealInputError guarded by `{'' if pol else 'not '}{test}` must precede every recording statement; found {len(hits)}", f.where, fact={"first_effect_line": first_effect})
    # the two tables are filled with the matching keys
    sets = {u(n.targets[0]): u(n.value) for n in walk_local(f.node) if isinstance(n, ast.Assign) and u(n.targets[0]).startswith("self.method_s")}
    ctx.check(sets == {f"self.method_sig_to_selector[{sig}]": sel, f"self.method_selector_to_sig[{sel}]": sig}, "R08.5", "add_method_handler:tables", f"signature->selector and selector->signature tables must be filled with each other's keys; found {sets}", f.where, fact=sets)
    seld = q.assigns_to(f.node, sel)
    ctx.check(len(seld) == 1 and u(seld[0]).replace('"', "'") == f"encoding.checksum(bytes({sig}, 'utf-8'))[:4]", "R08.5", "add_method_handler:selector", f"the selector must be the first 4 bytes of the SHA-512/256 of the signature; computed as {u(seld[0]) if seld else None}", f.where, fact={})
    ama = q.one(q.calls_named(f.node, "add_method_to_ast", into_nested=False), "add_method_to_ast call")
    ctx.check(len(ama.args) == 3 and u(ama.args[0]) == sig and q.rtext(f.node, ama.args[1]) == "method_config.approval_cond()" and u(ama.args[2]) == "method_call", "R08.5", "add_method_handler:registered-triple", "the arm registered must be (this signature, this config's condition, this handler)", f.where, fact={})
    dflt = [n for n in walk_local(f.node) if isinstance(n, ast.Assign) and u(n.targets[0]) == "method_config"]
    ctx.check(len(dflt) == 1 and u(dflt[0].value) == "MethodConfig(no_op=CallConfig.CALL)" and ("method_config is None", True) in q.nguards(dflt[0]), "R08.5", "add_method_handler:default-config", "the documented default is no_op=CALL only", f.where, fact={})
    init = ctx.model.find_func("Router.__init__", "pyteal.ast.router")
    cs = [n for n in walk_local(init.node) if isinstance(n, (ast.Assign, ast.AnnAssign)) and u(n.targets[0] if isinstance(n, ast.Assign) else n.target) == "self.clear_state"]
    v = cs[0].value if cs else None
    ok = isinstance(v, ast.IfExp) and u(v.test) == "clear_state is None" and u(v.body) == "Reject()" and isinstance(v.orelse, ast.Call) and u(v.orelse.func) == "ASTBuilder.wrap_handler" and u(v.orelse.args[0]) == "False" and u(v.orelse.args[1]) == "clear_state"
    ctx.check(ok, "R08.5", "Router.__init__:clear-state", f"clear state program must be Reject() when none is given, else wrap_handler(False, clear_state); found {u(v) if v is not None else None}", init.where, fact={})
    ctx.require_min("R08.5", 8)


def r08_6_enum_tables(ctx):
    ctx.rule("R08.6", "OnComplete members and CallConfig values denote what the AVM / the documentation say (names -> numbers)")
    oc = ctx.model.find_class("OnComplete")
    for name, num in OC.items():
        node = oc.class_attrs.get(name)
        ctx.check(node is not None and u(node).replace("'", '"') == f'EnumInt("{name}")', "R08.6", f"OnComplete.{name}", f"OnComplete.{name} must be the named constant {name}; found {u(node) if node is not None else None}", oc.where, fact={})
        ctx.check(avm.ON_COMPLETION.get(name) == num, "R08.6", f"oncompletion-number[{name}]", "reference numbering", "", fact={})
    cc = ctx.model.find_class("CallConfig", "pyteal.ast.router")
    vals = {n: cc.class_attrs[n].value for n in CC_NAMES}
    ctx.check(vals == {"NEVER": 0, "CALL": 1, "CREATE": 2, "ALL": 3}, "R08.6", "CallConfig:values", f"CallConfig is a bit set: NEVER=0, CALL=1, CREATE=2, ALL=CALL|CREATE; found {vals}", cc.where, fact=vals)
    ctx.require_min("R08.6", 8)


def r08_7_method_decorator(ctx):
    ctx.rule("R08.7", "Router.method registers what its OnCompletion keywords say: no keyword at all means no_op=CALL; otherwise every keyword given (CallConfig.NEVER included - it is a value, not an omission) is passed on and every omitted one is NEVER; a clear_state keyword is refused - over all assignments of {omitted, NEVER, CALL, CREATE, ALL} to the keywords")
    W = RouterWorld(ctx)
    rc = ctx.model.find_class("Router", "pyteal.ast.router")
    f = q.need(rc.methods.get("method"), "Router.method vanished")
    ctx.analysed(f.fq)
    fields = ["no_op", "opt_in", "close_out", "update_application", "delete_application"]
    choices = [None] + CC_NAMES
    combos = list(itertools.product(choices, repeat=5)) if ctx.tier != "quick" else [c for c in itertools.product(choices, repeat=5) if sum(x is not None for x in c) <= 2 or all(x in (None, "NEVER", "ALL") for x in c)]
    bad = 0
    for combo in combos:
        given = {k: v for k, v in zip(fields, combo) if v is not None}
        recorded = {}

        def add(sub, name=None, cfg=None, descr=None):
            recorded["cfg"] = cfg
            return sub

        selfs = Sym("router", methods={"add_method_handler": add})
        args = {"self": selfs, "func": Sym("user-function", attrs={"__name__": "f"}), "name": None, "description": None, "clear_state": None}
        for k in fields:
            args[k] = W.cc(given[k]) if k in given else None
        construct = "Router.method[" + (",".join(f"{k}={v}" for k, v in given.items()) or "no keywords") + "]"
        try:
            run_function(f.node, args, W.oracle(), f.fq, permissive=True, setup=W.setup)
        except Raised as r:
            bad += 1
            if bad <= 5:
                ctx.bad("R08.7", construct, f"raises {r.exc_text[:60]}", f.where)
            continue
        cfg = recorded.get("cfg")
        q.need(isinstance(cfg, Rec) and cfg.is_call("MethodConfig"), f"{f.fq}: add_method_handler is not given a MethodConfig(...) (got {cfg!r})")
        got = {k: (v.attrs["name"] if isinstance(v, Sym) else repr(v)) for k, v in cfg.kwargs.items()}
        got = {k: v for k, v in got.items() if v != "NEVER"}
        want = {"no_op": "CALL"} if not given else {k: v for k, v in given.items() if v != "NEVER"}
        if got != want:
            bad += 1
            if bad <= 5:
                ctx.bad("R08.7", construct, f"registers {got or 'nothing (all NEVER)'}; the keywords say {want or 'nothing (all NEVER)'}", f.where)
        else:
            ctx.ok("R08.7", construct, {"registered": got}, f.where)
    # clear_state keyword refused
    for name in CC_NAMES:
        args = {"self": Sym("router", methods={"add_method_handler": lambda *a, **k: None}), "func": Sym("user-function"), "name": None, "description": None, "clear_state": W.cc(name)}
        for k in fields:
            args[k] = None
        try:
            run_function(f.node, args, W.oracle(), f.fq, permissive=True, setup=W.setup)
            out = "accepted"
        except Raised as r:
            out = "refused"
        ctx.check(out == "refused", "R08.7", f"Router.method[clear_state={name}]", f"a clear_state keyword is {out}", f.where, fact={})
    ctx.require_min("R08.7", 100)


def r08_8_option_plumbing(ctx):
    ctx.rule("R08.8", "the router builds its dispatch and wrapper code for the calling convention it is then compiled with: _build_impl hands the version and the OptimizeOptions of its input both to _build_program (which chooses frame-pointer or scratch wrappers from them) and - through get_compilation - to the Compilation of the approval and clear-state programs")
    r = ctx.model.find_class("Router", "pyteal.ast.router")
    bi = q.need(r.methods.get("_build_impl"), "Router._build_impl vanished")
    ctx.analysed(bi.fq)
    inp = bi.params()[1]
    bp = q.one(q.calls_named(bi.node, "_build_program", into_nested=False), "_build_impl: _build_program call")
    kws = {k.arg: q.rtext(bi.node, k.value) for k in bp.keywords}
    bprog = r.methods["_build_program"]
    pos = {p: q.rtext(bi.node, a) for p, a in zip(bprog.params()[1:], bp.args)}
    got = {**pos, **kws}
    want = {"version": f"{inp}.version", "optimize": f"{inp}.optimize"}
    ctx.check(all(got.get(k) == v for k, v in want.items()), "R08.8", "_build_impl:_build_program-arguments", f"_build_program is given {got}; it must get version={want['version']} and optimize={want['optimize']} (without the options it assumes the default convention, whatever the program is compiled with)", f"{bi.module.rel}:{bp.lineno}", fact={"arguments": got})
    gcs = q.calls_named(bi.node, "get_compilation", into_nested=False)
    ctx.check(len(gcs) == 2 and all(u(c.func) == f"{inp}.get_compilation" for c in gcs), "R08.8", "_build_impl:compilations-from-the-same-input", f"both programs must be compiled through {inp}.get_compilation(...); found {[u(c.func) for c in gcs]}", bi.where, fact={})
    rci = ctx.model.find_class("_RouterCompileInput", "pyteal.ast.router")
    gc = q.need(rci.methods.get("get_compilation"), "_RouterCompileInput.get_compilation vanished")
    comp = q.one(q.calls_named(gc.node, "Compilation", into_nested=False), "get_compilation: Compilation(...)")
    ckw = {k.arg: u(k.value) for k in comp.keywords}
    ctx.check(ckw.get("version") == "self.version" and ckw.get("optimize") == "self.optimize" and ckw.get("assemble_constants") == "self.assemble_constants", "R08.8", "get_compilation:options", f"Compilation(...) must receive this input's version, optimize and assemble_constants; it gets {ckw}", gc.where, fact={"keywords": ckw})
    # _build_program derives the convention from exactly those two
    uses = [u(n) for n in ast.walk(bprog.node) if isinstance(n, ast.Call) and u(n.func).endswith(".use_frame_pointers")]
    ctx.check(len(uses) == 1 and uses[0] in ("optimize.use_frame_pointers(version)",), "R08.8", "_build_program:convention", f"the wrapper convention must be optimize.use_frame_pointers(version); found {uses}", bprog.where, fact={})
    ctx.require_min("R08.8", 4)


def run(ctx):
    r08_1_method_config(ctx)
    r08_2_bare_calls(ctx)
    r08_4_dispatch(ctx)
    r08_5_registration(ctx)
    r08_7_method_decorator(ctx)
    r08_8_option_plumbing(ctx)
    r08_6_enum_tables(ctx)
    from rules import c12 as _c12, c09 as _c09, c13 as _c13

    from rules import c04 as _c04f

    _c04f.r04_8_has_return(ctx)  # an action gets Approve() appended exactly when some path of it can fall through (a loop can run zero times) (shared with C04)
    _c09.r09_5_contract_names(ctx)  # the selector a method is dispatched on is the selector of its registered name (shared with C09)
    _c13.r13_1_bytes_forms(ctx)  # the `method` pseudo-op holds the signature text itself, so the selector is the one the contract advertises (shared with C13)

    _c12.r12_2b_named_ints(ctx)  # OnCompletion names keep their AVM numbers when constants are assembled (shared with C12)
    from rules import c15 as _c15

    _c15.r15_10_router_results_pairing(ctx)  # the approval text / map is the approval program's, the clear-state one the clear-state program's (shared with C15)
    return (
        "Abstract evaluation of the router's construction code (MethodConfig.approval_cond, BareCallActions.approval_construction, wrap_handler, to_cond_node, "
        "program_construction, _build_program) on symbolic handlers; the constructed condition/dispatch trees are interpreted by a small reference semantics of Cond/Seq/Assert "
        "over all call contexts and compared with the registration (exhaustive over 4^5 configurations); registration checks dominate registration. Run-time behaviour of the "
        "compiled TEAL is C01."
    )
