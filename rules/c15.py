"""C15 - source maps are faithful and never perturb the program (structural clauses)."""
from __future__ import annotations

import ast
import itertools
from collections import defaultdict
from functools import partial
from itertools import count

from sa import q
from sa.astutil import u, walk_local
from sa.minieval import MiniEval, Raised, Rec, Sym, Unknown, run_function
from sa.model import AnalysisError

B64 = "ABCDEFGHIJKLMNOPQRSTUVWXYZabcdefghijklmnopqrstuvwxyz0123456789+/"


def ref_vlq_encode(values):
    """Source Map Revision 3 base64 VLQ: sign in bit 0, 5 data bits per digit, bit 5 = continuation, least significant group first"""
    out = ""
    for v in values:
        x = (abs(v) << 1) | (1 if v < 0 else 0)
        while True:
            d, x = x & 31, x >> 5
            out += B64[d | (32 if x else 0)]
            if not x:
                break
    return out


def ref_vlq_decode(s):
    res, shift, val = [], 0, 0
    for ch in s:
        d = B64.index(ch)
        val += (d & 31) << shift
        if d & 32:
            shift += 5
            continue
        res.append((val >> 1) * (-1 if val & 1 else 1))
        shift = val = 0
    return res


def _module_env(ctx):
    """evaluate the module-level statements that set up the codec tables (literal assignments and the table-filling loop)"""
    m = ctx.model.module("pyteal.compiler.sourcemap")
    me = MiniEval(lambda e, me: (_ for _ in ()).throw(Unknown()), m.name)
    for st in m.tree.body:
        if isinstance(st, ast.Assign) and all(isinstance(t, (ast.Name, ast.Tuple)) for t in st.targets):
            names = {n.id for t in st.targets for n in ast.walk(t) if isinstance(n, ast.Name)}
            if names & {"_b64chars", "_b64table", "shiftsize", "flag", "mask"}:
                me.stmt(st)
        elif isinstance(st, ast.For) and "_b64table" in u(st):
            me.stmt(st)
    for k in ("_b64chars", "_b64table", "shiftsize", "flag", "mask"):
        q.need(k in me.env, f"pyteal.compiler.sourcemap: module constant {k} vanished")
    return me.env, m


def r15_4_vlq(ctx):
    ctx.rule("R15.4", "the base64-VLQ codec follows Source Map Revision 3 and is its own inverse: encode equals the reference encoder and decode(encode(v)) = v for single values and sequences including zero, negatives, and values needing 1 to 5 digits")
    env, m = _module_env(ctx)
    enc = ctx.model.find_func("_base64vlq_encode", m.name)
    dec = ctx.model.find_func("_base64vlq_decode", m.name)
    ctx.analysed(enc.fq, dec.fq)

    def oracle(e, me):
        if isinstance(e, ast.Name) and e.id in env:
            return env[e.id]
        raise Unknown()

    singles = sorted(set([0, 1, -1, 15, 16, -16, 31, 32, 511, 512, -512, 513, 1023, 1024, 16383, 16384, -16384, 2**20, -(2**20), 2**25 - 1, 2**31] + list(range(-40, 41, 7))))
    seqs = [[v] for v in singles] + [[1, 2, 3, 4], [0, 0, 0, 0], [5, -700, 1900, 0, -3], [512, 512], [-1, 100000, 16, 15]]
    bad = 0
    for vs in seqs:
        try:
            val, me = run_function(enc.node, {"values": tuple(vs)}, oracle, enc.fq)
        except Raised as r:
            ctx.bad("R15.4", f"vlq-encode{vs}", f"raises {r.exc_text[:40]}", enc.where)
            continue
        want = ref_vlq_encode(vs)
        ok1 = val == want
        try:
            back, _ = run_function(dec.node, {"vlqval": want}, oracle, dec.fq)
        except Raised as r:
            back = f"raises {r.exc_text[:30]}"
        ok2 = back == list(vs)
        ctx.check(ok1 and ok2, "R15.4", f"vlq{vs}", f"encode gives {val!r} (reference {want!r}); decode of the reference string gives {back} (expected {vs})", enc.where, fact={"encoded": val})
    ctx.check(env["_b64chars"] == B64.encode() and env["shiftsize"] == 5 and env["flag"] == 32 and env["mask"] == 31, "R15.4", "vlq-constants", "alphabet, digit size, continuation flag and mask must be the Revision-3 ones", m.rel, fact={})
    ctx.check(all(env["_b64table"][b] == i for i, b in enumerate(B64.encode())), "R15.4", "vlq-decode-table", "the decode table must be the inverse of the encode alphabet", m.rel, fact={})
    ctx.require_min("R15.4", 30)


class Entry:
    pass


def r15_5_r3_json(ctx):
    ctx.rule("R15.5", "R3SourceMap.to_json / from_json agree with Revision 3: the JSON produced for a map with several source files (first referenced in non-alphabetical order), several segments per line, empty lines and large deltas decodes - with an independent decoder - to the same (target line, column) -> (source file, line, column) associations, and from_json rebuilds them from a reference encoding")
    env, m = _module_env(ctx)
    r3 = ctx.model.find_class("R3SourceMap", m.name)
    tj, fj = r3.methods["to_json"], r3.methods["from_json"]
    enc = ctx.model.find_func("_base64vlq_encode", m.name)
    dec = ctx.model.find_func("_base64vlq_decode", m.name)
    ctx.analysed(tj.fq, fj.fq)
    assoc = {
        (0, 0): ("zeta.py", 10, 4), (0, 9): ("zeta.py", 10, 20), (1, 0): ("alpha.py", 700, 0), (3, 2): ("mid.py", 3, 1), (3, 40): ("alpha.py", 2, 80), (4, 0): ("zeta.py", 1900, 7), (5, 0): None, (6, 1): ("mid.py", 3, 1),
    }
    index = [(0, 9), (0,), (), (2, 40), (0,), (0,), (1,)]
    entries = {}
    for (gl, gc), src in assoc.items():
        e = Sym(f"entry({gl},{gc})", attrs={"line": gl, "column": gc, "source": src[0] if src else None, "source_line": src[1] if src else None, "source_column": src[2] if src else None, "source_content": None, "name": None})
        entries[(gl, gc)] = e
    selfs = Sym("r3map", attrs={"entries": entries, "index": index, "filename": "prog.teal", "source_root": None})

    def oracle(e, me):
        if isinstance(e, ast.Name) and e.id in env:
            return env[e.id]
        if u(e) == "autoindex":
            return lambda: defaultdict(partial(next, count()))
        raise Unknown()

    val, _ = run_function(tj.node, {"self": selfs, "with_contents": False}, oracle, tj.fq, resolver=lambda nm: {"_base64vlq_encode": enc.node}.get(nm))
    problems = []
    if not isinstance(val, dict) or val.get("version") != 3:
        problems.append(f"not a version-3 map: {val!r}"[:120])
    else:
        srcs = val.get("sources")
        got = {}
        spos = sline = scol = 0
        for gl, seg_line in enumerate(val["mappings"].split(";")):
            gcol = 0
            if not seg_line:
                continue
            for seg in seg_line.split(","):
                try:
                    ds = ref_vlq_decode(seg)
                except ValueError:
                    # a digit outside the Revision-3 base64 alphabet: no conforming consumer can read this map
                    got[(gl, gcol)] = f"<segment `{seg}` holds a character outside A-Za-z0-9+/>"
                    continue
                gcol += ds[0]
                if len(ds) >= 4:
                    spos, sline, scol = spos + ds[1], sline + ds[2], scol + ds[3]
                    got[(gl, gcol)] = (srcs[spos] if 0 <= spos < len(srcs) else f"<source #{spos}>", sline, scol)
                else:
                    got[(gl, gcol)] = None
        if got != assoc:
            diff = [(k, got.get(k), assoc.get(k)) for k in sorted(set(got) | set(assoc)) if got.get(k) != assoc.get(k)]
            problems.append(f"the JSON decodes to different associations: {diff[:3]} (sources {srcs})")
        if val.get("file") != "prog.teal":
            problems.append("`file` is not the TEAL file name")
    ctx.check(not problems, "R15.5", "R3SourceMap.to_json", "; ".join(problems[:2]), tj.where, fact={"mappings": val.get("mappings") if isinstance(val, dict) else None, "sources": val.get("sources") if isinstance(val, dict) else None})
    # from_json on a reference encoding
    sources = ["zeta.py", "alpha.py", "mid.py"]
    lines, spos = [], 0
    sline = scol = 0
    by_line = {}
    for (gl, gc), src in sorted(assoc.items()):
        by_line.setdefault(gl, []).append((gc, src))
    for gl in range(7):
        segs, gcol = [], 0
        for gc, src in by_line.get(gl, []):
            ds = [gc - gcol]
            gcol = gc
            if src:
                si = sources.index(src[0])
                ds += [si - spos, src[1] - sline, src[2] - scol]
                spos, sline, scol = si, src[1], src[2]
            segs.append(ref_vlq_encode(ds))
        lines.append(",".join(segs))
    smap = {"version": 3, "sources": sources, "names": [], "mappings": ";".join(lines), "file": "prog.teal"}
    built = {}

    def mk_mapping(**kw):
        return Sym("mapping", attrs=dict(kw))

    def oracle2(e, me):
        if isinstance(e, ast.Name) and e.id in env:
            return env[e.id]
        if u(e) == "R3SourceMapping":
            s_ = Sym("R3SourceMapping", methods={"__call__": mk_mapping})
            s_.attrs["extract_window"] = lambda *a: None
            return s_
        raise Unknown()

    cls = Sym("R3SourceMap", methods={"__call__": lambda *a: Sym("built", attrs={"args": a}, methods={"add_right_bounds": lambda: None})})
    val, _ = run_function(fj.node, {"cls": cls, "smap": smap, "sources_override": None, "sources_content_override": [], "target": None, "add_right_bounds": False}, oracle2, fj.fq, resolver=lambda nm: {"_base64vlq_decode": dec.node}.get(nm))
    ents = val.attrs["args"][2] if isinstance(val, Sym) and len(val.attrs.get("args", ())) > 2 else {}
    got = {k: ((v.attrs.get("source"), v.attrs.get("source_line"), v.attrs.get("source_column")) if v.attrs.get("source") is not None else None) for k, v in ents.items()}
    diff = [(k, got.get(k), assoc.get(k)) for k in sorted(set(got) | set(assoc)) if got.get(k) != assoc.get(k)]
    ctx.check(not diff, "R15.5", "R3SourceMap.from_json", f"a reference Revision-3 encoding is rebuilt with different associations: {diff[:3]}", fj.where, fact={"entries": len(got)})
    ctx.require_min("R15.5", 2)


# branch conditions outside the source-map modules that mention source-map state, each with the reason it cannot change the code
BRANCH_OK = {
    ("If.__teal__", "self._label_cond or self"): "chooses which expression a block is *attributed* to (root_expr), not what it contains",
    ("ASTBuilder.wrap_handler.<locals>.scavenge", "handler_stack_frames_container is not None"): "collects frames for attribution only",
    ("_RouterBundle.get_results", "self.approval_sourcemapper"): "selects which artefacts are returned",
    ("_RouterBundle.get_results", "self.clear_sourcemapper"): "selects which artefacts are returned",
    ("_RouterCompileInput.__post_init__", "self.annotate_teal and (not self.with_sourcemaps)"): "option validation (raises)",
    ("_RouterCompileInput.__post_init__", "self.pcs_in_sourcemaps"): "option validation",
    ("_FullCompilationBundle.get_results", "self.sourcemapper"): "selects which artefacts are returned",
    ("Compilation._compile_impl", "with_sourcemap and NatalStackFrame.sourcemapping_is_off()"): "refuses the request (raises) - placed before any code generation",
    ("Compilation._compile_impl", "annotate_teal and (not with_sourcemap)"): "option validation (raises)",
    ("Compilation._compile_impl", "pcs_in_sourcemap"): "needs an algod client; independent of code generation",
    ("Compilation._compile_impl", "not with_sourcemap"): "returns the finished bundle; lies *after* teal_code is computed (checked below)",
    ("flattenBlocks", "blocks[i]._sframes_container or blocks[referer[i]]._sframes_container or root_expr"): "chooses the expression a label is attributed to",
    ("TealComponent.stack_frames", "self._sframes_container or self.expr"): "attribution lookup",
    ("TealComponent.stack_frames", "(subroot := getattr(root_expr, '_sframes_container', None))"): "attribution lookup",
}
KEYS = ("stack_frames", "_sframes_container", "_stack_frames", "NatalStackFrame", "FeatureGates", "sourcemap", "_label_cond")


def r15_1_non_interference(ctx):
    ctx.rule("R15.1", "source-map state never steers code generation: outside the source-map modules every branch condition that mentions frame/source-map state is one of the frozen attribution-only instances; _compile_impl returns the TEAL computed before the source-map branch")
    seen = set()
    for f in ctx.model.iter_funcs():
        if f.module.name.startswith(("pyteal.compiler.sourcemap", "pyteal.stack_frame", "feature_gates")):
            continue
        for n in walk_local(f.node):
            t = None
            if isinstance(n, (ast.If, ast.While, ast.IfExp)):
                t = n.test
            elif isinstance(n, ast.BoolOp) and not isinstance(getattr(n, "parent", None), (ast.If, ast.While, ast.IfExp, ast.BoolOp)):
                t = n
            if t is None:
                continue
            txt = u(t)
            if not any(k in txt for k in KEYS):
                continue
            key = (f.qualname, txt)
            seen.add(key)
            where = f"{f.module.rel}:{n.lineno}"
            if key in BRANCH_OK:
                ctx.ok("R15.1", f"{f.qualname}:{txt[:50]}", {"reason": BRANCH_OK[key]}, where)
            else:
                ctx.bad("R15.1", f"{f.qualname}:{txt[:60]}", f"`{txt[:100]}` makes control flow in code-generation code depend on source-map / frame state: the program with a source map could differ from the program without", where)
    f = ctx.model.find_func("Compilation._compile_impl", "pyteal.compiler.compiler")
    vcalls = q.calls_named(f.node, "_validate_teal_identical", into_nested=False)
    if len(vcalls) != 1:
        ctx.bad("R15.1", "_compile_impl:identity-check-present", f"_compile_impl must compare the program compiled with frames against the one compiled without exactly once; found {len(vcalls)} call(s) of _validate_teal_identical", f.where)
        return
    vcall = vcalls[0]
    tname = u(vcall.args[1])
    tc = [n for n in walk_local(f.node) if isinstance(n, ast.Assign) and u(n.targets[0]) == tname]
    early = [n for n in walk_local(f.node) if isinstance(n, ast.If) and u(n.test) == "not with_sourcemap"]
    ctx.check(len(tc) == 1 and len(early) == 1 and tc[0].lineno < early[0].lineno, "R15.1", "_compile_impl:teal-before-sourcemap-branch", "teal_code must be computed before the first statement that depends on with_sourcemap (other than refusing the request)", f.where, fact={})
    ctx.require_min("R15.1", 10)


def r15_2_validators(ctx):
    ctx.rule("R15.2", "self-validation lies on every path: with a source map requested _compile_impl recompiles without frames inside sourcemapping_off_context and compares both texts; build() ends in _validate_build; get_sourcemap / annotated_teal validate the annotated text; the off-context restores both gates in a finally")
    f = ctx.model.find_func("Compilation._compile_impl", "pyteal.compiler.compiler")
    vs_ = q.calls_named(f.node, "_validate_teal_identical", into_nested=False)
    if len(vs_) != 1:
        ctx.bad("R15.2", "_compile_impl:identity-check", f"the identity check (_validate_teal_identical) must be called exactly once; found {len(vs_)}", f.where)
        return
    v = vs_[0]
    withs = [a for a in q.ancestors(v) if isinstance(a, ast.With) and "sourcemapping_off_context" in u(a.items[0].context_expr)]
    rec = [c for c in q.calls_named(f.node, "compileTeal", into_nested=False)]
    ok = bool(withs) and len(rec) == 1 and any(a is withs[0] for a in q.ancestors(rec[0])) and isinstance(v.args[1], ast.Name) and any(isinstance(d, ast.Call) and u(d.func).endswith(".join") for d in q.assigns_to(f.node, u(v.args[1]))) and q.rtext(f.node, v.args[0]).startswith("compileTeal(self.ast, self.mode")
    ctx.check(ok, "R15.2", "_compile_impl:identity-check", "the program compiled without frames must be compared with the program compiled with frames, inside sourcemapping_off_context", f"{f.module.rel}:{v.lineno}", fact={})
    # (which settings the comparison compile is given is decided by R15.11, from the constructor and compileTeal themselves)
    rets = [r for r in q.returns_of(f.node) if r.lineno > v.lineno]
    ctx.check(len(rets) == 1 and not q.nguards(rets[0], ("branch",)), "R15.2", "_compile_impl:check-before-return", "the only return behind the source-map branch follows the identity check", f.where, fact={})
    sm = ctx.model.module("pyteal.compiler.sourcemap")
    b = ctx.model.find_func("_PyTealSourceMapper.build", sm.name)
    last = [s for s in b.node.body if not isinstance(s, ast.Pass)][-1]
    ctx.check(isinstance(last, ast.Expr) and u(last.value) == "self._validate_build()", "R15.2", "build:ends-in-validate", "build() must end by validating what it built", b.where, fact={})
    gs = ctx.model.find_func("_PyTealSourceMapper.get_sourcemap", sm.name)
    ctx.check(bool(q.calls_named(gs.node, "_validate_annotated", into_nested=False)), "R15.2", "get_sourcemap:validates-annotated", "get_sourcemap must validate the annotated TEAL against the TEAL it is given", gs.where, fact={})
    at = ctx.model.find_func("_PyTealSourceMapper.annotated_teal", sm.name)
    c = q.calls_named(at.node, "_validate_annotated", into_nested=False)
    rets = q.returns_of(at.node)
    ctx.check(len(c) == 1 and all(c[0].lineno < r.lineno for r in rets), "R15.2", "annotated_teal:validates", "annotated_teal must validate before returning", at.where, fact={})
    oc = ctx.model.find_func("sourcemapping_off_context", "pyteal.stack_frame")
    tries = [n for n in walk_local(oc.node) if isinstance(n, ast.Try) and n.finalbody]
    fin = " ".join(u(s) for s in tries[0].finalbody) if tries else ""
    ctx.check(bool(tries) and "set_sourcemap_enabled(_sourcemap_before)" in fin and "set_sourcemap_debug(_sourcemap_debug_before)" in fin and any(isinstance(x, ast.Yield) for s in tries[0].body for x in ast.walk(s)), "R15.2", "sourcemapping_off_context:restores-in-finally", "both feature gates must be restored in a finally around the yield", oc.where, fact={})
    ctx.require_min("R15.2", 6)


def r15_3_one_item_per_line(ctx):
    ctx.rule("R15.3", "one map item per TEAL line: the item list is built by iterating the lines of every chunk in order with one running line counter, and the R3 map has one entry key per item")
    sm = ctx.model.module("pyteal.compiler.sourcemap")
    b = ctx.model.find_func("_PyTealSourceMapper.build", sm.name)
    loops = [n for n in walk_local(b.node) if isinstance(n, ast.For) and "splitlines()" in u(n.iter)]
    ctx.check(len(loops) >= 1, "R15.3", "build:per-line-loop", "build() must iterate the lines of each TEAL chunk", b.where, fact={"loops": [u(l.iter) for l in loops]})
    vb = ctx.model.find_func("_PyTealSourceMapper._validate_build", sm.name)
    txt = u(vb.node)
    ctx.check("len(dechunked)" in txt and "len(self._cached_tmis)" in txt and "file_lines" in txt, "R15.3", "_validate_build:counts", "the validator must compare the number of TEAL lines, map items and R3 target lines", vb.where, fact={})
    br = ctx.model.find_func("_PyTealSourceMapper._build_r3sourcemap", sm.name)
    ctx.check("for tmi in self._cached_tmis" in u(br.node) and "(r3sm.line, r3sm.column): r3sm for r3sm in r3sms" in u(br.node), "R15.3", "_build_r3sourcemap:one-entry-per-item", "the R3 entries must be keyed by each item's (line, column)", br.where, fact={})
    ctx.require_min("R15.3", 3)


def r15_6_recorded_path(ctx):
    import posixpath

    ctx.rule("R15.6", "the file recorded for a frame names the source file: with relative paths on, joining the compile-time working directory with PyTealFrame.file() and normalising gives the frame's file (files inside the directory, in sub-directories, in sibling directories whose name starts with the directory's name, elsewhere); with relative paths off it is the file name unchanged; a frame without info records the empty string")
    c = ctx.model.find_class("PyTealFrame", "pyteal.stack_frame")
    f = q.need(c.methods.get("file"), "PyTealFrame.file vanished")
    root = c.methods.get("root")
    ctx.analysed(f.fq)
    cwds = ["/x/proj", "/", "/x/proj/"]
    paths = ["/x/proj/a.py", "/x/proj/sub/dir/a.py", "/x/proj_shared/lib.py", "/x/projection.py", "/x/other/a.py", "/a.py", "/x/proj/../proj2/a.py", "/x/proj/proj/a.py", "/y/x/proj/a.py"]
    for cwd in cwds:
        norm_cwd = posixpath.normpath(cwd)

        def relpath(p, start=None, norm_cwd=norm_cwd):
            return posixpath.relpath(p, norm_cwd if start is None else start)

        ospath = Sym("os.path", attrs={"sep": "/"}, methods={"relpath": relpath, "join": posixpath.join, "normpath": posixpath.normpath, "dirname": posixpath.dirname, "basename": posixpath.basename, "isabs": posixpath.isabs, "commonpath": posixpath.commonpath, "commonprefix": posixpath.commonprefix, "abspath": lambda p, norm_cwd=norm_cwd: posixpath.normpath(posixpath.join(norm_cwd, p))})
        os_sym = Sym("os", attrs={"path": ospath, "sep": "/"}, methods={"getcwd": lambda norm_cwd=norm_cwd: norm_cwd})

        def oracle(e, me, os_sym=os_sym):
            if u(e) == "os":
                return os_sym
            raise Unknown()

        for path in paths:
            for rel in (True, False):
                selfs = Sym("frame", attrs={"_file": None, "_root": None, "rel_paths": rel, "frame_info": Sym("info", attrs={"filename": path})})
                if root is not None:
                    selfs.methods["root"] = lambda selfs=selfs, oracle=oracle: run_function(root.node, {"self": selfs}, oracle, root.fq)[0]
                construct = f"PyTealFrame.file[cwd={cwd},file={path},rel_paths={rel}]"
                try:
                    val, _ = run_function(f.node, {"self": selfs}, oracle, f.fq)
                except Raised as r:
                    ctx.bad("R15.6", construct, f"raises {r.exc_text[:60]}", f.where)
                    continue
                if rel:
                    ok = isinstance(val, str) and posixpath.normpath(posixpath.join(norm_cwd, val)) == posixpath.normpath(path)
                    why = f"records `{val}`, which from {norm_cwd} names {posixpath.normpath(posixpath.join(norm_cwd, val)) if isinstance(val, str) else '?'}, not {posixpath.normpath(path)}"
                else:
                    ok = val == path
                    why = f"records `{val}` instead of the file name `{path}`"
                ctx.check(ok, "R15.6", construct, why, f.where, fact={"recorded": val})
    selfs = Sym("frame", attrs={"_file": None, "_root": None, "rel_paths": True, "frame_info": None})
    val, _ = run_function(f.node, {"self": selfs}, lambda e, me: (_ for _ in ()).throw(Unknown()), f.fq)
    ctx.check(val == "", "R15.6", "PyTealFrame.file[no frame info]", f"records {val!r}", f.where, fact={})
    ctx.require_min("R15.6", 50)


_ENUM_REASON = "named constant of the public API, created once at import by design; its import-time frames are not a user line and the mapper infers the line from the expression that uses it (checked by hand: `int OptIn` is attributed to the line of the comparison it stands in)"
MODULE_LEVEL_EXPR_OK = {
    ("pyteal.ast.opup", "ON_CALL_APP"): "the constant approval program of the OpUp inner call; it has no user source line, attribution to opup.py is the intended one",
    **{("pyteal.ast.app", f"OnComplete.{k}"): _ENUM_REASON for k in ("NoOp", "OptIn", "CloseOut", "ClearState", "UpdateApplication", "DeleteApplication")},
    **{("pyteal.ast.txn", f"TxnType.{k}"): _ENUM_REASON for k in ("Unknown", "Payment", "KeyRegistration", "AssetConfig", "AssetTransfer", "AssetFreeze", "ApplicationCall")},
}


def r15_8_no_shared_expression_objects(ctx):
    ctx.rule("R15.8", "an expression is attributed to the place where it was created, so expression objects are created where they are used: the inventory of module-level and class-level expression instances (objects shared between call sites, whose creation frames are not a user line) is closed: the constant OpUp program and the OnComplete / TxnType named constants, each with its reason")
    exprs = {c.name for c in ctx.model.iter_classes() if any(k.name == "Expr" for k in ctx.model.mro(c))}
    factories = set()
    for f in ctx.model.iter_funcs():
        if f.cls is None and f.module.name.startswith("pyteal.ast") and f.node.returns is not None and "<locals>" not in f.qualname:
            r = u(f.node.returns).replace(chr(39), '').replace(chr(34), '').split('.')[-1]
            if r in exprs or r == "Expr":
                factories.add(f.name)
    n = 0
    for mod in ctx.model.modules.values():
        if mod.name.endswith("_test") or not mod.name.startswith("pyteal"):
            continue
        scopes = [("", mod.tree.body)] + [(c.name + ".", c.body) for c in mod.tree.body if isinstance(c, ast.ClassDef)]
        for prefix, body in scopes:
            for st in body:
                if not (isinstance(st, (ast.Assign, ast.AnnAssign)) and st.value is not None):
                    continue
                n += 1
                made = sorted({u(c.func).split(".")[-1] for c in ast.walk(st.value) if isinstance(c, ast.Call) and u(c.func).split(".")[-1] in (exprs | factories) and not any(isinstance(a, (ast.Lambda, ast.FunctionDef)) for a in q.ancestors(c) if a is not st)})
                if not made:
                    continue
                tgt = prefix + (u(st.targets[0]) if isinstance(st, ast.Assign) else u(st.target))
                key = (mod.name, tgt)
                if key in MODULE_LEVEL_EXPR_OK:
                    ctx.ok("R15.8", f"{mod.name}:{tgt}", {"reason": MODULE_LEVEL_EXPR_OK[key]}, f"{mod.rel}:{st.lineno}")
                else:
                    ctx.bad("R15.8", f"{mod.name}:{tgt}", f"`{u(st)[:80]}` creates {made} once, when the module is imported: every use of the shared object is attributed to this line instead of the user's source line", f"{mod.rel}:{st.lineno}")
    ctx.instances["R15.8"] = ctx.instances.get("R15.8", 0) + n
    q.need(n > 300, f"only {n} module/class-level assignments scanned")
    ctx.rule_text_suffix = None


def r15_9_frame_classification(ctx):
    ctx.rule("R15.9", "a user's frame is never taken for a compiler frame: _is_compilation_gateway answers true only for the compiler's own functions in the compiler's own files - a function of the same name in a user file, or another function in a compiler file, is a user / ordinary frame (expressions built there keep their own line); the gateway table names functions that exist in the files it names")
    sf = ctx.model.find_class("StackFrame", "pyteal.stack_frame")
    f = q.need(sf.methods.get("_is_compilation_gateway"), "StackFrame._is_compilation_gateway vanished")
    ctx.analysed(f.fq)
    node = sf.class_attrs.get("_compilation_gateways")
    q.need(isinstance(node, ast.Dict) and all(isinstance(k, ast.Constant) and isinstance(v, ast.Constant) for k, v in zip(node.keys, node.values)), "StackFrame._compilation_gateways is not a literal table")
    table = {k.value: v.value for k, v in zip(node.keys, node.values)}
    cls_sym = Sym("StackFrame", attrs={"_compilation_gateways": dict(table)})
    for fn, path in table.items():
        mod = next((m for m in ctx.model.modules.values() if m.rel == path), None)
        ctx.check(mod is not None and any(x.name == fn for x in mod.all_funcs), "R15.9", f"gateway-table[{fn}]", f"the table names `{fn}` in `{path}`; no such function exists there", sf.where, fact={"file": path})
    frames = []
    for fn, path in table.items():
        frames += [(fn, "/site-packages/" + path, True), (fn, "/home/user/project/app.py", False), (fn, "/home/user/project/" + path.split("/")[-1], False), ("helper", "/site-packages/" + path, False)]
    frames += [("main", "/home/user/project/app.py", False)]
    for fn, filename, want in frames:
        fi = Sym("frame-info", attrs={"function": fn, "filename": filename})
        try:
            val, _ = run_function(f.node, {"cls": cls_sym, "f": fi}, lambda e, me: (_ for _ in ()).throw(Unknown()), f.fq)
            got = bool(val)
        except Raised as r:
            got = f"raises {r.exc_text[:40]}"
        ctx.check(got is want, "R15.9", f"_is_compilation_gateway[{fn} in {filename}]", f"a frame of function `{fn}` in `{filename}` is classified as {'a compiler gateway' if got is True else got if got is not False else 'an ordinary frame'}; expected {'gateway' if want else 'ordinary frame'}", f.where, fact={"gateway": got})
    ctx.require_min("R15.9", 10)


def r15_10_router_results_pairing(ctx):
    ctx.rule("R15.10", "a router's results pair each program with its own text and its own map: Router._build_impl compiles the approval and the clear-state program each with its own file name and hands each compilation's text and source mapper to the field of the same name; _RouterBundle.get_results asks each mapper for the map of its own text - evaluated with distinguishable stand-ins for the two programs")
    rc = ctx.model.find_class("Router", "pyteal.ast.router")
    bi = q.need(rc.methods.get("_build_impl"), "Router._build_impl vanished")
    rb = ctx.model.find_class("_RouterBundle", "pyteal.ast.router")
    gr = q.need(rb.methods.get("get_results"), "_RouterBundle.get_results vanished")
    ctx.analysed(bi.fq, gr.fq)

    # --- _build_impl: which compilation feeds which field
    def compilation(prog):
        def impl(**kw):
            return Sym(f"bundle:{prog}", attrs={"teal": f"TEAL[{prog},file={kw.get('teal_filename')}]", "sourcemapper": Sym(f"mapper:{prog}", attrs={"of": prog, "file": kw.get("teal_filename")})})
        return Sym(f"compilation:{prog}", methods={"_compile_impl": impl})

    inp = Sym("input", attrs={"version": 8, "optimize": None, "with_sourcemaps": True, "approval_filename": "approval.teal", "clear_filename": "clear.teal", "pcs_in_sourcemaps": False, "algod_client": None, "annotate_teal": False, "annotate_teal_headers": False, "annotate_teal_concise": True},
              methods={"get_compilation": lambda prog: compilation(prog)})
    ctxmgr = Sym("cleaning", methods={"__enter__": lambda: None, "__exit__": lambda *a: False})
    selfs = Sym("self:Router", methods={"_cleaning_context": lambda: ctxmgr, "_build_program": lambda **kw: ("AP", "CSP", "CONTRACT")})

    def oracle(e, me):
        if u(e) == "_RouterBundle":
            return lambda **kw: dict(kw)
        raise Unknown()

    try:
        got, _ = run_function(bi.node, {"self": selfs, "input": inp}, oracle, bi.fq, permissive=True)
    except Raised as r:
        got = None
        ctx.bad("R15.10", "_build_impl", f"raises {r.exc_text[:60]}", bi.where)
    if isinstance(got, dict):
        want = {"approval_program": "AP", "clear_program": "CSP", "abi_contract": "CONTRACT", "approval_teal": "TEAL[AP,file=approval.teal]", "clear_teal": "TEAL[CSP,file=clear.teal]"}
        for k, v in want.items():
            ctx.check(got.get(k) == v, "R15.10", f"_build_impl:{k}", f"the bundle's `{k}` is {got.get(k)!r}; it must be {v!r}", bi.where, fact={"value": repr(got.get(k))[:60]})
        for k, prog, fn in (("approval_sourcemapper", "AP", "approval.teal"), ("clear_sourcemapper", "CSP", "clear.teal")):
            m = got.get(k)
            ok = isinstance(m, Sym) and m.attrs.get("of") == prog and m.attrs.get("file") == fn
            ctx.check(ok, "R15.10", f"_build_impl:{k}", f"the bundle's `{k}` is the mapper of {getattr(m, 'attrs', {}).get('of')!r} built for file {getattr(m, 'attrs', {}).get('file')!r}; it must be the one of {prog} for {fn}", bi.where, fact={})

    # --- get_results: each mapper is asked for the map of its own text
    for have_a, have_c in ((True, True), (True, False), (False, True), (False, False)):
        mk = lambda tag: Sym(f"mapper:{tag}", methods={"get_sourcemap": lambda teal, tag=tag: ("map", tag, teal)})
        bundle = Sym("self:bundle", attrs={"approval_teal": "A-TEAL", "clear_teal": "C-TEAL", "abi_contract": "CONTRACT", "approval_sourcemapper": mk("A") if have_a else None, "clear_sourcemapper": mk("C") if have_c else None})

        def oracle2(e, me):
            if u(e) == "RouterResults":
                return lambda **kw: dict(kw)
            raise Unknown()

        construct = f"get_results[approval map {'on' if have_a else 'off'}, clear map {'on' if have_c else 'off'}]"
        try:
            res, _ = run_function(gr.node, {"self": bundle}, oracle2, gr.fq, permissive=True)
        except Raised as r:
            ctx.bad("R15.10", construct, f"raises {r.exc_text[:60]}", gr.where)
            continue
        want = {"approval_teal": "A-TEAL", "clear_teal": "C-TEAL", "abi_contract": "CONTRACT", "approval_sourcemap": ("map", "A", "A-TEAL") if have_a else None, "clear_sourcemap": ("map", "C", "C-TEAL") if have_c else None}
        ctx.check(res == want, "R15.10", construct, f"results {res!r}; expected {want!r}", gr.where, fact={})
    ctx.require_min("R15.10", 10)


def r15_11_recompile_with_own_settings(ctx):
    ctx.rule("R15.11", "the program a source map is checked against is compiled with this compilation's own settings: the comparison compile inside Compilation._compile_impl forwards every constructor setting of the Compilation (each `self.<setting>`) to the compileTeal parameter that compileTeal hands to that same constructor parameter - a setting left out makes the two texts differ, i.e. asking for a map turns a valid compile into a failure")
    cc = ctx.model.find_class("Compilation", "pyteal.compiler.compiler")
    init = cc.methods["__init__"]
    impl = cc.methods["_compile_impl"]
    ct = ctx.model.find_func("compileTeal", "pyteal.compiler.compiler")
    ctx.analysed(init.fq, impl.fq, ct.fq)

    def params(fnode, skip_self):
        a = fnode.args
        pos = [x.arg for x in a.posonlyargs + a.args][1 if skip_self else 0:]
        return pos, [x.arg for x in a.kwonlyargs]

    def bind(call, fnode, skip_self):
        pos, kwo = params(fnode, skip_self)
        out = {}
        for i, v in enumerate(call.args):
            if i < len(pos):
                out[pos[i]] = v
        for k in call.keywords:
            if k.arg:
                out[k.arg] = k.value
        return out

    ctor_pos, ctor_kw = params(init.node, True)
    stored = {}
    for st in walk_local(init.node):
        if isinstance(st, ast.Assign) and isinstance(st.value, ast.Name) and st.value.id in ctor_pos + ctor_kw:
            for t in st.targets:
                if isinstance(t, ast.Attribute) and u(t.value) == "self":
                    stored[st.value.id] = t.attr
    inner = q.one([c for c in q.calls_named(ct.node, "Compilation")], "compileTeal: the Compilation(...) construction")
    fwd = {cp: v.id for cp, v in bind(inner, init.node, True).items() if isinstance(v, ast.Name)}  # ctor param -> compileTeal param
    recompiles = [c for c in q.calls_named(impl.node, "compileTeal", into_nested=True)]
    q.need(len(recompiles) == 1, f"{impl.fq}: {len(recompiles)} comparison compiles found, 1 expected")
    got = bind(recompiles[0], ct.node, False)
    for cp in ctor_pos + ctor_kw:
        construct = f"recompile:{cp}"
        if cp not in stored or cp not in fwd:
            ctx.uncheck(f"Compilation setting `{cp}` is not stored / not forwarded by compileTeal by name")
            continue
        v = got.get(fwd[cp])
        ok = v is not None and u(q.resolve_local(impl.node, v)) == f"self.{stored[cp]}"
        ctx.check(ok, "R15.11", construct, f"the comparison compile passes {('`' + u(v) + '`') if v is not None else 'nothing'} for compileTeal's `{fwd[cp]}`; this compilation's own setting is `self.{stored[cp]}`, so with a non-default `{cp}` the two texts differ and a requested map fails the compile", f"{impl.module.rel}:{recompiles[0].lineno}", fact={"passed": u(v) if v is not None else None})
    ctx.require_min("R15.11", 5)


def run(ctx):
    r15_4_vlq(ctx)
    r15_5_r3_json(ctx)
    r15_1_non_interference(ctx)
    r15_2_validators(ctx)
    r15_3_one_item_per_line(ctx)
    r15_6_recorded_path(ctx)
    from rules import c18 as _c18

    _c18.r18_1_annotations_delegate(ctx)  # one comment op per line as the source mapper counts lines (shared with C18)
    r15_8_no_shared_expression_objects(ctx)
    r15_9_frame_classification(ctx)
    r15_10_router_results_pairing(ctx)
    r15_11_recompile_with_own_settings(ctx)
    from rules.lowering_sem import r15_7_relowering

    r15_7_relowering(ctx)
    from rules import c12 as _c12

    _c12.r12_1_sites(ctx)  # ops rewritten by the constants pass stay attributed to their own expression, one op object per site (shared with C12)
    return (
        "Abstract evaluation of the base64-VLQ codec and of R3SourceMap.to_json/from_json against an independent Revision-3 encoder/decoder (several sources in non-alphabetical "
        "first-use order, large deltas, empty lines); closed list of branch conditions on source-map state outside the source-map modules (non-interference); must-pass-through of "
        "the self-validators. Correctness of each line attribution is not decided."
    )
