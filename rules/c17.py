"""C17 - reading a routine-local variable before writing it is rejected (structural clauses)."""
from __future__ import annotations

import ast
import itertools
import random

from sa import q
from sa.astutil import u, walk_local
from sa.minieval import MiniEval, OpVal, Raised, Rec, Sym, Unknown, run_function
from sa.model import AnalysisError
from rules.c03 import Blocks, make_oracle, mkop, op_sym
from rules.c10 import _slot, _program


def _graph(ctx, OpS, spec, idof=None):
    """spec: {name: (ops, [succ names])}, ops = [('store'|'load'|'int'|'err'|'return_'|'retsub', slotname?)]"""
    B = Blocks()
    slots = {}
    blocks = {}
    loads = []
    vs = ctx.model.find_func("TealBlock.validateSlots", "pyteal.ir.tealblock")
    it = ctx.model.find_func("TealBlock.isTerminal", "pyteal.ir.tealblock")
    holder = {}
    for name, (ops, _succ) in spec.items():
        lst = []
        for k, o in enumerate(ops):
            if o[0] in ("store", "load"):
                s = slots.setdefault(o[1], _slot(o[1], (idof or (lambda n: 300 + n))(len(slots)), False))
                # the op's expression behaves like a PyTeal expression: `==` builds an Eq expression, which type-checks
                # its operands (the three variables hold uint64, bytes, uint64)
                ex = Sym(f"expr:{name}:{k}:{o[0]} {o[1]}", attrs={"$isa": {"Expr"}, "ttype": "bytes" if o[1] == "y" else "uint64"})

                def expr_eq(other, ex=ex):
                    if isinstance(other, Sym) and other.attrs.get("ttype") not in (None, ex.attrs["ttype"]):
                        raise Raised("TealTypeError(actual, expected) from comparing two expressions with ==", None)
                    return Rec("call", Rec("name", "Eq"), [ex, other], {})

                ex.methods["__eq__"] = expr_eq
                op = mkop(OpS, o[0], s, expr=ex)
                if o[0] == "load":
                    loads.append((name, k, o[1], op))
            elif o[0] == "int" and len(o) > 1:
                # the index of the variable is taken (ScratchIndex / by-reference argument): not a write
                s = slots.setdefault(o[1], _slot(o[1], (idof or (lambda n: 300 + n))(len(slots)), False))
                op = mkop(OpS, "int", s)
            else:
                op = mkop(OpS, o[0], *( [1] if o[0] == "int" else []))
            lst.append(op)
        b = B.block(name, lst)
        blocks[name] = b
    for name, (_ops, succ) in spec.items():
        B.succ[blocks[name]] = [blocks[s] for s in succ]
    for b in blocks.values():
        b.methods["isTerminal"] = (lambda b: lambda: holder["me"].call_def(it.node, [b], {}, {}))(b)
        b.methods["validateSlots"] = (lambda b: lambda *a, **kw: holder["me"].call_def(vs.node, [b] + list(a), kw, {}))(b)
    return B, blocks, slots, loads, holder, vs


def _reference(spec, entry, initial=()):
    """loads that some path reaches without a prior store (paths stop at blocks holding err/return/retsub or without successors)"""
    bad = set()
    seen = set()
    stack = [(entry, frozenset(initial))]
    while stack:
        name, stored = stack.pop()
        if (name, stored) in seen:
            continue
        seen.add((name, stored))
        ops, succ = spec[name]
        cur = set(stored)
        terminal = False
        for k, o in enumerate(ops):
            if o[0] == "store":
                cur.add(o[1])
            elif o[0] == "load" and o[1] not in cur:
                bad.add((name, k))
            elif o[0] in ("err", "return_", "retsub"):
                terminal = True
        if terminal or not succ:
            continue
        for s in succ:
            stack.append((s, frozenset(cur)))
    return bad


SCENARIOS = {
    "store then load": ({"a": ([("store", "x"), ("load", "x")], [])}, "a"),
    "load before store in one block": ({"a": ([("load", "x"), ("store", "x")], [])}, "a"),
    "diamond, only then-arm stores (then first)": ({"c": ([], ["t", "e"]), "t": ([("store", "x")], ["j"]), "e": ([("int",)], ["j"]), "j": ([("load", "x")], [])}, "c"),
    "diamond, only else-arm stores (non-storing arm first)": ({"c": ([], ["t", "e"]), "t": ([("int",)], ["j"]), "e": ([("store", "x")], ["j"]), "j": ([("load", "x")], [])}, "c"),
    "diamond, both arms store": ({"c": ([], ["t", "e"]), "t": ([("store", "x")], ["j"]), "e": ([("store", "x")], ["j"]), "j": ([("load", "x")], [])}, "c"),
    "if without else, then-arm stores, join loads": ({"c": ([], ["t", "j"]), "t": ([("store", "x")], ["j"]), "j": ([("load", "x")], [])}, "c"),
    "else-if chain, middle arm does not store": ({"c1": ([], ["a1", "c2"]), "a1": ([("store", "x")], ["j"]), "c2": ([], ["a2", "a3"]), "a2": ([("int",)], ["j"]), "a3": ([("store", "x")], ["j"]), "j": ([("load", "x")], [])}, "c1"),
    "zero-iteration loop: body stores, exit loads": ({"h": ([], ["b", "x"]), "b": ([("store", "x")], ["h"]), "x": ([("load", "x")], [])}, "h"),
    "loop: stored before the loop, loaded inside": ({"p": ([("store", "x")], ["h"]), "h": ([], ["b", "x"]), "b": ([("load", "x")], ["h"]), "x": ([], [])}, "p"),
    "loop with break that skips the store": ({"h": ([], ["b", "x"]), "b": ([], ["s", "x"]), "s": ([("store", "x")], ["h"]), "x": ([("load", "x")], [])}, "h"),
    "arm ending in err does not reach the join": ({"c": ([], ["t", "e"]), "t": ([("store", "x")], ["j"]), "e": ([("err",)], ["j"]), "j": ([("load", "x")], [])}, "c"),
    "arm ending in return does not reach the join": ({"c": ([], ["t", "e"]), "t": ([("store", "x")], ["j"]), "e": ([("int",), ("return_",)], ["j"]), "j": ([("load", "x")], [])}, "c"),
    "two variables, one uninitialised on one path": ({"c": ([("store", "y")], ["t", "e"]), "t": ([("store", "x")], ["j"]), "e": ([], ["j"]), "j": ([("load", "y"), ("load", "x")], [])}, "c"),
    "join reached first with the larger set, then with the smaller": ({"c": ([], ["t", "e"]), "t": ([("store", "x"), ("store", "y")], ["j"]), "e": ([("store", "y")], ["j"]), "j": ([("load", "y")], ["k"]), "k": ([("load", "x")], [])}, "c"),
    "arms store different variables, join loads the first arm's": ({"c": ([], ["t", "e"]), "t": ([("store", "x")], ["j"]), "e": ([("store", "y")], ["j"]), "j": ([("load", "x")], [])}, "c"),
    "arms store different variables, join loads the second arm's": ({"c": ([], ["t", "e"]), "t": ([("store", "x")], ["j"]), "e": ([("store", "y")], ["j"]), "j": ([("load", "y")], [])}, "c"),
    "arms store different variables, join loads both": ({"c": ([], ["t", "e"]), "t": ([("store", "x")], ["j"]), "e": ([("store", "y")], ["j"]), "j": ([("load", "x"), ("load", "y")], [])}, "c"),
    "three Cond arms each storing its own variable": ({"c1": ([], ["a1", "c2"]), "a1": ([("store", "x")], ["j"]), "c2": ([], ["a2", "a3"]), "a2": ([("store", "y")], ["j"]), "a3": ([("store", "z")], ["j"]), "j": ([("load", "z")], ["k"]), "k": ([("load", "x")], [])}, "c1"),
    "same number of stores on both arms, different sets, two joins": ({"c": ([("store", "w")], ["t", "e"]), "t": ([("store", "x"), ("store", "y")], ["j"]), "e": ([("store", "y"), ("store", "z")], ["j"]), "j": ([("load", "y")], ["k"]), "k": ([("load", "z"), ("load", "x")], [])}, "c"),
    "index taken, never stored, then loaded": ({"a": ([("int", "x"), ("load", "x")], [])}, "a"),
    "index taken in one arm, loaded at the join": ({"c": ([], ["t", "e"]), "t": ([("int", "x")], ["j"]), "e": ([("store", "x")], ["j"]), "j": ([("load", "x")], [])}, "c"),
    "two offending loads of different expressions in nested blocks": ({"a": ([("load", "x")], ["b"]), "b": ([("load", "y")], ["c"]), "c": ([("load", "x"), ("load", "z")], [])}, "a"),
    "the same offending block reached over two paths": ({"c": ([], ["t", "e"]), "t": ([("int",)], ["j"]), "e": ([("int",)], ["j"]), "j": ([("load", "x"), ("load", "y")], [])}, "c"),
    "loop re-entered with a different set of the same size": ({"p": ([], ["t", "e"]), "t": ([("store", "x")], ["h"]), "e": ([("store", "y")], ["h"]), "h": ([], ["b", "q"]), "b": ([("load", "y")], ["h"]), "q": ([], [])}, "p"),
}


def r17_1_walk(ctx):
    ctx.rule("R17.1", "validateSlots reports exactly the loads that some path reaches without a prior store: evaluated on branch, join, loop, break and early-exit shaped graphs (and random small graphs) against an independent path-sensitive reference; each error names the offending load's expression")
    OpS = op_sym(ctx.model)
    scen = dict(SCENARIOS)
    rnd = random.Random(1234 + ctx.seed)
    n_rand = 120 if ctx.tier == "quick" else 1500
    for i in range(n_rand):
        nb = rnd.randint(2, 5)
        names = [f"b{k}" for k in range(nb)]
        spec = {}
        for k, nm in enumerate(names):
            ops = [rnd.choice([("store", "x"), ("load", "x"), ("store", "y"), ("load", "y"), ("store", "z"), ("load", "z"), ("int",), ("err",)] if rnd.random() < 0.95 else [("return_",)]) for _ in range(rnd.randint(0, 2))]
            succ = rnd.sample(names, rnd.choice([0, 1, 1, 2, 2]))
            spec[nm] = (ops, succ)
        scen[f"random#{i}"] = (spec, "b0")
    # the walk depends on which slots were stored, not on their numbers: the named scenarios are also evaluated with slot
    # ids that coincide modulo 256 (an explicitly requested id next to automatically numbered ones) and with id 0
    ID_SCHEMES = {"": None, " [ids 5, 261, 517, ...]": lambda n: 5 + 256 * n, " [ids 0, 256, 1, 257]": lambda n: (n % 2) * 256 + n // 2}
    for nm, v in list(SCENARIOS.items()):
        for tag in list(ID_SCHEMES)[1:]:
            scen[nm + tag] = v
    f = None
    for name, (spec, entry) in scen.items():
        tag = next((t for t in list(ID_SCHEMES)[1:] if name.endswith(t)), "")
        B, blocks, slots, loads, holder, vs = _graph(ctx, OpS, spec, ID_SCHEMES[tag])
        f = vs
        want = _reference(spec, entry)

        def setup(me):
            holder["me"] = me

        def extra(e, me):
            raise Unknown()

        from sa.objworld import ObjWorld

        OW = ObjWorld(ctx.model, ["pyteal.errors"], real_classes={"TealCompileError"}, where="c17")
        base = make_oracle(OpS, B, extra)

        def oracle(e, me, base=base, OW=OW):
            try:
                return base(e, me)
            except Unknown:
                OW.me = me
                return OW.oracle()(e, me)

        try:
            val, me = run_function(vs.node, {"self": blocks[entry]}, oracle, vs.fq, permissive=True, setup=setup)
        except Raised as r:
            ctx.bad("R17.1", f"validateSlots[{name}]", f"raises {r.exc_text[:60]}", vs.where)
            continue
        got = set()
        unnamed = 0
        for err in val or []:
            expr = err.attrs.get("sourceExpr") if isinstance(err, Sym) else (err.args[1] if isinstance(err, Rec) and len(err.args) > 1 else None)
            hit = [(bn, k) for bn, k, sl, op in loads if op.attrs["expr"] is expr]
            if hit:
                got.add(hit[0])
            else:
                unnamed += 1
        ok = got == want and unnamed == 0
        ctx.check(ok, "R17.1", f"validateSlots[{name}]", f"reports loads {sorted(got)}{' plus ' + str(unnamed) + ' error(s) that name no load' if unnamed else ''}; paths without a prior store reach {sorted(want)}", vs.where, fact={"reported": sorted(got), "graph": {k: [' '.join(o) for o in v[0]] for k, v in list(spec.items())[:6]}})
    ctx.analysed(f.fq, "pyteal.ir.tealblock.TealBlock.isTerminal")
    ctx.require_min("R17.1", 30)


def r17_4_wiring(ctx):
    ctx.rule("R17.4", "the check runs for every routine with exactly the shared (global) slots assumed initialised, before any index is assigned, after the optimiser, and its first error is chained into the TealInternalError that stops compilation")
    f = ctx.model.find_func("assignScratchSlotsToSubroutines", "pyteal.compiler.scratchslots")
    css = ctx.model.find_func("collectScratchSlots", "pyteal.compiler.scratchslots")
    # every module-level helper of the module is evaluated from its source when the routine calls it
    helpers = {x.name: x.node for x in f.module.all_funcs if x.cls is None and x.name != f.name}
    ctx.analysed(f.fq)
    OpS = op_sym(ctx.model)
    B = Blocks()
    g, r, l1, l2 = _slot("global", 400, False), _slot("reserved-local", 9, True), _slot("local-main", 401, False), _slot("local-sub", 402, False)
    sub = Sym("sub")
    sub_fp = Sym("sub-with-proto")
    l3 = _slot("local-fp-sub", 403, False)
    prog, _ = _program(OpS, B, {None: [g, r, l1], sub: [g, l2], sub_fp: [l3]})
    # a frame-pointer routine starts with proto; its scratch variables are checked like any other routine's
    prog[sub_fp].attrs["ops"].insert(0, mkop(OpS, "proto", 1, 0))
    # the index of a routine-local variable is taken (x.index(), a by-reference argument): it stays routine-local
    for key, sl in ((None, l1), (sub, l2)):
        o = mkop(OpS, "int", sl)
        o.attrs["assigned"] = {}
        o.methods["assignSlot"] = lambda slot, loc, o=o: o.attrs["assigned"].__setitem__(slot, loc)
        prog[key].attrs["ops"].append(o)
    captured = {}
    for key, blk in prog.items():
        blk.methods["validateSlots"] = (lambda key: lambda slotsInUse=None, **k: captured.__setitem__(key, set(slotsInUse) if slotsInUse is not None else None) or [])(key)

    def extra(e, me):
        if u(e) == "NUM_SLOTS":
            return 256
        raise Unknown()

    run_function(f.node, {"subroutineBlocks": prog}, make_oracle(OpS, B, extra), f.fq, resolver=helpers.get)
    ctx.check(set(captured) == {None, sub, sub_fp}, "R17.4", "assign:every-routine-checked", f"validateSlots was run for {sorted(map(repr, captured))}; every routine must be checked", f.where, fact={})
    for key, s in captured.items():
        ctx.check(s == {g}, "R17.4", f"assign:initial-set[{key!r}]", f"routine {key!r} is checked with {sorted(x.name for x in (s or []))} assumed initialised; exactly the slots shared between routines may be assumed (a routine-local slot with a requested id is still routine-local)", f.where, fact={"assumed": sorted(x.name for x in (s or []))})
    # whatever else _compile_impl hands to the allocator must not widen the assumed-initialised set
    ci_ = ctx.model.find_func("Compilation._compile_impl", "pyteal.compiler.compiler")
    acall = q.one(q.calls_named(ci_.node, "assignScratchSlotsToSubroutines", into_nested=False), "_compile_impl: assignScratchSlotsToSubroutines")
    params = f.params()
    extra_params = [params[i] for i in range(1, len(acall.args)) if i < len(params)] + [k.arg for k in acall.keywords if k.arg and k.arg != params[0]]
    for pname in extra_params:
        captured.clear()
        try:
            run_function(f.node, {"subroutineBlocks": prog, pname: {l1, l2, r}}, make_oracle(OpS, B, extra), f.fq, resolver=helpers.get)
        except (Raised, AnalysisError):
            continue  # the parameter is not a set of slots
        widened = sorted({x.name for s_ in captured.values() for x in (s_ or set())} - {g.name})
        ctx.check(not widened, "R17.4", f"assign:argument `{pname}` from _compile_impl", f"_compile_impl passes `{pname}` and slots given there ({widened}) are assumed initialised in every routine: routine-local variables named in it escape the check", f"{ci_.module.rel}:{acall.lineno}", fact={})
    # order: check precedes numbering; error chained
    vcall = q.one(q.calls_named(f.node, "validateSlots", into_nested=False), "validateSlots call")
    numbering = [n for n in walk_local(f.node) if isinstance(n, ast.Assign) and u(n.targets[0]).startswith("slotAssignments[")]
    ctx.check(bool(numbering) and all(vcall.lineno < n.lineno for n in numbering), "R17.4", "assign:check-before-numbering", "the definite-assignment check must run before slot indices are assigned", f.where, fact={})
    rs = [r_ for r_ in q.raises_of(f.node) if r_.cause is not None]
    errs = q.name_assigned_from(f.node, q.is_call_to("validateSlots"), "the error list returned by validateSlots")
    ctx.check(len(rs) == 1 and u(rs[0].cause) == f"{errs}[0]" and q.raise_type(rs[0]) == "TealInternalError" and (f"len({errs}) > 0", True) in q.nguards(rs[0]), "R17.4", "assign:error-chained", "when errors exist a TealInternalError must be raised `from errors[0]` (the error that names the load)", f.where, fact={})
    ci = ctx.model.find_func("Compilation._compile_impl", "pyteal.compiler.compiler")
    a = q.one(q.calls_named(ci.node, "assignScratchSlotsToSubroutines", into_nested=False), "_compile_impl: assignScratchSlotsToSubroutines")
    o = q.one(q.calls_named(ci.node, "apply_global_optimizations", into_nested=False), "_compile_impl: optimiser")
    cs_ = q.one(q.calls_named(ci.node, "compileSubroutine", into_nested=False), "_compile_impl: compileSubroutine call")
    ctx.check(o.lineno < a.lineno and not q.nguards(a, ("branch",)) and u(a.args[0]) == u(cs_.args[3]), "R17.4", "_compile_impl:check-after-optimiser", "slot assignment (and with it the check) must run unconditionally on all routines after the optimiser", ci.where, fact={})
    ctx.require_min("R17.4", 6)


def r17_5_exhaustive_walk(ctx):
    ctx.rule("R17.5", "the definite-assignment walk is exhaustive: validateSlots leaves its exploration only when nothing is left to explore - no break out of the walk, no return from inside it, no bound on the number of states (a program with many conditionally written variables has many states; cutting the walk short accepts whatever lies beyond the cut)")
    f = ctx.model.find_func("TealBlock.validateSlots", "pyteal.ir.tealblock")
    ctx.analysed(f.fq)
    loops = [n for n in walk_local(f.node) if isinstance(n, (ast.While, ast.For))]
    outer = [l for l in loops if not any(isinstance(a, (ast.While, ast.For)) for a in q.ancestors(l) if a is not l)]
    recursive = bool(q.calls_named(f.node, "validateSlots", into_nested=False))
    q.need(outer or recursive, f"{f.fq}: neither a walk loop nor recursion found")
    problems = []
    for loop in outer:
        if not isinstance(loop, ast.While):
            continue  # the per-op / per-successor for loops of a recursive formulation
        for n in ast.walk(loop):
            if isinstance(n, ast.Break):
                nearest = next((a for a in q.ancestors(n) if isinstance(a, (ast.While, ast.For))), None)
                if nearest is loop:
                    problems.append(f"`break` at line {n.lineno} (under {[g for g, _p in q.guards(n)][-1:]}) leaves the walk with states unexplored")
            if isinstance(n, ast.Return):
                problems.append(f"`return` at line {n.lineno} inside the walk")
        # the loop condition is the emptiness of the worklist only
        names = {x.id for x in ast.walk(loop.test) if isinstance(x, ast.Name)}
        if isinstance(loop.test, ast.BoolOp) or any(isinstance(x, ast.Compare) and not (isinstance(x.left, ast.Call) and u(x.left.func) == "len") for x in ast.walk(loop.test)):
            problems.append(f"the walk continues only while `{u(loop.test)}`: a further condition can end it early")
    if recursive:
        # recursive formulation: every successor is visited unless its state was seen (the only `continue` guard)
        for n in walk_local(f.node):
            if isinstance(n, (ast.Break,)):
                problems.append(f"`break` at line {n.lineno}")
    ctx.check(not problems, "R17.5", "validateSlots:exhaustive", "; ".join(problems[:2]), f.where, fact={"loops": len(outer), "recursive": recursive})
    ctx.require_min("R17.5", 1)


def run(ctx):
    from rules import c11 as _c11

    _c11.r11_1_inventory(ctx, only_under="pyteal/compiler")  # the check is made for every compilation: no process-wide memo of "already checked" in the compiler passes (shared with C11)
    _c11.r11_1_inventory(ctx, only_under="pyteal/ir")
    _c11.r11_8_object_state_inventory(ctx)  # the error names the expression that performs the offending load: load expressions are built per call site, never memoised on the variable / value object (shared with C11)
    r17_5_exhaustive_walk(ctx)
    r17_1_walk(ctx)
    r17_4_wiring(ctx)
    return (
        "Abstract evaluation of TealBlock.validateSlots (and isTerminal) on control-flow shapes and random small graphs, compared with an independent path-sensitive "
        "definite-assignment reference; wiring of the check in assignScratchSlotsToSubroutines/_compile_impl. Completeness on arbitrary graphs beyond the explored shapes is not decided."
    )
