"""C03 - compile options change cost and shape, never behaviour (structural, necessary clauses)."""
from __future__ import annotations

import ast
import itertools

from sa import q
from sa.astutil import u, walk_local
from sa.minieval import MiniEval, OpVal, Raised, Rec, Stack, StackError, Sym, Unknown, run_function
from sa.model import AnalysisError
from sa.tables import op_table
from spec import avm


class Blocks:
    """abstract block graphs for the evaluator: blocks are Syms with an `ops` attribute; successors are
    kept here; TealBlock.Iterate is answered by breadth-first search from the given block"""

    def __init__(self):
        self.succ = {}

    def block(self, name, ops, succ=()):
        b = Sym(name, attrs={"ops": list(ops), "incoming": []})
        b.methods["getOutgoing"] = lambda b=b: list(self.succ[b])
        self.succ[b] = list(succ)
        return b

    def iterate(self, start):
        seen, order, queue = [start], [], [start]
        while queue:
            w = queue.pop(0)
            order.append(w)
            for n in self.succ[w]:
                if not any(n is x for x in seen):
                    seen.append(n)
                    queue.append(n)
        return order


TEALOP = Rec("name", "TealOp")


def mkop(OpS, name, *slots, expr=None):
    s = Sym(f"{name} {' '.join(map(str, slots))}".strip(), attrs={"op": OpS.attrs[name], "$type": TEALOP, "args": list(slots), "expr": expr})
    s.methods["getSlots"] = lambda: [x for x in slots if isinstance(x, Sym) and x.name.startswith("slot")]
    # TealOp equality is structural: same op, same arguments (slots by identity)
    s.methods["__eq__"] = lambda other: isinstance(other, Sym) and other.attrs.get("$type") is TEALOP and other.attrs.get("op") is s.attrs["op"] and len(other.attrs.get("args", ())) == len(slots) and all(a is b or (not isinstance(a, Sym) and a == b) for a, b in zip(other.attrs["args"], slots))
    s.methods["getOp"] = lambda: OpS.attrs[name]
    s.methods["getSubroutines"] = lambda: []
    return s


def op_sym(model):
    tab = op_table(model)
    return Sym("Op", attrs={mem: Sym(f"Op.{mem}", attrs={"min_version": row["v"], "name": mem}) for mem, row in tab.items()})


def slot(name, reserved=False, sid=None):
    return Sym(f"slot:{name}", attrs={"isReservedSlot": reserved, "id": sid if sid is not None else 1000 + sum((i + 1) * ord(ch) for i, ch in enumerate(name)) % 1000})


def make_oracle(OpS, B, extra=None):
    def oracle(e, me):
        t = u(e)
        if t == "Op":
            return OpS
        if t == "TealOp":
            return TEALOP
        if isinstance(e, ast.Call) and u(e.func) in ("TealBlock.Iterate", "cls.Iterate"):
            return B.iterate(me.ev(e.args[0]))
        if extra is not None:
            return extra(e, me)
        raise Unknown()

    return oracle


def r03_1_skip_set(ctx):
    ctx.rule("R03.1", "the optimiser's skip set is exactly {reserved slots, dynamically indexed slots (operand of an `int` op), slots shared by several routines}; it is recomputed from this compilation's graphs before any routine is optimised; a store whose slot is in it is never cancelled")
    cus = ctx.model.find_func("collect_unoptimized_slots", "pyteal.compiler.scratchslots")
    css = ctx.model.find_func("collectScratchSlots", "pyteal.compiler.scratchslots")
    ctx.analysed(cus.fq, css.fq)
    OpS = op_sym(ctx.model)
    B = Blocks()
    r, d, g, l1, l2, l3 = slot("reserved", True, 7), slot("dynamic"), slot("global"), slot("local-main"), slot("local-sub"), slot("local-sub2")
    sub, sub2 = Sym("sub"), Sym("sub2")
    m2 = B.block("main2", [mkop(OpS, "load", g), mkop(OpS, "int", d)])
    m1 = B.block("main1", [mkop(OpS, "store", r), mkop(OpS, "store", l1), mkop(OpS, "load", l1), mkop(OpS, "store", d)], [m2])
    s1 = B.block("sub1", [mkop(OpS, "store", g), mkop(OpS, "store", l2), mkop(OpS, "load", l2)])
    t1 = B.block("subsub1", [mkop(OpS, "store", l3), mkop(OpS, "load", l3)])
    prog = {None: m1, sub: s1, sub2: t1}
    resolver = lambda nm: css.node if nm == "collectScratchSlots" else None
    val, _me = run_function(css.node, {"subroutineBlocks": prog}, make_oracle(OpS, B), css.fq)
    q.need(isinstance(val, tuple) and len(val) == 2, f"{css.fq}: does not return (global, local)")
    gl, loc = set(val[0]), {k: set(v) for k, v in val[1].items()}
    ctx.check(gl == {g}, "R03.1", "collectScratchSlots:global", f"global slots (referenced by more than one routine) computed as {gl}, expected {{global}}", css.where, fact={"global": sorted(map(repr, gl))})
    ctx.check(loc == {None: {r, d, l1}, sub: {l2}, sub2: {l3}}, "R03.1", "collectScratchSlots:local", f"local slots per routine computed as {loc}", css.where, fact={"local": {repr(k): sorted(map(repr, v)) for k, v in loc.items()}})
    val, _me = run_function(cus.node, {"subroutineBlocks": prog}, make_oracle(OpS, B), cus.fq, resolver=resolver)
    got = set(val) if isinstance(val, (set, list)) else None
    ctx.check(got == {r, d, g}, "R03.1", "collect_unoptimized_slots", f"skip set computed as {got} for a program with one reserved, one dynamically indexed, one shared and three routine-local slots; expected exactly the first three", cus.where, fact={"skip": sorted(map(repr, got or []))})
    # wiring in _compile_impl
    f = ctx.model.find_func("Compilation._compile_impl", "pyteal.compiler.compiler")
    ctx.analysed(f.fq)
    assigns = [n for n in walk_local(f.node) if isinstance(n, ast.Assign) and u(n.targets[0]).endswith("._skip_slots")]
    applies = q.calls_named(f.node, "apply_global_optimizations", into_nested=False)
    a = q.one(assigns, f"{f.fq}: assignment of _skip_slots")
    ap = q.one(applies, f"{f.fq}: apply_global_optimizations call")
    opts = q.name_assigned_from(f.node, q.is_call_to("CompileOptions"), "the CompileOptions object in _compile_impl")
    cs = q.one(q.calls_named(f.node, "compileSubroutine", into_nested=False), f"{f.fq}: compileSubroutine call")
    starts = u(cs.args[3]) if len(cs.args) > 3 else "subroutine_start_blocks"
    ga = q.nguards(a)
    gp = q.nguards(ap)
    opt_guard = [g_ for g_ in gp if "optimize_scratch_slots" in g_[0]]
    ctx.check(isinstance(a.value, ast.Call) and q.last_name(a.value) == "collect_unoptimized_slots" and u(a.value.args[0]) == starts and ga == gp and bool(opt_guard) and q.dominates(a, ap), "R03.1", "_compile_impl:skip-set-fresh", f"the skip set must be recomputed from this compilation's routine graphs, unconditionally inside the optimisation branch and before the optimiser runs (assignment guards {ga}, optimiser guards {gp})", f"{f.module.rel}:{a.lineno}", fact={"guards": ga})
    loop = [x for x in q.ancestors(ap) if isinstance(x, ast.For)]
    ctx.check(bool(loop) and u(loop[0].iter) == f"{starts}.values()" and u(ap.args[0]) == u(loop[0].target), "R03.1", "_compile_impl:every-routine", "the optimiser must be applied to every routine's start block", f"{f.module.rel}:{ap.lineno}", fact={})
    ctx.check(len(ap.args) >= 3 and u(ap.args[1]) == f"{opts}.optimize" and u(ap.args[2]) == "self.version", "R03.1", "_compile_impl:optimizer-args", "apply_global_optimizations(start, options.optimize, self.version)", f"{f.module.rel}:{ap.lineno}", fact={"args": [u(x) for x in ap.args]})
    ctx.require_min("R03.1", 6)


def r03_1b_slot_classes(ctx):
    ctx.rule("R03.1b", "slot classification is by the number of routines that reference the slot: for 2..4 routines whose graphs (straight-line, branching, looping) hold one slot for every non-empty subset of the routines, collectScratchSlots returns as global exactly the slots of subsets with more than one routine, and as local to r exactly the slots referenced by r alone")
    css = ctx.model.find_func("collectScratchSlots", "pyteal.compiler.scratchslots")
    ctx.analysed(css.fq)
    OpS = op_sym(ctx.model)
    for k in (2, 3, 4):
        routines = [None] + [Sym(f"sub{i}") for i in range(1, k)]
        subsets = [c for r in range(1, k + 1) for c in itertools.combinations(range(k), r)]
        for shape in ("line", "branch", "loop"):
            B = Blocks()
            slots = {c: slot("in-" + "".join(map(str, c))) for c in subsets}
            prog = {}
            for i, r in enumerate(routines):
                mine = [slots[c] for c in subsets if i in c]
                ops = [mkop(OpS, "store" if j % 2 == 0 else "load", sl) for j, sl in enumerate(mine)]
                half = len(ops) // 2
                if shape == "line":
                    start = B.block(f"r{i}", ops)
                elif shape == "branch":
                    join = B.block(f"r{i}j", ops[half:])
                    t, f_ = B.block(f"r{i}t", ops[:half], [join]), B.block(f"r{i}f", [], [join])
                    start = B.block(f"r{i}", [mkop(OpS, "int", 1)], [t, f_])
                else:
                    head = B.block(f"r{i}h", [mkop(OpS, "int", 1)])
                    body = B.block(f"r{i}b", ops[half:], [head])
                    exit_ = B.block(f"r{i}x", ops[:half])
                    B.succ[head] = [body, exit_]
                    start = B.block(f"r{i}", [], [head])
                prog[r] = start
            val, _me = run_function(css.node, {"subroutineBlocks": prog}, make_oracle(OpS, B), css.fq)
            q.need(isinstance(val, tuple) and len(val) == 2, f"{css.fq}: does not return (global, local)")
            gl, loc = set(val[0]), {r: set(v) for r, v in val[1].items()}
            want_g = {slots[c] for c in subsets if len(c) > 1}
            want_l = {r: {slots[(i,)]} for i, r in enumerate(routines)}
            bad = []
            if gl != want_g:
                bad.append(f"global: missing {sorted(x.name for x in want_g - gl)}, extra {sorted(x.name for x in gl - want_g)}")
            for r in routines:
                if loc.get(r) != want_l[r]:
                    bad.append(f"local to {r.name if r is not None else 'main'}: {sorted(x.name for x in loc.get(r, set()))}")
            ctx.check(not bad, "R03.1b", f"collectScratchSlots[{k} routines,{shape}]", "; ".join(bad[:3]), css.where, fact={"slots": len(slots), "global": len(gl)})
    ctx.require_min("R03.1b", 9)


def _run_optimizer(ctx, OpS, B, start, blocks, skip, version=10):
    ago = ctx.model.find_func("apply_global_optimizations", "pyteal.compiler.optimizer.optimizer")
    mod = ago.module
    helpers = {f.name: f.node for f in mod.all_funcs if f.cls is None and "<locals>" not in f.qualname}
    options = Sym("options", attrs={"_skip_slots": set(skip)}, methods={"optimize_scratch_slots": lambda v: True})

    def extra(e, me):
        if u(e) == "TealInternalError":
            return Rec("name", "TealInternalError")
        raise Unknown()

    run_function(ago.node, {"start": start, "options": options, "version": version}, make_oracle(OpS, B, extra), ago.fq, resolver=lambda nm: helpers.get(nm))


def _effects(ops, B_cells=("B1",)):
    """run a straight-line op list on the abstract stack machine; returns (stack, mem) or raises StackError"""
    st = Stack(list(B_cells))
    k = itertools.count()
    for o in ops:
        name = o.attrs["op"].attrs["name"]
        if name == "int":
            st.s.append(f"c{o.attrs['args'][0]}")
        elif name in ("store", "load"):
            st.apply(name, [o.attrs["args"][0]])
        elif name == "pop":
            st.apply("pop", [])
        elif name == "log":
            st.need(1, "log")
            st.mem.setdefault("$log", []).append(st.s.pop())
        else:
            raise AnalysisError(f"abstract op {name}")
    return st


def r03_3_cancellation(ctx):
    ctx.rule("R03.3", "slot cancellation preserves the stack and every other observable: over all short straight-line op sequences (push/pop/log/store/load on two local slots and one skipped slot) the optimised sequence leaves the same stack, the same log and the same skipped-slot contents as the original (bounded partial evaluation of the optimiser + abstract stack machine)")
    OpS = op_sym(ctx.model)
    a, b, k = slot("a"), slot("b"), slot("keep", True, 3)
    alphabet = [("int", 1), ("int", 2), ("pop",), ("log",), ("store", a), ("load", a), ("store", b), ("load", b), ("store", k), ("load", k)]
    maxlen = 4 if ctx.tier == "quick" else 5
    n = 0
    bad = {}
    f = ctx.model.find_func("_apply_slot_to_stack", "pyteal.compiler.optimizer.optimizer")
    ctx.analysed(f.fq, "pyteal.compiler.optimizer.optimizer._remove_extraneous_slot_access", "pyteal.compiler.optimizer.optimizer._has_load_dependencies", "pyteal.compiler.optimizer.optimizer.apply_global_optimizations")
    for L in range(2, maxlen + 1):
        for seq in itertools.product(alphabet, repeat=L):
            names = [s[0] for s in seq]
            if "store" not in names or "load" not in names:
                continue
            # the original must be well formed: no underflow, no load before store of a local slot
            B = Blocks()
            ops = [mkop(OpS, s[0], *s[1:]) for s in seq]
            try:
                before = _effects(ops)
            except StackError:
                continue
            blk = B.block("b0", ops)
            _run_optimizer(ctx, OpS, B, blk, [blk], {k})
            after_ops = blk.attrs["ops"]
            n += 1
            problem = None
            try:
                after = _effects(after_ops)
                if after.s != before.s:
                    problem = f"stack {after.s} instead of {before.s}"
                elif after.mem.get("$log", []) != before.mem.get("$log", []):
                    problem = f"log {after.mem.get('$log')} instead of {before.mem.get('$log')}"
                elif after.mem.get(k) != before.mem.get(k):
                    problem = "skipped slot contents differ"
            except StackError as e:
                problem = f"stack underflow: {e}"
            text = "; ".join(o.name for o in ops)
            if problem:
                removed = [o for o in ops if not any(o is x for x in after_ops)]
                # classify: an unpaired store was deleted (a store that is not immediately followed by a deleted load of the same slot)
                # F8's shape: a slot was legitimately cancelled (an adjacent `store s; load s`, both deleted) and
                # *another*, unpaired store of the same slot was deleted with it
                def is_removed(o):
                    return any(o is x for x in removed)

                paired_slots, paired_ops = set(), []
                for i, o in enumerate(ops[:-1]):
                    nxt = ops[i + 1]
                    if is_removed(o) and is_removed(nxt) and o.attrs["op"].attrs["name"] == "store" and nxt.attrs["op"].attrs["name"] == "load" and nxt.attrs["args"] == o.attrs["args"]:
                        paired_slots.add(o.attrs["args"][0])
                        paired_ops += [o, nxt]
                rest = [o for o in removed if not any(o is x for x in paired_ops)]
                unpaired = bool(rest) and all(o.attrs["op"].attrs["name"] == "store" and o.attrs["args"][0] in paired_slots for o in rest)
                key = "optimizer:unpaired-store-deleted" if unpaired else "optimizer:cancellation-unsound"
                bad.setdefault(key, (text, "; ".join(o.name for o in after_ops), problem))
            elif len(after_ops) != len(ops) and n % 7 == 0:
                ctx.ok("R03.3", f"opt[{text}]", {"optimised": "; ".join(o.name for o in after_ops)}, f.where)
            else:
                ctx.instances["R03.3"] = ctx.instances.get("R03.3", 0) + 1
    for key, (text, after, problem) in sorted(bad.items()):
        ctx.bad("R03.3", key, f"`{text}` is rewritten to `{after}`: {problem}", f.where, {"input": text, "output": after})
    ctx.notes.append(f"R03.3: {n} well-formed sequences up to length {maxlen} evaluated")
    ctx.require_min("R03.3", 200)


def r03_2_dependency_scan(ctx):
    ctx.rule("R03.2", "a store/load pair is cancelled only if no other load of the slot exists anywhere in the routine: the scan starts at the routine's start block, visits every block, and excludes only the matched load itself")
    f = ctx.model.find_func("_has_load_dependencies", "pyteal.compiler.optimizer.optimizer")
    ctx.analysed(f.fq)
    OpS = op_sym(ctx.model)
    a, b = slot("a"), slot("b")

    def scenario(name, build, want):
        B = Blocks()
        cur, start, pos = build(B)
        val, _ = run_function(f.node, {"cur_block": cur, "start": start, "slot": a, "pos": pos}, make_oracle(OpS, B), f.fq)
        ctx.check(bool(val) == want, "R03.2", f"_has_load_dependencies[{name}]", f"returns {val} but {'another load of the slot exists' if want else 'the matched load is the only load of the slot'} ({name})", f.where, fact={"returns": bool(val)})

    def only_pair(B):
        blk = B.block("b", [mkop(OpS, "store", a), mkop(OpS, "load", a)])
        return blk, blk, 1

    def load_in_earlier_sibling(B):
        # start -> (left | right) ; the pair is in `right`, another load sits in `left` (not reachable from right)
        right = B.block("right", [mkop(OpS, "store", a), mkop(OpS, "load", a)])
        left = B.block("left", [mkop(OpS, "load", a)])
        start = B.block("start", [mkop(OpS, "store", a)], [left, right])
        return right, start, 1

    def load_in_later_block(B):
        later = B.block("later", [mkop(OpS, "load", a)])
        cur = B.block("cur", [mkop(OpS, "store", a), mkop(OpS, "load", a)], [later])
        return cur, cur, 1

    def load_same_block_elsewhere(B):
        cur = B.block("cur", [mkop(OpS, "store", a), mkop(OpS, "load", a), mkop(OpS, "load", a)])
        return cur, cur, 1

    def other_slot_only(B):
        later = B.block("later", [mkop(OpS, "load", b), mkop(OpS, "store", a)])
        cur = B.block("cur", [mkop(OpS, "store", a), mkop(OpS, "load", a)], [later])
        return cur, cur, 1

    def same_position_other_block(B):
        # a load at the same index in a different block is a dependency
        later = B.block("later", [mkop(OpS, "int", 1), mkop(OpS, "load", a)])
        cur = B.block("cur", [mkop(OpS, "store", a), mkop(OpS, "load", a)], [later])
        return cur, cur, 1

    def loop_back(B):
        cur = B.block("cur", [mkop(OpS, "store", a), mkop(OpS, "load", a)])
        head = B.block("head", [mkop(OpS, "load", a)], [cur])
        B.succ[cur] = [head]
        return cur, head, 1

    def load_same_block_before(B):
        # a load that runs before the pair in the same block (reads the previous value of the slot)
        cur = B.block("cur", [mkop(OpS, "load", a), mkop(OpS, "pop"), mkop(OpS, "store", a), mkop(OpS, "load", a)])
        return cur, cur, 3

    def pair_later_in_block(B):
        cur = B.block("cur", [mkop(OpS, "int", 1), mkop(OpS, "pop"), mkop(OpS, "store", a), mkop(OpS, "load", a)])
        return cur, cur, 3

    scenario("only the matched pair", only_pair, False)
    scenario("only the matched pair, later in its block", pair_later_in_block, False)
    scenario("earlier load in the same block", load_same_block_before, True)
    scenario("load in a sibling branch not reachable from the pair", load_in_earlier_sibling, True)
    scenario("load in a later block", load_in_later_block, True)
    scenario("second load in the same block", load_same_block_elsewhere, True)
    scenario("loads of other slots only", other_slot_only, False)
    scenario("load at the same index of another block", same_position_other_block, True)
    scenario("load at the loop head", loop_back, True)
    # the caller passes the routine start and the position of the matched load
    g = ctx.model.find_func("_apply_slot_to_stack", "pyteal.compiler.optimizer.optimizer")
    calls = q.calls_named(g.node, "_has_load_dependencies", into_nested=False)
    c = q.one(calls, f"{g.fq}: call of _has_load_dependencies")
    ctx.check([u(x) for x in c.args[:2]] == [g.params()[0], g.params()[1]], "R03.2", "_apply_slot_to_stack:scan-from-routine-start", f"the dependency scan must be given (current block, routine start); it gets {[u(x) for x in c.args]}", f"{g.module.rel}:{c.lineno}", fact={"args": [u(x) for x in c.args]})
    ago = ctx.model.find_func("apply_global_optimizations", "pyteal.compiler.optimizer.optimizer")
    c2 = q.one(q.calls_named(ago.node, "_apply_slot_to_stack", into_nested=False), f"{ago.fq}: call of _apply_slot_to_stack")
    ctx.check([u(x) for x in c2.args] == ["block", ago.params()[0], f"{ago.params()[1]}._skip_slots"], "R03.2", "apply_global_optimizations:args", f"_apply_slot_to_stack(block, start, options._skip_slots) expected, found {[u(x) for x in c2.args]}", f"{ago.module.rel}:{c2.lineno}", fact={})
    ctx.require_min("R03.2", 11)


def r03_4_defaults(ctx):
    ctx.rule("R03.4", "OptimizeOptions defaults follow docs/compiler_optimization.rst: scratch_slots None -> version >= 9; frame_pointers None -> version >= 8; explicit True below version 8 is refused; explicit values are honoured; the thresholds are not below the AVM versions of the ops they enable")
    c = ctx.model.find_class("OptimizeOptions", "pyteal.compiler.optimizer.optimizer")
    comp = ctx.model.module("pyteal.compiler.compiler")
    consts = {}
    for name in ("FRAME_POINTERS_VERSION", "DEFAULT_SCRATCH_SLOT_OPTIMIZE_VERSION", "MIN_PROGRAM_VERSION", "MAX_PROGRAM_VERSION"):
        ok, v = q.const_of(ctx.model, c.methods["__init__"], ast.parse(f"_x.{name}", mode="eval").body) if False else (name in comp.assigns, None)
        from sa.astutil import try_const

        ok, v = try_const(ctx.model, comp, comp.assigns[name]) if name in comp.assigns else (False, None)
        q.need(ok, f"pyteal.compiler.compiler.{name} is not a constant")
        consts[name] = v
    ctx.check(consts["FRAME_POINTERS_VERSION"] == 8 and consts["DEFAULT_SCRATCH_SLOT_OPTIMIZE_VERSION"] == 9, "R03.4", "thresholds", f"documented thresholds are 8 (frame pointers) and 9 (scratch-slot optimisation); found {consts}", "pyteal/compiler/compiler.py", fact=consts)
    need_v = max(avm.OPS[o]["v"] for o in ("proto", "frame_dig", "frame_bury", "dupn", "popn", "bury"))
    ctx.check(consts["FRAME_POINTERS_VERSION"] >= need_v, "R03.4", "fp-threshold-vs-avm", f"frame pointers need AVM version {need_v}", "pyteal/compiler/compiler.py", fact={"avm": need_v})
    vpv = ctx.model.find_func("verifyProgramVersion", "pyteal.errors")
    oss, ufp = c.methods["optimize_scratch_slots"], c.methods["use_frame_pointers"]
    ctx.analysed(oss.fq, ufp.fq, vpv.fq)

    def oracle(e, me):
        t = u(e)
        if t in consts:
            return consts[t]
        raise Unknown()

    for opt in (None, True, False):
        for v in range(consts["MIN_PROGRAM_VERSION"], consts["MAX_PROGRAM_VERSION"] + 1):
            selfs = Sym("self", attrs={"_scratch_slots": opt, "_frame_pointers": opt})
            val, _ = run_function(oss.node, {"self": selfs, "version": v}, oracle, oss.fq)
            want = (v >= 9) if opt is None else opt
            ctx.check(val == want, "R03.4", f"optimize_scratch_slots[{opt},v{v}]", f"returns {val}, the documented behaviour is {want}", oss.where, fact={"returns": val})
            want = (v >= 8) if opt is None else opt
            try:
                val, _ = run_function(ufp.node, {"self": selfs, "version": v}, oracle, ufp.fq, resolver=lambda nm: vpv.node if nm == "verifyProgramVersion" else None)
                outcome = val
            except Raised as r:
                outcome = "raises " + ("TealInputError" if "TealInputError" in r.exc_text else r.exc_text[:30])
            want_o = "raises TealInputError" if (opt is True and v < 8) else want
            ctx.check(outcome == want_o, "R03.4", f"use_frame_pointers[{opt},v{v}]", f"outcome {outcome}; the documented behaviour is {want_o}", ufp.where, fact={"outcome": str(outcome)})
    # CompileOptions consults the option object with its own version
    co = ctx.model.find_class("CompileOptions", "pyteal.compiler.compiler")
    init = co.methods["__init__"]
    calls = q.calls_named(init.node, "use_frame_pointers")
    ctx.check(len(calls) == 1 and u(calls[0].args[0]) == "self.version" and u(calls[0].func.value) == "self.optimize", "R03.4", "CompileOptions:use_frame_pointers", "CompileOptions.use_frame_pointers must be self.optimize.use_frame_pointers(self.version)", init.where, fact={})
    ctx.require_min("R03.4", 50)


def run(ctx):
    r03_1_skip_set(ctx)
    r03_1b_slot_classes(ctx)
    r03_2_dependency_scan(ctx)
    r03_3_cancellation(ctx)
    r03_4_defaults(ctx)
    from rules import c02 as _c02, c10 as _c10

    _c02.r02_2_convention(ctx)  # frame_pointers on/off: both conventions bind the same parameters and hand back the same value (shared with C02)
    _c02.r02_3_spill(ctx)  # routine-local scratch variables survive re-entrant calls under either convention (shared with C02)
    from rules import c01 as _c01, c04 as _c04

    _c01.r01_14_compile_subroutine(ctx)  # the convention-specific deferred code (output load / frame_bury 0) stands before every retsub (shared with C01)
    _c04.r04_4_immediates(ctx)  # version-dependent choice between immediate and stack forms (shared with C04)
    from rules import c11 as _c11

    _c11.r11_9_convention_is_asked_for(ctx)  # the convention a routine is evaluated for is the compile's own option (shared with C11)
    _c10.r10_1_assignment(ctx)  # with the slot optimiser off nothing cancels a temporary that was given a user-reserved index (shared with C10)
    _c10.r10_2_identity(ctx)  # the skip set is built from isReservedSlot: every requested id (0 included) must set it, or the optimiser deletes stores to a cell the user numbered (shared with C10)
    return (
        "Abstract evaluation of the slot optimiser's own code (skip-set construction, dependency scan, cancellation + deletion) on abstract block graphs and on all short "
        "op sequences, results compared through an abstract stack machine; defaults table of OptimizeOptions against the documentation; wiring of the optimiser in _compile_impl. "
        "Equivalence of whole programs over inputs is not decided."
    )
