"""C19 - ABI assignability implies identical encoding (finite abstract evaluation of the relation)."""
from __future__ import annotations

import ast
import itertools

from sa import q
from sa.astutil import u, walk_local
from sa.minieval import MiniEval, Raised, Rec, Sym, Unknown, run_function
from sa.model import AnalysisError
from spec import arc4


class TypeWorld:
    """symbolic TypeSpec objects for ARC-4 shapes; class membership comes from the repository's own hierarchy"""

    def __init__(self, ctx):
        self.ctx = ctx
        self.cache = {}
        self.isa_cache = {}

    def isa(self, cname):
        if cname not in self.isa_cache:
            c = self.ctx.model.find_class(cname)
            self.isa_cache[cname] = {k.name for k in self.ctx.model.mro(c)}
        return self.isa_cache[cname]

    def spec(self, s) -> Sym:
        key = repr(s)
        if key in self.cache:
            return self.cache[key]
        cname = arc4.class_of(s)
        t = Sym(arc4.sig(s) if s[0] != "ntuple" else f"{s[1]}{arc4.sig(s)}", attrs={"$isa": self.isa(cname), "shape": s})
        t.attrs["$type"] = Sym("class:" + cname, attrs={"classname": cname})
        k = s[0]
        if k in ("uint", "byte"):
            t.attrs["size"] = s[1] if k == "uint" else 8
            t.methods["bit_size"] = lambda: t.attrs["size"]
        if k in ("address", "string", "bytes_dyn", "bytes_static", "sarr", "darr"):
            t.methods["value_type_spec"] = lambda: self.spec(arc4.elem(s))
        if k in ("address", "bytes_static", "sarr", "tuple", "ntuple"):
            t.methods["length_static"] = lambda: arc4.static_len(s)
        if k in ("tuple", "ntuple"):
            t.methods["value_type_specs"] = lambda: [self.spec(m) for m in arc4.members(s)]
        t.methods["is_dynamic"] = lambda: arc4.is_dynamic(s)
        t.methods["byte_length_static"] = lambda: arc4.byte_len(s)
        self.cache[key] = t
        return t


def universe(depth: int):
    leaves = [("bool",), ("byte",), ("uint", 8), ("uint", 16), ("uint", 64), ("address",), ("string",), ("bytes_dyn",), ("bytes_static", 32), ("bytes_static", 3)]
    special = [("txn", "txn"), ("txn", "pay"), ("txn", "axfer"), ("ref", "account"), ("ref", "asset"), ("ref", "application")]
    level = list(leaves)
    allv = list(leaves)
    for _ in range(depth):
        new = []
        pick = level if len(level) <= 12 else level[:12]
        for t in pick:
            new += [("sarr", t, 3), ("sarr", t, 32), ("darr", t)]
        small = pick[:5]
        for t in small:
            new.append(("tuple", (t,)))
        for a, b in itertools.product(small[:4], repeat=2):
            new.append(("tuple", (a, b)))
        for a in small[:3]:
            new.append(("tuple", (a, ("uint", 64), a)))
        new += [("ntuple", "NT1", (("uint", 64), ("bool",))), ("ntuple", "NT2", (("uint", 64), ("bool",))), ("ntuple", "NT3", (("byte",), ("string",)))]
        new = [x for x in new if x not in allv]
        allv += new
        level = new
    return allv + special


def sound(a, b) -> bool:
    """reference: passing raw storage of type a where b is expected is safe iff the layouts coincide (and, for the kinds that
    carry no bytes, the expected kind is the same or the generic one)"""
    if a[0] == "txn" or b[0] == "txn":
        return a[0] == b[0] and (a[1] == b[1] or b[1] == "txn")
    if a[0] == "ref" or b[0] == "ref":
        return a == b
    return arc4.layout(a) == arc4.layout(b)


DOC_TABLE = [
    (("darr", ("byte",)), ("bytes_dyn",), True), (("bytes_dyn",), ("darr", ("byte",)), True),
    (("sarr", ("byte",), 5), ("bytes_static", 5), True), (("bytes_static", 5), ("sarr", ("byte",), 5), True),
    (("string",), ("bytes_dyn",), True), (("bytes_dyn",), ("string",), False),
    (("address",), ("bytes_static", 32), True), (("bytes_static", 32), ("address",), False),
    (("txn", "pay"), ("txn", "txn"), True), (("txn", "txn"), ("txn", "pay"), False),
    (("uint", 8), ("byte",), True), (("byte",), ("uint", 8), True),
    (("uint", 64), ("uint", 64), True), (("bool",), ("bool",), True), (("tuple", (("uint", 64), ("bool",))), ("ntuple", "NT1", (("uint", 64), ("bool",))), True),
    (("ntuple", "NT1", (("uint", 64), ("bool",))), ("tuple", (("uint", 64), ("bool",))), True),
    (("ntuple", "NT1", (("uint", 64), ("bool",))), ("ntuple", "NT2", (("uint", 64), ("bool",))), False),
]


def r19_1_relation(ctx):
    ctx.rule("R19.1", "type_spec_is_assignable_to is sound: over every ordered pair of a bounded universe of nested ARC-4 shapes, whenever the relation holds the two types have the same ARC-4 layout class (byte=uint8, address=byte[32], string=byte[], field names erased; transaction kinds only specific->generic; reference kinds only to themselves); the documented positive cases hold")
    f = ctx.model.find_func("type_spec_is_assignable_to", "pyteal.ast.abi.util")
    ctx.analysed(f.fq)
    W = TypeWorld(ctx)
    uni = universe(1 if ctx.tier == "quick" else 2)

    def setup(me):
        me.isinstance_hook = lambda v, c: (c.split(".")[-1] in v.attrs.get("$isa", ())) if isinstance(v, Sym) else None

    def rel(a, b):
        val, _ = run_function(f.node, {"a": W.spec(a), "b": W.spec(b)}, lambda e, me: (_ for _ in ()).throw(Unknown()), f.fq, resolver=lambda nm: f.node if nm == "type_spec_is_assignable_to" else None, setup=setup)
        return bool(val)

    unsound = []
    n = pos = 0
    for a in uni:
        for b in uni:
            n += 1
            r = rel(a, b)
            if r:
                pos += 1
                if not sound(a, b):
                    unsound.append((a, b))
    for a, b in unsound[:8]:
        ctx.bad("R19.1", f"assignable[{arc4.sig(a) if a[0] != 'ntuple' else a[1]} -> {arc4.sig(b) if b[0] != 'ntuple' else b[1]}]", f"a value of type {arc4.sig(a)} is accepted where {arc4.sig(b)} is expected, but their ARC-4 layouts differ ({arc4.layout(a)} vs {arc4.layout(b)}): the raw bytes would be reinterpreted", f.where)
    ctx.instances["R19.1"] = ctx.instances.get("R19.1", 0) + n
    ctx.notes.append(f"R19.1: {len(uni)} shapes, {n} ordered pairs, {pos} assignable, {len(unsound)} unsound")
    ctx.ok("R19.1", "universe", {"shapes": len(uni), "pairs": n, "assignable": pos}, f.where)
    # the relation on containers is the relation on their elements, in the same direction
    leaves = [("byte",), ("uint", 8), ("uint", 16), ("address",), ("bytes_static", 32), ("sarr", ("byte",), 32), ("string",), ("bytes_dyn",), ("darr", ("byte",)), ("bool",)]
    for a in leaves:
        for b in leaves:
            base = rel(a, b)
            for wrap, label in ((lambda x: ("darr", x), "T[]"), (lambda x: ("sarr", x, 3), "T[3]"), (lambda x: ("tuple", (x,)), "(T)"), (lambda x: ("tuple", (("uint", 64), x)), "(uint64,T)")):
                got = rel(wrap(a), wrap(b))
                n += 1
                if got != base:
                    ctx.bad("R19.1", f"congruence[{arc4.sig(wrap(a))} -> {arc4.sig(wrap(b))}]", f"{arc4.sig(a)} -> {arc4.sig(b)} is {'assignable' if base else 'not assignable'} but {arc4.sig(wrap(a))} -> {arc4.sig(wrap(b))} is {'assignable' if got else 'not assignable'}: a container must be assignable exactly when its elements are, in the same direction", f.where)
    ctx.instances["R19.1"] = ctx.instances.get("R19.1", 0) + 400
    for a, b, want in DOC_TABLE:
        got = rel(a, b)
        ctx.check(got == want, "R19.1", f"documented[{a[1] if a[0] == 'ntuple' else arc4.sig(a)} -> {b[1] if b[0] == 'ntuple' else arc4.sig(b)}]", f"documented as {'assignable' if want else 'not assignable'}, the relation says {got}", f.where, fact={"value": got})
    ctx.require_min("R19.1", 1000)


def r19_2_callers(ctx):
    ctx.rule("R19.2", "storage is handed over only after the relation was checked: subroutine invocation and inner method calls test type_spec_is_assignable_to(argument type, expected type) - in that direction - and raise before building the call")
    inv = ctx.model.find_func("SubroutineDefinition.invoke", "pyteal.ast.subroutine")
    ctx.analysed(inv.fq)
    calls = q.calls_named(inv.node, "type_spec_is_assignable_to", into_nested=False)
    c = q.one(calls, "invoke: assignability check")
    ok = [q.rtext(inv.node, a) for a in c.args] == ["arg.type_spec()", "self.expected_arg_types[i]"] or (len(c.args) == 2 and q.rtext(inv.node, c.args[0]).endswith(".type_spec()") and "expected_arg_types" in q.rtext(inv.node, c.args[1]))
    raises = [r for r in q.raises_of(inv.node) if (q.rtext(inv.node, c), False) in q.rguards(inv.node, r)]
    ret = q.returns_of(inv.node)
    ctx.check(ok and len(raises) == 1 and all(raises[0].lineno < r.lineno for r in ret), "R19.2", "invoke:check-direction-and-order", f"invoke must refuse unless type_spec_is_assignable_to(arg.type_spec(), arg_type); found call {u(c)}", inv.where, fact={"call": u(c)})
    loop = [a for a in q.ancestors(c) if isinstance(a, ast.For)]
    ctx.check(bool(loop) and u(loop[0].iter) == "enumerate(args)", "R19.2", "invoke:every-argument", "every argument must be checked", inv.where, fact={})
    # whether the test is reached may depend only on this call's arguments and the declared parameter types - not on what
    # earlier calls did (a memo of "already checked" kinds would admit a differently shaped value of the same Python class)
    allowed_self = {"expected_arg_types", "argument_count", "arguments", "abi_args", "by_ref_args"}
    foreign = []
    for gtext, _pol in q.rguards(inv.node, c):
        try:
            gexpr = ast.parse(gtext, mode="eval").body
        except SyntaxError:
            continue
        for n in ast.walk(gexpr):
            if isinstance(n, ast.Attribute) and isinstance(n.value, ast.Name) and n.value.id in ("self", "cls") and n.attr not in allowed_self:
                foreign.append(f"{u(n)} in `{gtext}`")
            if isinstance(n, ast.Name) and n.id not in ("self", "cls") and n.id in ctx.model.module("pyteal.ast.subroutine").assigns:
                foreign.append(f"module state {n.id} in `{gtext}`")
    ctx.check(not foreign, "R19.2", "invoke:check-not-memoised", f"reaching the assignability test depends on state outside this call: {foreign[:2]}", inv.where, fact={"guards": [g for g, _ in q.rguards(inv.node, c)]})
    mc = ctx.model.find_func("InnerTxnBuilder.MethodCall", "pyteal.ast.itxn")
    ctx.analysed(mc.fq)
    calls = q.calls_named(mc.node, "type_spec_is_assignable_to", into_nested=False)
    ctx.check(len(calls) >= 2 and all(q.rtext(mc.node, x.args[0]) in ("args[idx].type_spec()", "abi.type_spec_from_algosdk(args[idx][TxnField.type_enum].name)") and u(x.args[1]) == "method_arg_ts" for x in calls), "R19.2", "MethodCall:check-direction", f"every ABI / transaction argument path of MethodCall must test type_spec_is_assignable_to(<argument's type>, <expected type>); found {[u(x) for x in calls]}", mc.where, fact={"calls": [u(x) for x in calls]})
    for x in calls:
        rs = [r for r in q.raises_of(mc.node) if (q.rtext(mc.node, x), False) in q.rguards(mc.node, r)]
        ctx.check(len(rs) == 1 and q.raise_type(rs[0]) in ("TealTypeError", "TealInputError"), "R19.2", f"MethodCall:refuses[{u(x.args[0])}]", "a failed assignability test must raise a PyTeal error", f"{mc.module.rel}:{x.lineno}", fact={})
        # the test itself must be reached for every argument of its kind: apart from the kind dispatch (isinstance / membership in the
        # transaction / reference spec lists) and earlier refusals, no further condition may stand in front of it
        st = q.enclosing_stmt(x) if hasattr(q, "enclosing_stmt") else None
        from sa.astutil import enclosing_stmt

        st = enclosing_stmt(x)
        own_test = st.test if isinstance(st, ast.If) else None
        # the relation must be the whole condition of the refusing `if` (not and-ed / or-ed with something that can skip it)
        whole = own_test is not None and u(own_test) == f"not {u(x)}"
        ctx.check(whole, "R19.2", f"MethodCall:unconditional[{u(x.args[0])}]", f"the refusal must depend on the relation alone; the condition is `{u(own_test) if own_test is not None else None}`", f"{mc.module.rel}:{x.lineno}", fact={})
        branch = [g for g in q.rguards(mc.node, x, ("branch",)) if not (g[0].startswith("isinstance(args[idx], ") or g[0].startswith("method_arg_ts in abi."))]
        ctx.check(not branch, "R19.2", f"MethodCall:no-bypass[{u(x.args[0])}]", f"the assignability test is only reached under {branch}", f"{mc.module.rel}:{x.lineno}", fact={"guards": q.nguards(x, ('branch',))})
    ctx.require_min("R19.2", 5)


def r19_3_set(ctx):
    from rules.abicommon import AbiWorld

    ctx.rule("R19.3", "assignment between ABI values: whenever x.set(y) accepts an ABI value y of another type (the storage is copied as is), the two types have the same ARC-4 layout - over all ordered pairs of a universe of scalar, byte-string, array and tuple types, with the repository's own value classes interpreted")
    shapes = [("bool",), ("byte",), ("uint", 8), ("uint", 16), ("uint", 32), ("uint", 64), ("address",), ("string",), ("bytes_dyn",), ("bytes_static", 32), ("bytes_static", 3), ("darr", ("bool",)), ("darr", ("uint", 8)), ("darr", ("byte",)), ("darr", ("uint", 16)), ("sarr", ("uint", 8), 32), ("sarr", ("byte",), 3), ("sarr", ("bool",), 8), ("sarr", ("bool",), 3),
              ("tuple", (("uint", 64), ("bool",))), ("tuple", (("uint", 64),)), ("tuple", (("byte",),)), ("sarr", ("uint", 64), 2), ("sarr", ("uint", 64), 3), ("sarr", ("uint", 16), 2), ("darr", ("string",)), ("darr", ("darr", ("byte",)))]
    W = AbiWorld(ctx)
    W.real_bases = {"BaseType"}
    n = acc = 0
    unsound = []
    for T in shapes:
        for V in shapes:
            try:
                t = W.spec(T).methods["new_instance"]()
                v = W.spec(V).methods["new_instance"]()
            except Raised as r:
                raise AnalysisError(f"R19.3: cannot build values of {arc4.sig(T)} / {arc4.sig(V)}: {r.exc_text[:60]}")
            n += 1
            try:
                t.methods["set"](v)
            except Raised:
                continue
            acc += 1
            if T[0] == "tuple":
                # Tuple.set takes the member values: one value for a one-member tuple sets that member
                ok = len(T[1]) == 1 and sound(V, T[1][0])
            else:
                ok = sound(V, T)
            if not ok:
                unsound.append((V, T))
    # sequences of element values: every element is checked, also a later one of an already seen Python class
    elem_cases = [
        (("sarr", ("uint", 8), 4), [("sarr", ("uint", 8), 8), ("sarr", ("uint", 16), 4), ("sarr", ("byte",), 4), ("darr", ("uint", 8))]),
        (("tuple", (("uint", 64), ("bool",))), [("tuple", (("uint", 8), ("uint", 8))), ("tuple", (("uint", 64), ("uint", 64))), ("tuple", (("uint", 64),))]),
        (("uint", 16), [("uint", 8), ("uint", 64), ("bool",)]),
        (("darr", ("uint", 8)), [("darr", ("uint", 16)), ("darr", ("bool",)), ("string",)]),
        (("string",), [("darr", ("bool",)), ("bytes_dyn",), ("darr", ("uint", 16))]),
    ]
    for E_, others in elem_cases:
        for container in (("sarr", E_, 2), ("darr", E_), ("sarr", E_, 3)):
            n_el = container[2] if container[0] == "sarr" else 2
            for V in others:
                for pos in range(n_el):
                    kinds = [E_] * n_el
                    kinds[pos] = V
                    try:
                        t = W.spec(container).methods["new_instance"]()
                        vals = [W.spec(k).methods["new_instance"]() for k in kinds]
                    except Raised as r:
                        raise AnalysisError(f"R19.3: cannot build values for {arc4.sig(container)}: {r.exc_text[:60]}")
                    n += 1
                    try:
                        t.methods["set"](vals)
                    except Raised:
                        continue
                    acc += 1
                    if not sound(V, E_):
                        unsound.append((("seq", tuple(kinds)), container))
    c = ctx.model.find_class("BaseType", "pyteal.ast.abi.type")
    for V, T in [x for x in unsound if x[0][0] == "seq"][:4]:
        ctx.bad("R19.3", f"set[{arc4.sig(T)} <- [{', '.join(arc4.sig(k) for k in V[1])}]]", f"{arc4.sig(T)}.set([{', '.join(arc4.sig(k) for k in V[1])}]) is accepted although an element is not of the element type {arc4.sig(arc4.elem(T))}: the array body gets the wrong length or the wrong bytes", ctx.model.find_class("Array", "pyteal.ast.abi.array_base").where)
    unsound = [x for x in unsound if x[0][0] != "seq"] + [x for x in unsound if x[0][0] == "seq"][:0]
    for V, T in unsound[:8]:
        ctx.bad("R19.3", f"set[{arc4.sig(T)} <- {arc4.sig(V)}]", f"{arc4.sig(T)}.set(<{arc4.sig(V)}>) is accepted but the ARC-4 layouts differ ({arc4.layout(V)} vs {arc4.layout(T)}): the copied bytes are not an encoding of {arc4.sig(T)}", ctx.model.find_class(arc4.class_of(T).replace("TypeSpec", "")).where if ctx.model.try_class(arc4.class_of(T).replace("TypeSpec", "")) else c.where)
    ctx.instances["R19.3"] = ctx.instances.get("R19.3", 0) + n
    ctx.ok("R19.3", "universe", {"shapes": len(shapes), "pairs": n, "accepted": acc, "unsound": len(unsound)}, c.where)
    q.need(acc >= len(shapes) - 2, f"R19.3: only {acc} assignments accepted - same-type assignment no longer works in the abstract world")
    ctx.require_min("R19.3", 500)


def r19_5_signature_types(ctx):
    from rules.abicommon import AbiWorld

    ctx.rule("R19.5", "types named in a method signature: type_spec_from_algosdk maps every ARC-4 type (all uint widths 8..512, byte, bool, string, address, arrays, tuples, reference and transaction names) to the PyTeal type spec with the same signature string and static length, or refuses it - a wider or narrower integer is never substituted")
    f = ctx.model.find_func("type_spec_from_algosdk", "pyteal.ast.abi.util")
    ctx.analysed(f.fq)
    W = AbiWorld(ctx)

    def sdk(kind, **attrs):
        return Sym(f"sdk:{kind}", attrs={"$isa": {"ABIType", kind}, **attrs})

    def uint(n):
        return sdk("UintType", bit_size=n)

    refs = {"account", "asset", "application"}
    txns = set(arc4.TXN_KINDS)
    abi_mod = Sym("algosdk.abi", methods={"is_abi_reference_type": lambda t: t in refs, "is_abi_transaction_type": lambda t: t in txns})
    algosdk = Sym("algosdk", attrs={"abi": abi_mod})

    def extra(e, me):
        t = u(e)
        if t == "algosdk":
            return algosdk
        if t == "ReferenceTypeSpecs":
            return [W.spec(("ref", k)) for k in arc4.REF_KINDS]
        if t == "TransactionTypeSpecs":
            return [W.spec(("txn", k)) for k in arc4.TXN_KINDS]
        raise Unknown()

    resolver = lambda nm: f.node if nm == "type_spec_from_algosdk" else W.resolver(nm)
    cases = []
    for n in list(range(8, 72, 8)) + [128, 256, 512]:
        cases.append((f"uint{n}", uint(n), f"uint{n}", n // 8))
    cases += [("byte", sdk("ByteType"), "byte", 1), ("bool", sdk("BoolType"), "bool", 1), ("string", sdk("StringType"), "string", None), ("address", sdk("AddressType"), "address", 32), ("ufixed64x2", sdk("UfixedType", bit_size=64, precision=2), None, None)]
    for n in (8, 24, 32, 40, 64):
        cases.append((f"uint{n}[]", sdk("ArrayDynamicType", child_type=uint(n)), f"uint{n}[]", None))
        cases.append((f"uint{n}[3]", sdk("ArrayStaticType", child_type=uint(n), static_length=3), f"uint{n}[3]", 3 * n // 8))
        cases.append((f"(uint{n},bool)", sdk("TupleType", child_types=[uint(n), sdk("BoolType")]), f"(uint{n},bool)", n // 8 + 1))
    # tuples of every small arity keep their arity: a one-member tuple is not its member (its dynamic member sits behind a 2-byte head)
    cases.append(("()", sdk("TupleType", child_types=[]), "()", 0))
    cases.append(("(string)", sdk("TupleType", child_types=[sdk("StringType")]), "(string)", None))
    cases.append(("(uint64)", sdk("TupleType", child_types=[uint(64)]), "(uint64)", 8))
    cases.append(("((bool))", sdk("TupleType", child_types=[sdk("TupleType", child_types=[sdk("BoolType")])]), "((bool))", 1))
    cases.append(("(uint8,string,bool)", sdk("TupleType", child_types=[uint(8), sdk("StringType"), sdk("BoolType")]), "(uint8,string,bool)", None))
    cases.append(("(string)[]", sdk("ArrayDynamicType", child_type=sdk("TupleType", child_types=[sdk("StringType")])), "(string)[]", None))
    for name in sorted(refs | txns | {"bogus"}):
        cases.append((name, name, name if name != "bogus" else None, None))
    supported = {8, 16, 32, 64}
    import re as _re

    for label, inp, want_sig, want_len in cases:
        widths = [int(x) for x in _re.findall(r"uint(\d+)", label)]
        must_refuse = want_sig is None or any(w not in supported for w in widths)
        try:
            from sa.minieval import run_function as _rf

            val, _ = _rf(f.node, {"t": inp}, W.oracle(extra), f.fq, permissive=True, resolver=resolver, setup=W.setup)
            got_sig = val.methods["__str__"]() if isinstance(val, Sym) and "__str__" in val.methods else repr(val)
            try:
                got_len = val.methods["byte_length_static"]() if want_len is not None else None
            except Raised:
                got_len = "raises"
            if must_refuse:
                ok, why = False, f"is accepted as {got_sig}; PyTeal has no type with this layout, so it must be refused"
            else:
                ok = got_sig == want_sig and got_len == want_len
                why = f"becomes {got_sig} ({got_len} byte(s)); the signature says {want_sig} ({want_len} byte(s))"
        except Raised as r:
            ok = must_refuse and any(k in r.exc_text for k in ("TealInputError", "TealTypeError"))
            why = f"is refused with {r.exc_text[:50]}" + ("" if must_refuse else "; PyTeal supports this type")
        ctx.check(ok, "R19.5", f"type_spec_from_algosdk[{label}]", f"`{label}` {why}", f.where, fact={"refused": must_refuse})
    ctx.require_min("R19.5", 35)


def r19_7_returned_value_receiver(ctx):
    from rules.abicommon import AbiWorld
    from rules.c07 import _output

    ctx.rule("R19.7", "the value an ABI subroutine returns is only ever stored into a receiver of exactly the returned type: ReturnedValue.store_into refuses every receiver whose type spec differs from the produced one - element type, length and arity of containers included - and accepts the equal one")
    c = ctx.model.find_class("ReturnedValue", "pyteal.ast.abi.type")
    f = c.methods["store_into"]
    ctx.analysed(f.fq)
    W = AbiWorld(ctx)
    kinds = [("uint", 64), ("uint", 8), ("bool",), ("string",), ("sarr", ("uint", 64), 2), ("sarr", ("uint", 8), 3), ("sarr", ("uint", 64), 3), ("sarr", ("bool",), 2), ("darr", ("uint", 64)), ("darr", ("uint", 8)),
             ("tuple", (("uint", 64), ("string",))), ("tuple", (("bool",), ("bool",), ("uint", 16))), ("tuple", (("uint", 64),))]

    def extra(e, me):
        raise Unknown()

    for produced in kinds:
        for recv in kinds:
            psp = W.spec(produced)
            sub = Sym("subroutine", methods={"get_declaration_by_option": lambda *a, **k: None})
            selfs = Sym("self:ReturnedValue", attrs={"type_spec": psp, "computation": Sym("call", attrs={"subroutine": sub, "$isa": {"Expr", "SubroutineCall"}})}, methods={"produced_type_spec": lambda psp=psp: psp})
            out = _output(W, recv)
            out.attrs["_stored_value"] = Sym("var", methods={"store": lambda v: Rec("call", Rec("name", "STORE"), [v], {})})
            try:
                W.run(f.node, {"self": selfs, "output": out}, extra, f.fq)
                outcome = "accepted"
            except Raised:
                outcome = "refused"
            want = "accepted" if produced == recv else "refused"
            ctx.check(outcome == want, "R19.7", f"store_into[{arc4.sig(produced)} into {arc4.sig(recv)}]", f"a returned {arc4.sig(produced)} stored into a {arc4.sig(recv)} receiver is {outcome}; the two layouts {'are the same' if produced == recv else 'differ, and nothing converts'}", f.where, fact={"outcome": outcome})
    ctx.require_min("R19.7", 150)


def r19_4_spec_equality(ctx):
    from rules.abicommon import AbiWorld
    from sa.minieval import run_function as _rf

    ctx.rule("R19.4", "type spec equality (which the relation, Array.set, String.set and the tuple/array element setters fall back on) is identity of shape: over all ordered pairs of a universe of the repository's own type spec objects - including NamedTuple classes produced by one factory (same module and qualified name, different fields) - a == a holds, a == b implies equal ARC-4 layout, and two NamedTuple specs are equal only for the same class; and the real relation is sound on that universe")
    W = AbiWorld(ctx)
    uni = [("bool",), ("byte",), ("uint", 8), ("uint", 16), ("uint", 64), ("address",), ("string",), ("bytes_dyn",), ("bytes_static", 32), ("bytes_static", 3),
           ("sarr", ("uint", 8), 3), ("sarr", ("uint", 8), 32), ("sarr", ("byte",), 3), ("darr", ("uint", 8)), ("darr", ("byte",)), ("darr", ("bool",)), ("darr", ("uint", 64)),
           ("tuple", (("uint", 8), ("uint", 8))), ("tuple", (("uint", 64), ("uint", 64))), ("tuple", (("uint", 64),)), ("tuple", ()),
           ("ntuple", "Pair1", (("uint", 8), ("uint", 8))), ("ntuple", "Pair2", (("uint", 64), ("uint", 64))), ("ntuple", "Pair3", (("uint", 8), ("uint", 8))), ("ntuple", "Other", (("uint", 8), ("uint", 8))),
           ("sarr", ("ntuple", "Pair1", (("uint", 8), ("uint", 8))), 2), ("sarr", ("ntuple", "Pair2", (("uint", 64), ("uint", 64))), 2),
           ("txn", "pay"), ("txn", "txn"), ("ref", "account"), ("ref", "asset")]
    f = ctx.model.find_func("type_spec_is_assignable_to", "pyteal.ast.abi.util")
    ctx.analysed(f.fq, "pyteal.ast.abi.tuple.NamedTupleTypeSpec.__eq__", "pyteal.ast.abi.tuple.TupleTypeSpec.__eq__", "pyteal.ast.abi.array_static.StaticArrayTypeSpec.__eq__")
    specs = [W.spec(s) for s in uni]
    wrong_eq, unsound, n = [], [], 0
    for i, a in enumerate(uni):
        for j, b in enumerate(uni):
            n += 1
            try:
                eq = bool(specs[i].methods["__eq__"](specs[j])) if "__eq__" in specs[i].methods else (specs[i] is specs[j])
            except Raised as r:
                wrong_eq.append((a, b, f"raises {r.exc_text[:40]}"))
                continue
            both_named = a[0] == "ntuple" and b[0] == "ntuple"
            if a == b and not eq:
                wrong_eq.append((a, b, "is False although it is the same type"))
            elif eq and (not sound(a, b) or (both_named and a != b)):
                wrong_eq.append((a, b, "is True although " + ("they are different NamedTuple classes" if both_named and sound(a, b) else f"the layouts differ ({arc4.layout(a)} vs {arc4.layout(b)})")))
            try:
                rel, _ = _rf(f.node, {"a": specs[i], "b": specs[j]}, W.oracle(), f.fq, permissive=True, resolver=lambda nm: f.node if nm == "type_spec_is_assignable_to" else W.resolver(nm), setup=W.setup)
            except Raised:
                rel = False
            if rel and not sound(a, b):
                unsound.append((a, b))
    name = lambda s: (s[1] + arc4.sig(s)) if s[0] == "ntuple" else arc4.sig(s)
    for a, b, what in wrong_eq[:6]:
        ctx.bad("R19.4", f"eq[{name(a)} == {name(b)}]", f"{name(a)} == {name(b)} {what}", ctx.model.find_class(arc4.class_of(a)).where)
    for a, b in unsound[:6]:
        ctx.bad("R19.4", f"assignable[{name(a)} -> {name(b)}]", f"a value of type {name(a)} is accepted where {name(b)} is expected, but the layouts differ ({arc4.layout(a)} vs {arc4.layout(b)})", f.where)
    ctx.instances["R19.4"] = ctx.instances.get("R19.4", 0) + n
    ctx.ok("R19.4", "universe", {"specs": len(uni), "pairs": n, "eq_mismatches": len(wrong_eq), "unsound": len(unsound)}, f.where)
    ctx.require_min("R19.4", 900)


def run(ctx):
    r19_1_relation(ctx)
    r19_2_callers(ctx)
    r19_3_set(ctx)
    r19_5_signature_types(ctx)
    r19_7_returned_value_receiver(ctx)
    r19_4_spec_equality(ctx)
    from rules import c07 as _c07

    _c07.r19_6_index_tuple_output_type(ctx)
    return (
        "Finite abstract evaluation of type_spec_is_assignable_to over every ordered pair of a bounded universe of nested ARC-4 shapes (class membership from the repository's "
        "own hierarchy) against ARC-4 layout classes; documented table; callers check the relation in the right direction before passing storage. Equality of encodings of "
        "sample values is not computed."
    )
