"""C05 - emitted code keeps stack and type discipline on every path (structural clauses)."""
from __future__ import annotations

import ast

from rules.emitcommon import get_sites, constraint_types, _type_name
from sa.astutil import u
from sa.model import AnalysisError
from sa.pe import alts, show
from spec import avm

LET = {"uint64": "u", "bytes": "b", "anytype": "a", "none": "-"}

# raw constructors that are not the documented entry point: operands are constrained by the factory
# (checked at factory level); one line of reason each
CTOR_BYPASS = {
    "App": "documented API is the classmethods App.localGet/...; each constrains its operands",
    "MultiValue": "internal building block of MaybeValue users; callers constrain the operands",
    "MaybeValue": "internal building block; callers (AppParam, AssetParam, ...) constrain the operands",
    "EcOperation": "documented API is EcAdd/...; the constructor itself loops require_type over args (accepted)",
    "TxnaExpr": "built by Txn/Gtxn array accessors which check the index type",
    "GtxnExpr": "built through Gtxn[...] which checks the transaction index",
    "GtxnaExpr": "built through Gtxn[...] which checks both indices",
    "GitxnExpr": "built through Gitxn[...]",
    "GitxnaExpr": "built through Gitxn[...]",
    "SubroutineCall": "argument typing is done against the subroutine's declared parameter types (C02)",
    "Return": "value typed against the routine's return type at compile time (types_match in __teal__)",
    "ScratchStackStore": "the raw stack-store escape hatch the property excludes",
}

# operands whose missing/weak constraint is a known, recorded defect (known_findings.json) are still reported;
# nothing is suppressed here.


def compatible(req: str, pop: str) -> bool:
    """require_type(x, req) guarantees a value acceptable where the op pops `pop`"""
    if req == "none":
        return False
    if pop == "a":
        return True
    return LET.get(req) == pop


def r05_1_operand_typing(ctx):
    ctx.rule("R05.1", "every stack operand of every emission site is constrained (require_type) to a type the op accepts")
    S = get_sites(ctx.model)
    for site in S.factory_sites + S.class_sites:
        if site.operands is None:
            continue
        if site.level == "class" and site.cls.name in CTOR_BYPASS:
            continue
        for op in site.ops:
            if op.startswith("?"):
                continue
            sig = S.sig(op)
            if sig is None or op in ("retsub", "callsub"):
                continue
            for alt in site.operands:
                eff = [o for o in alt if S.nested_type(o, site.em.res) != "none"]
                if any(o.kind == "star" for o in eff) or len(eff) != len(sig["pops"]):
                    # variadic: every element must be constrained to the single pop type
                    for o in eff:
                        if o.kind == "star":
                            req = constraint_types(site, o)
                            want = set(sig["pops"])
                            construct = f"{site.construct}:{op}:*"
                            ctx.check(bool(req) and all(any(compatible(r, w) for r in req if not r.startswith("=")) or w == "a" for w in want), "R05.1", construct, f"variadic operands {o.text} of '{S.teal_name(op)}' are not constrained to {sorted(want)} (constraints: {req})", site.where, fact={"req": req})
                    continue
                for i, (o, pop) in enumerate(zip(eff, sig["pops"])):
                    construct = f"{site.construct}:{op}:arg{i}"
                    if o.kind == "nested":
                        nt = S.nested_type(o, site.em.res)
                        if nt is None:
                            continue
                        ctx.check(compatible(nt, pop), "R05.1", construct, f"nested expression {o.text} has type {nt} where '{S.teal_name(op)}' pops {pop}", site.where, fact={"nested": nt, "pop": pop})
                        continue
                    if o.kind not in ("param",):
                        continue
                    req = constraint_types(site, o)
                    lits = [r for r in req if not r.startswith("=")]
                    dyn = [r for r in req if r.startswith("=")]
                    if not req:
                        ctx.bad("R05.1", construct, f"operand {o.text} of '{S.teal_name(op)}' (pops {pop}) is never constrained by require_type on the path from {site.construct}", site.where)
                        continue
                    if lits:
                        # the operand must satisfy every require_type on the path: one that implies the pop type suffices
                        ok = any(compatible(r, pop) for r in lits)
                        ctx.check(ok, "R05.1", construct, f"operand {o.text} is required to be {lits} but '{S.teal_name(op)}' pops {pop}", site.where, fact={"operand": o.text, "required": lits, "pop": pop})
                    else:
                        # a type computed from another operand (Eq: right.type_of()); accepted where the op takes any
                        ctx.check(pop == "a", "R05.1", construct, f"operand {o.text} constrained only dynamically ({dyn}) where '{S.teal_name(op)}' pops {pop}", site.where, fact={"dynamic": dyn})
    ctx.require_min("R05.1", 200)


def r05_2_result_typing(ctx):
    ctx.rule("R05.2", "the declared type_of() of an op expression equals what the op pushes (none if it pushes nothing); multi-push ops are only emitted by MultiValue")
    S = get_sites(ctx.model)
    for site in S.factory_sites:
        if site.em.container != "FromOp":
            continue
        path = site.em.path
        if path.type_of is None:
            continue
        tname = _type_name(path.type_of.ret_value(), S.enum, path.type_of)
        for op in site.ops:
            if op.startswith("?"):
                continue
            sig = S.sig(op)
            if sig is None or op in ("retsub", "callsub", "return_", "err"):
                continue
            construct = f"{site.construct}:{op}:result"
            pushes = sig["pushes"]
            is_multi = ctx.model.is_subclass(site.cls, "MultiValue")
            if len(pushes) >= 2 or is_multi:
                ctx.check(is_multi and tname == "none", "R05.2", construct, f"'{S.teal_name(op)}' pushes {len(pushes)} values but is emitted by {site.cls.name} (declares {tname}) instead of a MultiValue", site.where, fact={"pushes": pushes})
                if is_multi:
                    _check_multi_types(ctx, S, site, op, pushes)
                continue
            want = "none" if not pushes else {"u": "uint64", "b": "bytes", "a": None}[pushes[0]]
            if tname is None:
                # declared type computed from a field/argument: accepted only where the op pushes `any`
                ctx.check(bool(pushes) and pushes[0] == "a", "R05.2", construct, f"type_of() of {site.construct} is computed ({show(path.type_of, path.type_of.ret_value())}) but '{S.teal_name(op)}' pushes {pushes}", site.where, fact={"declared": "computed"})
                continue
            if want is None:
                ctx.check(tname != "none", "R05.2", construct, f"'{S.teal_name(op)}' pushes a value but {site.construct} declares none", site.where, fact={"declared": tname})
            else:
                ctx.check(tname == want, "R05.2", construct, f"{site.construct} declares {tname} but '{S.teal_name(op)}' pushes {want}", site.where, fact={"declared": tname, "pushes": pushes})
    ctx.require_min("R05.2", 120)


def _check_multi_types(ctx, S, site, op, pushes):
    """MultiValue(op, types, ...) / MaybeValue(op, type, ...): the declared output types equal the op's pushes"""
    attrs = site.em.path.init.attrs
    types = attrs.get("types")
    if types is None:
        return
    construct = f"{site.construct}:{op}:outputs"
    for a in alts(types):
        if isinstance(a, (ast.List, ast.Tuple)):
            names = [u(x).split(".")[-1] for x in a.elts]
            ok = len(names) == len(pushes) and all(LET.get(n) == p or p == "a" or n == "anytype" for n, p in zip(names, pushes))
            # a fixed u/b push must not be declared as the other fixed type
            ok = ok and all(not (p in "ub" and LET.get(n) in "ub" and LET.get(n) != p) for n, p in zip(names, pushes))
            ctx.check(ok, "R05.2", construct, f"output types {names} do not match what '{S.teal_name(op)}' pushes ({pushes})", site.where, fact={"types": names, "pushes": pushes})


# ------------------------------------------------------------------------------------------
def _params_in(e: ast.AST):
    return {n.id[3:].lstrip("*") for n in ast.walk(e) if isinstance(n, ast.Name) and n.id.startswith("$p_")}


# constructor parameters that are lowered without any constructor-time type constraint, accepted
# with one line of reason each
LOWERED_UNCONSTRAINED_OK = {
    ("Nonce", "child"): "wrapper: contributes exactly what the child contributes (type_of/has_return delegate)",
    ("Pragma", "child"): "wrapper: delegates everything to the child",
    ("Comment", "expr"): "wrapper Seq: the commented expression is the last element and keeps its type",
    ("SubroutineDeclaration", "body"): "body type is checked against the declared return type in __info_prepare / evaluate",
    ("SubroutineCall", "args"): "arguments are checked against the declared parameter types in __init__ (types_match / assignability loop)",
    ("MultiValue", "args"): "internal building block; callers constrain the operands (checked at factory level by R05.1)",
    ("MaybeValue", "args"): "internal building block; callers constrain the operands (checked at factory level by R05.1)",
    ("App", "args"): "documented API is the classmethods, which constrain every operand (checked at factory level by R05.1)",
    ("ScratchStackStore", "slot"): "not an expression",
    ("Proto", "mem_layout"): "layout of typed zero values built by the compiler itself",
    ("ProtoStackLayout", "arg_stack_types"): "types, not expressions",
    ("ProtoStackLayout", "local_stack_types"): "TealType values from which typed zero constants are built, not user expressions",
}


def r05_1b_lowered_params(ctx):
    ctx.rule("R05.1b", "every constructor parameter whose expression is lowered in __teal__ is type-constrained at construction (or compile) time")
    S = get_sites(ctx.model)
    n = 0
    for fq, ca in sorted(S.class_analyses.items()):
        cls = ca.cls
        lowered = {}
        for p in ca.paths:
            for ev in p.teal.events:
                if ev.short == "__teal__" and isinstance(ev.call.func, ast.Attribute):
                    for prm in _params_in(ev.call.func.value):
                        lowered.setdefault(prm, ev)
            # operands handed to FromOp are lowered by FromOp
            for ev in p.teal.events:
                if ev.short == "FromOp":
                    for a in ev.call.args[2:]:
                        for prm in _params_in(a):
                            lowered.setdefault(prm, ev)
        if not lowered:
            continue
        constrained = set()
        for p in ca.paths:
            for r in (p.init, p.teal):
                for ev in r.events:
                    if ev.short in ("require_type", "types_match", "type_spec_is_assignable_to") or ev.short == "type_of":
                        subj = ev.call.args[0] if ev.call.args else (ev.call.func.value if isinstance(ev.call.func, ast.Attribute) else None)
                        if ev.short == "type_of" and isinstance(ev.call.func, ast.Attribute):
                            subj = ev.call.func.value
                        if subj is not None:
                            constrained |= _params_in(subj)
        for prm, ev in sorted(lowered.items()):
            construct = f"class {cls.name}.{prm}"
            n += 1
            if (cls.name, prm) in LOWERED_UNCONSTRAINED_OK:
                ctx.ok("R05.1b", construct, {"justified": LOWERED_UNCONSTRAINED_OK[(cls.name, prm)]}, ev.where)
                continue
            ctx.check(prm in constrained, "R05.1b", construct, f"{cls.name}({prm}=...) lowers `{prm}` onto the stack but no require_type/type_of check on it exists in the constructor or __teal__", ev.where, fact={"param": prm})
    ctx.require_min("R05.1b", 60)



# ------------------------------------------------------------------------------------------
from sa import q  # noqa: E402
from sa.lowerworld import World, term_run, norm_term  # noqa: E402
from sa.minieval import OpVal, Raised, Rec, StackError, Sym, Unknown, run_function  # noqa: E402
import itertools  # noqa: E402


def ref_require_ok(actual: str, expected: str) -> bool:
    """reference: a value of type `actual` is acceptable where `expected` is required iff they are equal,
    or neither is none and one of them is anytype"""
    if actual == expected:
        return True
    if actual == "none" or expected == "none":
        return False
    return actual == "anytype" or expected == "anytype"


def r05_6_type_relation(ctx):
    ctx.rule("R05.6", "require_type accepts exactly the reference compatibility relation over TealType x TealType (the basis of every constructor-time type check)")
    f = ctx.model.find_func("require_type", "pyteal.types")
    ctx.analysed(f.fq)
    W = World(ctx.model)
    types = ["none", "uint64", "bytes", "anytype"]
    for a in types:
        for e in types:
            inp = Sym("input", methods={"type_of": lambda a=a: W.TT.attrs[a]})
            try:
                run_function(f.node, {"input": inp, "expected": W.TT.attrs[e]}, W.oracle(), f.fq, permissive=True)
                accepted = True
            except Raised as r:
                accepted = False
                if "TealTypeError" not in r.exc_text:
                    ctx.bad("R05.6", f"require_type[{a},{e}]", f"refuses with {r.exc_text[:40]} instead of TealTypeError", f.where)
                    continue
            ctx.check(accepted == ref_require_ok(a, e), "R05.6", f"require_type[{a},{e}]", f"require_type(<{a}>, {e}) {'accepts' if accepted else 'refuses'}; the reference relation says {'accept' if ref_require_ok(a, e) else 'refuse'}", f.where, fact={"accepted": accepted})
    ctx.require_min("R05.6", 16)


def _lower(ctx, W, cls, attrs, version=10, **kw):
    val, me, f = W.run_teal(cls, attrs, W.options(version), **kw)
    q.need(isinstance(val, tuple) and len(val) == 2 and isinstance(val[0], Sym) and isinstance(val[1], Sym), f"{f.fq}: does not return a (start, end) block pair")
    return W.chain(val[0], val[1]), f


def r05_3_literal_op_lists(ctx):
    ctx.rule("R05.3", "every hand-written op list leaves exactly what its construct declares: WideRatio n x m factors -> one uint64; Suffix -> one bytes value; DupN(rep) -> rep+1 copies; frame layout -> one typed zero per local; MultiValue stores consume every output, last output on top")
    W = World(ctx.model, real_exprs=True)
    # ---- WideRatio
    maxn = 3 if ctx.tier == "quick" else 5
    for n, m in itertools.product(range(1, maxn + 1), repeat=2):
        if n == 1 and m == 1:
            continue
        nums = [W.child(f"N{i}") for i in range(n)]
        dens = [W.child(f"D{i}") for i in range(m)]
        mf = ctx.model.find_func("multiplyFactors", "pyteal.ast.widemath")

        def extra(e, me, mf=mf):
            if isinstance(e, ast.Call) and u(e.func) == "multiplyFactors":
                a = [me.ev(x) for x in e.args]
                return me.call_def(mf.node, a, {}, {})
            raise Unknown()

        construct = f"WideRatio[{n}x{m}]"
        try:
            ops, f = _lower(ctx, W, "WideRatio", {"numeratorFactors": nums, "denominatorFactors": dens}, extra=extra)
            stack, asserted, tstack = term_run(W, ops, ["BASE"])
            ok = len(stack) == 2 and stack[0] == "BASE" and tstack[-1] == "u"
            ctx.check(ok, "R05.3", construct, f"leaves {len(stack) - 1} value(s) of type {tstack[1:]} on the stack; a WideRatio is one uint64", f.where, fact={"ops": len(ops), "result": repr(norm_term(stack[-1]))[:120] if len(stack) > 1 else None})
        except StackError as e:
            ctx.bad("R05.3", construct, f"op list underflows or is ill-typed: {e}", "pyteal/ast/widemath.py")
    # ---- Suffix (substring3 form and extract form)
    for start_kind in ("expr", "int-small", "int-large"):
        s = W.child("S", "bytes")
        if start_kind == "expr":
            i = W.child("I", "uint64")
        else:
            val = 3 if start_kind == "int-small" else 300
            i = W.child("I", "uint64", isa=("Expr", "Int"))
            i.attrs["value"] = val
        construct = f"SuffixExpr[{start_kind}]"
        try:
            ops, f = _lower(ctx, W, "SuffixExpr", {"stringArg": s, "startArg": i})
            stack, asserted, tstack = term_run(W, ops, ["BASE"])
            ok = len(stack) == 2 and tstack[-1] == "b"
            if ok:
                t = stack[-1]
                if t[0] == "substring3":
                    ok = t[1] == ("S", "I", ("len", ("S",), 0))
                    why = f"computes {t}; a suffix is substring3(S, I, len(S))"
                else:
                    ok = t[0] == "extract" and t[1] == ("S", i.attrs.get("value"), 0)
                    why = f"computes {t}; the constant form is extract <start> 0 over S"
            else:
                why = f"leaves {stack[1:]} typed {tstack[1:]}"
            ctx.check(ok, "R05.3", construct, why, f.where, fact={"term": repr(stack[-1])[:100]})
        except StackError as e:
            ctx.bad("R05.3", construct, f"op list underflows or is ill-typed: {e}", "pyteal/ast/substring.py")
    # ---- DupN and the frame layout built from it
    for rep in (0, 1, 2, 5):
        v = W.child("V", "uint64")
        ops, f = _lower(ctx, W, "DupN", {"value": v, "repetition": rep})
        stack, _a, _t = term_run(W, ops, ["BASE"])
        ctx.check(stack == ["BASE"] + ["V"] * (rep + 1), "R05.3", f"DupN[{rep}]", f"DupN(value, {rep}) leaves {len(stack) - 1} value(s); it must leave {rep + 1} copies", f.where, fact={"ops": [repr(o) for o in ops]})
    lts = ctx.model.find_class("LocalTypeSegment", "pyteal.ast.frame")
    for count in (1, 2, 4):
        v = W.child("Z", "uint64")
        dn = ctx.model.find_class("DupN", "pyteal.ast.frame")

        def extra(e, me):
            if u(e) == "DupN":
                def mk(value, repetition):
                    return Sym("dupn", methods={"__teal__": lambda options: W.run_teal("DupN", {"value": value, "repetition": repetition}, options)[0]})
                return mk
            raise Unknown()

        ops, f = _lower(ctx, W, "LocalTypeSegment", {"auto_instance": v, "count": count, "local_type": W.TT.attrs["uint64"]}, extra=extra)
        stack, _a, _t = term_run(W, ops, ["BASE"])
        ctx.check(stack == ["BASE"] + ["Z"] * count, "R05.3", f"LocalTypeSegment[{count}]", f"a segment of {count} local(s) allocates {len(stack) - 1} stack cell(s)", f.where, fact={"ops": [repr(o) for o in ops]})
    # ---- MultiValue: outputs are stored with the last output on top
    for k in (1, 2, 3):
        stored = []
        slots = []
        for j in range(k):
            sl = Sym(f"out{j}")

            def store(sl=sl):
                def teal(options, sl=sl):
                    b = W.simple_block([OpVal("store", [sl.name])])
                    return (b, b)
                return Sym("stack-store", attrs={"_sframes_container": None}, methods={"__teal__": teal})

            sl.methods["store"] = store
            slots.append(sl)
        args = [W.child("A", "uint64")]
        # a synthetic op with k pushes: use the real signatures where they exist
        opname = {1: "sha256", 2: "mulw", 3: None}[k]
        if opname is None:
            continue
        if k == 2:
            args = [W.child("A", "uint64"), W.child("B", "uint64")]
        else:
            args = [W.child("A", "bytes")]
        ops, f = _lower(ctx, W, "MultiValue", {"op": W.OpS.attrs[opname], "types": [], "immediate_args": [], "args": args, "output_slots": slots, "compile_check": lambda options: None}, self_methods={"compile_check": lambda options: None})
        stack, _a, _t = term_run(W, ops, ["BASE"])
        # interpret the stores: mem[slot] = term
        from sa.minieval import Stack

        st = Stack(["BASE"])
        teal = W.optab[opname]["teal"]
        want = {f"out{j}": (teal, tuple(a.name.split(":")[1] for a in args), j) for j in range(k)}
        got = {}
        sstack, _a2, _t2 = [], [], []
        # re-run keeping memory: term_run keeps memory in its Stack; replicate
        cells = ["BASE"]
        for o in ops:
            if o.op == "$push":
                cells.append(o.args[0])
            elif o.op == "store":
                got[o.args[0]] = cells.pop()
            else:
                sig, tname = __import__("sa.lowerworld", fromlist=["op_sig"]).op_sig(W, o.op)
                kk = len(sig["pops"])
                popped = tuple(cells[len(cells) - kk:])
                del cells[len(cells) - kk:]
                for i2 in range(len(sig["pushes"])):
                    cells.append((tname, popped, i2))
        ctx.check(cells == ["BASE"] and got == want, "R05.3", f"MultiValue[{k} outputs]", f"after the stores the stack holds {cells[1:]} and the output slots hold {got}; expected every output consumed and output j in slot j", f.where, fact={"slots": {a: repr(b) for a, b in got.items()}})
    ctx.require_min("R05.3", 12)


from sa.astutil import walk_local  # noqa: E402


def r05_7_typed_variables(ctx):
    from rules.abicommon import AbiWorld

    ctx.rule("R05.7", "both implementations of AbstractVar are typed alike: store(value) on a variable of storage type T refuses exactly the values the reference compatibility relation refuses for T, load() has type T, storage_type() is T - for ScratchVar (scratch slots) and FrameVar (frame cells, the storage of every ABI value inside a frame-pointer routine)")
    types = ["none", "uint64", "bytes", "anytype"]
    mods = ["pyteal.ast.frame", "pyteal.types", "pyteal.ast.scratchvar", "pyteal.ast.scratch", "pyteal.ast.abstractvar"]
    real = {"FrameVar", "FrameBury", "FrameDig", "ScratchVar", "ScratchSlot", "ScratchLoad", "ScratchStore"}
    real |= {"DynamicScratchVar"}
    for cname, module in (("FrameVar", "pyteal.ast.frame"), ("ScratchVar", "pyteal.ast.scratchvar"), ("DynamicScratchVar", "pyteal.ast.scratchvar")):
        c = ctx.model.find_class(cname, module)
        ctx.analysed(c.fq + ".store", c.fq + ".load")
        for vt in types[1:]:
            W = AbiWorld(ctx, modules=mods, real_classes=real)
            TT = W.me.ev(ast.parse("TealType", mode="eval").body)
            tsym = {t: TT.attrs[t] for t in types}
            try:
                if cname == "FrameVar":
                    layout = Sym("layout", methods={"__getitem__": lambda i: tsym[vt]})
                    var = W.construct("FrameVar", [Sym("proto", attrs={"mem_layout": layout}), 1], {})
                else:
                    var = W.construct(cname, [tsym[vt]], {})
            except Raised as r:
                ctx.bad("R05.7", f"{cname}[{vt}]", f"cannot be constructed: {r.exc_text[:60]}", c.where)
                continue
            st = var.methods["storage_type"]()
            ctx.check(st is tsym[vt], "R05.7", f"{cname}[{vt}].storage_type", f"storage_type() is {st!r}", c.where, fact={})
            try:
                ld = var.methods["load"]()
                lt = ld.methods["type_of"]() if isinstance(ld, Sym) and "type_of" in ld.methods else None
            except Raised as r:
                lt = f"raises {r.exc_text[:40]}"
            ctx.check(lt is tsym[vt], "R05.7", f"{cname}[{vt}].load", f"load() has type {lt!r}; the variable holds {vt}", c.where, fact={})
            for at in types:
                value = Sym(f"value:{at}", attrs={"$isa": {"Expr"}}, methods={"type_of": lambda at=at: tsym[at], "has_return": lambda: False})
                try:
                    var.methods["store"](value)
                    accepted = True
                except Raised as r:
                    accepted = False
                want = ref_require_ok(at, vt)
                ctx.check(accepted == want, "R05.7", f"{cname}[{vt}].store[{at}]", f"store(<{at}>) into a {vt} variable is {'accepted' if accepted else 'refused'}; the reference relation says {'accept' if want else 'refuse'}", c.where, fact={"accepted": accepted})
    ctx.require_min("R05.7", 36)


PARAM_FIELD_TABLES = {"asset_params_get": "ASSET_PARAMS_FIELDS", "app_params_get": "APP_PARAMS_FIELDS", "asset_holding_get": "ASSET_HOLDING_FIELDS"}
# the accessor's Python name -> the field it is documented to read (AssetParam / AppParam / AssetHolding)
ACCESSOR_FIELDS = {
    "AssetHolding.balance": "AssetBalance", "AssetHolding.frozen": "AssetFrozen",
    "AssetParam.total": "AssetTotal", "AssetParam.decimals": "AssetDecimals", "AssetParam.defaultFrozen": "AssetDefaultFrozen", "AssetParam.unitName": "AssetUnitName", "AssetParam.name": "AssetName", "AssetParam.url": "AssetURL",
    "AssetParam.metadataHash": "AssetMetadataHash", "AssetParam.manager": "AssetManager", "AssetParam.reserve": "AssetReserve", "AssetParam.freeze": "AssetFreeze", "AssetParam.clawback": "AssetClawback", "AssetParam.creator": "AssetCreator",
    "AppParam.approvalProgram": "AppApprovalProgram", "AppParam.clearStateProgram": "AppClearStateProgram", "AppParam.globalNumUint": "AppGlobalNumUint", "AppParam.globalNumByteSlice": "AppGlobalNumByteSlice", "AppParam.localNumUint": "AppLocalNumUint",
    "AppParam.localNumByteSlice": "AppLocalNumByteSlice", "AppParam.extraProgramPages": "AppExtraProgramPages", "AppParam.creator": "AppCreator", "AppParam.address": "AppAddress",
}


def r05_8_param_accessors(ctx):
    from spec import avm

    ctx.rule("R05.8", "asset / application parameter accessors: each accessor reads the field its name says, and declares for the value it leaves the type that field has in the AVM (a bytes field declared uint64 would let arithmetic be applied to bytes, and vice versa)")
    n = 0
    for c in ctx.model.iter_classes():
        if c.name not in ("AssetParam", "AppParam", "AssetHolding") or c.module.name.endswith("_test"):
            continue
        for nm, f in c.methods.items():
            calls = [x for x in ast.walk(f.node) if isinstance(x, ast.Call) and u(x.func) in ("MaybeValue", "MultiValue")]
            for call in calls:
                if len(call.args) < 2:
                    continue
                op = u(call.args[0]).replace("Op.", "")
                table = getattr(avm, PARAM_FIELD_TABLES.get(op, ""), None)
                imm = next((k.value for k in call.keywords if k.arg == "immediate_args"), None)
                if table is None or not (isinstance(imm, ast.List) and len(imm.elts) == 1 and isinstance(imm.elts[0], ast.Constant)):
                    continue
                field = imm.elts[0].value
                declared = u(call.args[1]).replace("TealType.", "")
                construct = f"{c.name}.{nm}"
                n += 1
                problems = []
                want_field = ACCESSOR_FIELDS.get(construct)
                if want_field is None:
                    ctx.uncheck(f"accessor {construct} has no row in the accessor table")
                elif field != want_field:
                    problems.append(f"reads field `{field}`; the accessor is documented to read `{want_field}`")
                row = table.get(field)
                if row is None:
                    problems.append(f"`{field}` is not a field of {op}")
                else:
                    want_t = {"u": "uint64", "b": "bytes"}.get(row[0])
                    if want_t and declared != want_t:
                        problems.append(f"declares the value as {declared}; the AVM field `{field}` is {want_t}")
                ctx.check(not problems, "R05.8", construct, "; ".join(problems), f"{f.module.rel}:{call.lineno}", fact={"field": field, "declared": declared})
    # every stack operand handed to a MaybeValue / MultiValue is type-checked first: the op pops it whatever it is
    m_ops = 0
    for f in ctx.model.iter_funcs():
        if not f.module.name.startswith("pyteal.ast") or f.module.name.endswith("_test"):
            continue
        for call in walk_local(f.node):
            if not (isinstance(call, ast.Call) and u(call.func) in ("MaybeValue", "MultiValue")):
                continue
            argl = next((k.value for k in call.keywords if k.arg == "args"), None)
            if not isinstance(argl, ast.List):
                continue
            checked = {u(c.args[0]): u(c.args[1]) for c in q.calls_named(f.node, "require_type", into_nested=False) if len(c.args) >= 2 and c.lineno <= call.lineno}
            for el in argl.elts:
                if not isinstance(el, ast.Name):
                    continue
                m_ops += 1
                ctx.check(el.id in checked, "R05.8", f"{f.qualname}:operand `{el.id}`", f"`{el.id}` is pushed as a stack operand of {u(call.args[0]) if call.args else 'the op'} without a require_type on it: an expression of type none (a store, a Seq without value) pushes nothing, and the op pops what is not there", f"{f.module.rel}:{call.lineno}", fact={"checked_as": checked.get(el.id)})
    q.need(m_ops >= 25, f"only {m_ops} MaybeValue / MultiValue operands found")
    ctx.require_min("R05.8", 45)


def r05_9_if_chains(ctx):
    from sa.lowerworld import World

    ctx.rule("R05.9", "an If built with the Then / ElseIf / Else methods is typed like the same If written with positional arguments: asking for its type (which every consumer does) refuses a chain whose arms leave values of different types, and a chain whose arms leave a value but whose last ElseIf has no Else - otherwise the paths reach the join with different stack contents")
    ifc = ctx.model.find_class("If", "pyteal.ast.if_")
    ctx.analysed(ifc.fq + ".type_of", ifc.fq + ".ElseIf", ifc.fq + ".Else", ifc.fq + ".Then")
    types = ["uint64", "bytes", "none"]
    n = 0
    for arms in [list(p) for k in (2, 3) for p in itertools.product(types, repeat=k)]:
        for final_else in (True, False):
            if not final_else and len(arms) < 2:
                continue
            W = World(ctx.model, real_exprs=True)
            kids = [W.child(f"arm{i}", t) for i, t in enumerate(arms)]
            conds = [W.child(f"c{i}", "uint64") for i in range(len(arms))]
            try:
                obj = W.construct("If", [conds[0]])
                obj = obj.methods["Then"](kids[0])
                last = len(arms) - 1 if final_else else len(arms)
                for i in range(1, last):
                    obj = obj.methods["ElseIf"](conds[i])
                    obj = obj.methods["Then"](kids[i])
                if final_else:
                    obj = obj.methods["Else"](kids[-1])
                t = obj.methods["type_of"]()
                outcome = f"typed {t}"
            except Raised as r:
                outcome = "refused"
            used = arms[:last] if not final_else else arms
            consistent = len(set(used)) == 1 and (final_else or used[0] == "none")
            n += 1
            construct = f"If.Then({used[0]})" + "".join(f".ElseIf.Then({t_})" for t_ in (used[1:-1] if final_else else used[1:])) + (f".Else({used[-1]})" if final_else else "")
            ctx.check((outcome == "refused") == (not consistent), "R05.9", construct, f"type_of() is {outcome}; the arms leave {used}{'' if final_else else ' and the chain has no final Else'}, so it must be {'accepted' if consistent else 'refused'}", ifc.where, fact={"outcome": outcome})
    ctx.require_min("R05.9", 30)


def r05_10_constructs_by_construction(ctx):
    from sa.lowerworld import World

    ctx.rule("R05.10", "control constructs, built through their own constructors and builder methods from operands of every type, are refused exactly when the typing discipline says so (conditions uint64, loop parts and non-final sequence elements none, arms alike, Pop of a value) and otherwise declare the type their last / common arm leaves")
    T = ["uint64", "bytes", "none", "anytype"]

    def seq(W, ts):
        return W.construct("Seq", [W.child(f"e{i}", t) for i, t in enumerate(ts)])

    def seq_list(W, ts):
        return W.construct("Seq", [[W.child(f"e{i}", t) for i, t in enumerate(ts)]])

    def cond(W, ts):
        k = len(ts) // 2
        return W.construct("Cond", [[W.child(f"c{i}", ts[i]), W.child(f"v{i}", ts[k + i])] for i in range(k)])

    def while_(W, ts):
        return W.construct("While", [W.child("c", ts[0])]).methods["Do"](W.child("b", ts[1]))

    def for_(W, ts):
        return W.construct("For", [W.child("s", ts[0]), W.child("c", ts[1]), W.child("st", ts[2])]).methods["Do"](W.child("b", ts[3]))

    def if3(W, ts):
        return W.construct("If", [W.child("c", ts[0]), W.child("t", ts[1]), W.child("e", ts[2])])

    def if2(W, ts):
        return W.construct("If", [W.child("c", ts[0]), W.child("t", ts[1])])

    def assert_(W, ts):
        return W.construct("Assert", [W.child(f"c{i}", t) for i, t in enumerate(ts)])

    def pop(W, ts):
        return W.call("Pop", [W.child("x", ts[0])])

    def suffix(W, ts):
        return W.construct("SuffixExpr", [W.child("s", ts[0]), W.child("start", ts[1])])

    def exitp(W, ts):
        return W.construct("ExitProgram", [W.child("ok", ts[0])])

    def dupn(W, ts):
        return W.construct("DupN", [W.child("v", ts[0]), 3])

    def bury(W, ts):
        return W.construct("FrameBury", [W.child("v", ts[0]), 1])

    R = ref_require_ok
    families = [
        ("SuffixExpr", suffix, (2,), lambda ts: R(ts[0], "bytes") and R(ts[1], "uint64"), lambda ts: "bytes"),
        ("ExitProgram", exitp, (1,), lambda ts: R(ts[0], "uint64"), lambda ts: "none"),
        ("DupN", dupn, (1,), lambda ts: R(ts[0], "anytype"), lambda ts: ts[0]),
        ("FrameBury", bury, (1,), lambda ts: R(ts[0], "anytype"), lambda ts: "none"),
        ("Seq", seq, (2, 3), lambda ts: all(R(t, "none") for t in ts[:-1]), lambda ts: ts[-1]),
        ("Seq[list]", seq_list, (2,), lambda ts: all(R(t, "none") for t in ts[:-1]), lambda ts: ts[-1]),
        # two arms: "alike" is the (symmetric) reference relation; more arms only over concrete types
        ("Cond", cond, (2, 4), lambda ts: all(R(t, "uint64") for t in ts[: len(ts) // 2]) and all(R(v, ts[len(ts) // 2]) for v in ts[len(ts) // 2 + 1:]), lambda ts: ts[len(ts) // 2]),
        ("While.Do", while_, (2,), lambda ts: R(ts[0], "uint64") and R(ts[1], "none"), lambda ts: "none"),
        ("For.Do", for_, (4,), lambda ts: R(ts[0], "none") and R(ts[1], "uint64") and R(ts[2], "none") and R(ts[3], "none"), lambda ts: "none"),
        ("If[3]", if3, (3,), lambda ts: R(ts[0], "uint64") and R(ts[1], ts[2]), lambda ts: ts[1]),
        ("If[2]", if2, (2,), lambda ts: R(ts[0], "uint64") and R(ts[1], "none"), lambda ts: "none"),
        ("Assert", assert_, (1, 2), lambda ts: all(R(t, "uint64") for t in ts), lambda ts: "none"),
        ("Pop", pop, (1,), lambda ts: R(ts[0], "anytype"), lambda ts: "none"),
    ]
    concrete3 = [("Cond", cond, (6,), lambda ts: all(t == "uint64" for t in ts[:3]) and len(set(ts[3:])) == 1, lambda ts: ts[3])]
    for name, build, arities, ok, typ in families + concrete3:
        cls = ctx.model.find_func("Pop", "pyteal.ast.unaryexpr") if name == "Pop" else ctx.model.find_class(name.split("[")[0].split(".")[0])
        ctx.analysed(cls.fq)
        for k in arities:
            for ts in itertools.product(T[:3] if k == 6 else T, repeat=k):
                ts = list(ts)
                if k == 6 and ts[:3] != ["uint64"] * 3:
                    continue
                W = World(ctx.model, real_exprs=True)
                try:
                    obj = build(W, ts)
                    t = obj.methods["type_of"]()
                    outcome = str(t).split(".")[-1]
                except Raised:
                    outcome = "refused"
                want = typ(ts) if ok(ts) else "refused"
                ctx.check(outcome == want, "R05.10", f"{name}({', '.join(ts)})", f"{name} over operands of types {ts} is {outcome if outcome == 'refused' else 'accepted with type ' + outcome}; the discipline says {want if want == 'refused' else 'accepted with type ' + want}", cls.where, fact={"outcome": outcome})
    ctx.require_min("R05.10", 200)


def r05_11_op_factories_by_construction(ctx):
    from sa.lowerworld import World
    from spec import avm

    ctx.rule("R05.11", "an operator expression is only ever built over operands the op can take: every factory function of the unary / binary / ternary / n-ary operator modules, called with operands of each type in each position (and with no operand leaving a value at all), lets them reach the emitted op (construction and lowering together) only if every operand leaves a value of a type the AVM op pops there - also where the type demanded of one operand is computed from another (Eq, Neq)")
    S = get_sites(ctx.model)
    LET = {"u": "uint64", "b": "bytes", "a": "anytype"}
    T = ["uint64", "bytes", "none", "anytype"]
    n_funcs = 0
    for modname in ("pyteal.ast.unaryexpr", "pyteal.ast.binaryexpr", "pyteal.ast.ternaryexpr", "pyteal.ast.naryexpr"):
        mod = ctx.model.module(modname)
        for f in mod.all_funcs:
            if f.cls is not None or f.name.startswith("_"):
                continue
            a = f.node.args
            if a.kwonlyargs or a.kwarg or a.defaults:
                continue
            ks = (2, 3) if a.vararg and not a.args else ((len(a.args),) if not a.vararg and a.args else ())
            for k in ks:
                # the accepted base vector comes from the op the factory builds: probe with uint64 / bytes operands
                base = None
                for cand in itertools.product(["uint64", "bytes"], repeat=k):
                    W = World(ctx.model, real_exprs=True)
                    try:
                        obj = W.call(f.name, [W.child(f"x{i}", t) for i, t in enumerate(cand)])
                    except (Raised, AnalysisError):
                        continue
                    opv = obj.attrs.get("op") if isinstance(obj, Sym) else None
                    opname = getattr(opv, "name", None)
                    if opname:
                        base = (list(cand), opname.split(".")[-1])
                        break
                if base is None:
                    ctx.uncheck(f"{f.qualname}/{k}: no operator expression is built from uint64 / bytes operands")
                    continue
                vec, member = base
                sig = S.sig(member)
                if sig is None or (len(sig["pops"]) != k and not a.vararg):
                    ctx.uncheck(f"{f.qualname}/{k}: op {member} has no fixed signature of {k} operands")
                    continue
                pops = sig["pops"] if not a.vararg else [sig["pops"][0]] * k
                n_funcs += 1
                ctx.analysed(f.fq)
                vectors = [vec[:i] + [t] + vec[i + 1:] for i in range(k) for t in T] + [["none"] * k, ["anytype"] * k]
                for ts in vectors:
                    W = World(ctx.model, real_exprs=True)
                    try:
                        built = W.call(f.name, [W.child(f"x{i}", t) for i, t in enumerate(ts)])
                        # accepted = can be built and lowered (a check may sit in either place)
                        if isinstance(built, Sym) and "__teal__" in built.methods:
                            built.methods["__teal__"](W.options(10))
                        accepted = True
                    except Raised:
                        accepted = False
                    legal = all(t != "none" and ref_require_ok(t, LET[p]) for t, p in zip(ts, pops))
                    ctx.check((not accepted) or legal, "R05.11", f"{f.name}({', '.join(ts)})", f"{f.name} accepts operands of types {ts}; `{S.teal_name(member)}` pops {[LET[p] for p in pops]}, so {'an operand that leaves nothing' if 'none' in ts else 'an operand of the wrong type'} reaches the op", f.where, fact={"accepted": accepted})
    q.need(n_funcs >= 40, f"only {n_funcs} operator factories could be exercised")
    ctx.require_min("R05.11", 400)


def run(ctx):  # noqa: F811
    r05_1_operand_typing(ctx)
    r05_1b_lowered_params(ctx)
    r05_2_result_typing(ctx)
    r05_3_literal_op_lists(ctx)
    r05_7_typed_variables(ctx)
    r05_8_param_accessors(ctx)
    r05_9_if_chains(ctx)
    r05_10_constructs_by_construction(ctx)
    r05_11_op_factories_by_construction(ctx)
    r05_6_type_relation(ctx)
    from rules import c02 as _c02, c03 as _c03

    _c02.r02_3_spill(ctx)  # spill sequences are stack-neutral around callsub (shared with C02)
    _c03.r03_2_dependency_scan(ctx)  # optimiser deletions (shared with C03)
    _c03.r03_3_cancellation(ctx)
    _c03.r03_1_skip_set(ctx)  # which stores the optimiser may not delete: a deleted store of a shared slot leaves its value on the stack (shared with C03)
    _c02.r02_2_convention(ctx)  # routine prologue pops exactly its own arguments / reads them through the frame (shared with C02)
    from rules import c08 as _c08, c01 as _c01

    _c08.r08_8_option_plumbing(ctx)  # frame-pointer wrappers are compiled with proto, scratch wrappers without (shared with C08)
    from rules import c04 as _c04

    _c04.r04_2_field_tables(ctx)  # the type a field accessor declares is the type the AVM field has (shared with C04)
    _c02.r02_5_return(ctx)  # retsub always finds the declared number of values: a typed routine cannot return without one (shared with C02)
    _c01.r01_4e_flatten_traces(ctx)  # exactly one conditional branch consumes the condition of a conditional block (shared with C01)
    return (
        "Every emission site (class-level and factory-level, path-sensitive partial evaluation of constructors and __teal__) is typed against the op signature of the AVM "
        "reference table under the require_type constraints that dominate it; declared result types equal the op's pushes; hand-written op lists (WideRatio, Suffix, DupN, frame "
        "layout, MultiValue stores, recursion spill) are pushed through a typed abstract stack machine; the construct typing table and the require_type relation itself are checked; "
        "optimiser deletions are stack-neutral over all short sequences."
    )
