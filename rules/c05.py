"""C05 - emitted code keeps stack and type discipline on every path (structural clauses)."""
from __future__ import annotations

import ast

from rules.emitcommon import get_sites, constraint_types, _type_name
from sa.astutil import u
from sa.model import AnalysisError
from sa.pe import alts, show
from spec import avm

LET = {"uint64": "u", "bytes": "b", "anytype": "a", "none": "-"}

# raw constructors that are not the documented entry point: operands are constrained by the factory
# (checked at factory level); one line of reason each
CTOR_BYPASS = {
    "App": "documented API is the classmethods App.localGet/...; each constrains its operands",
    "MultiValue": "internal building block of MaybeValue users; callers constrain the operands",
    "MaybeValue": "internal building block; callers (AppParam, AssetParam, ...) constrain the operands",
    "EcOperation": "documented API is EcAdd/...; the constructor itself loops require_type over args (accepted)",
    "TxnaExpr": "built by Txn/Gtxn array accessors which check the index type",
    "GtxnExpr": "built through Gtxn[...] which checks the transaction index",
    "GtxnaExpr": "built through Gtxn[...] which checks both indices",
    "GitxnExpr": "built through Gitxn[...]",
    "GitxnaExpr": "built through Gitxn[...]",
    "SubroutineCall": "argument typing is done against the subroutine's declared parameter types (C02)",
    "Return": "value typed against the routine's return type at compile time (types_match in __teal__)",
    "ScratchStackStore": "the raw stack-store escape hatch the property excludes",
}

# operands whose missing/weak constraint is a known, recorded defect (known_findings.json) are still reported;
# nothing is suppressed here.


def compatible(req: str, pop: str) -> bool:
    """require_type(x, req) guarantees a value acceptable where the op pops `pop`"""
    if req == "none":
        return False
    if pop == "a":
        return True
    return LET.get(req) == pop


def r05_1_operand_typing(ctx):
    ctx.rule("R05.1", "every stack operand of every emission site is constrained (require_type) to a type the op accepts")
    S = get_sites(ctx.model)
    for site in S.factory_sites + S.class_sites:
        if site.operands is None:
            continue
        if site.level == "class" and site.cls.name in CTOR_BYPASS:
            continue
        for op in site.ops:
            if op.startswith("?"):
                continue
            sig = S.sig(op)
            if sig is None or op in ("retsub", "callsub"):
                continue
            for alt in site.operands:
                eff = [o for o in alt if S.nested_type(o, site.em.res) != "none"]
                if any(o.kind == "star" for o in eff) or len(eff) != len(sig["pops"]):
                    # variadic: every element must be constrained to the single pop type
                    for o in eff:
                        if o.kind == "star":
                            req = constraint_types(site, o)
                            want = set(sig["pops"])
                            construct = f"{site.construct}:{op}:*"
                            ctx.check(bool(req) and all(any(compatible(r, w) for r in req if not r.startswith("=")) or w == "a" for w in want), "R05.1", construct, f"variadic operands {o.text} of '{S.teal_name(op)}' are not constrained to {sorted(want)} (constraints: {req})", site.where, fact={"req": req})
                    continue
                for i, (o, pop) in enumerate(zip(eff, sig["pops"])):
                    construct = f"{site.construct}:{op}:arg{i}"
                    if o.kind == "nested":
                        nt = S.nested_type(o, site.em.res)
                        if nt is None:
                            continue
                        ctx.check(compatible(nt, pop), "R05.1", construct, f"nested expression {o.text} has type {nt} where '{S.teal_name(op)}' pops {pop}", site.where, fact={"nested": nt, "pop": pop})
                        continue
                    if o.kind not in ("param",):
                        continue
                    req = constraint_types(site, o)
                    lits = [r for r in req if not r.startswith("=")]
                    dyn = [r for r in req if r.startswith("=")]
                    if not req:
                        ctx.bad("R05.1", construct, f"operand {o.text} of '{S.teal_name(op)}' (pops {pop}) is never constrained by require_type on the path from {site.construct}", site.where)
                        continue
                    if lits:
                        ok = all(compatible(r, pop) for r in lits)
                        ctx.check(ok, "R05.1", construct, f"operand {o.text} is required to be {lits} but '{S.teal_name(op)}' pops {pop}", site.where, fact={"operand": o.text, "required": lits, "pop": pop})
                    else:
                        # a type computed from another operand (Eq: right.type_of()); accepted where the op takes any
                        ctx.check(pop == "a", "R05.1", construct, f"operand {o.text} constrained only dynamically ({dyn}) where '{S.teal_name(op)}' pops {pop}", site.where, fact={"dynamic": dyn})
    ctx.require_min("R05.1", 200)


def r05_2_result_typing(ctx):
    ctx.rule("R05.2", "the declared type_of() of an op expression equals what the op pushes (none if it pushes nothing); multi-push ops are only emitted by MultiValue")
    S = get_sites(ctx.model)
    for site in S.factory_sites:
        if site.em.container != "FromOp":
            continue
        path = site.em.path
        if path.type_of is None:
            continue
        tname = _type_name(path.type_of.ret_value(), S.enum, path.type_of)
        for op in site.ops:
            if op.startswith("?"):
                continue
            sig = S.sig(op)
            if sig is None or op in ("retsub", "callsub", "return_", "err"):
                continue
            construct = f"{site.construct}:{op}:result"
            pushes = sig["pushes"]
            is_multi = ctx.model.is_subclass(site.cls, "MultiValue")
            if len(pushes) >= 2 or is_multi:
                ctx.check(is_multi and tname == "none", "R05.2", construct, f"'{S.teal_name(op)}' pushes {len(pushes)} values but is emitted by {site.cls.name} (declares {tname}) instead of a MultiValue", site.where, fact={"pushes": pushes})
                if is_multi:
                    _check_multi_types(ctx, S, site, op, pushes)
                continue
            want = "none" if not pushes else {"u": "uint64", "b": "bytes", "a": None}[pushes[0]]
            if tname is None:
                # declared type computed from a field/argument: accepted only where the op pushes `any`
                ctx.check(bool(pushes) and pushes[0] == "a", "R05.2", construct, f"type_of() of {site.construct} is computed ({show(path.type_of, path.type_of.ret_value())}) but '{S.teal_name(op)}' pushes {pushes}", site.where, fact={"declared": "computed"})
                continue
            if want is None:
                ctx.check(tname != "none", "R05.2", construct, f"'{S.teal_name(op)}' pushes a value but {site.construct} declares none", site.where, fact={"declared": tname})
            else:
                ctx.check(tname == want, "R05.2", construct, f"{site.construct} declares {tname} but '{S.teal_name(op)}' pushes {want}", site.where, fact={"declared": tname, "pushes": pushes})
    ctx.require_min("R05.2", 120)


def _check_multi_types(ctx, S, site, op, pushes):
    """MultiValue(op, types, ...) / MaybeValue(op, type, ...): the declared output types equal the op's pushes"""
    attrs = site.em.path.init.attrs
    types = attrs.get("types")
    if types is None:
        return
    construct = f"{site.construct}:{op}:outputs"
    for a in alts(types):
        if isinstance(a, (ast.List, ast.Tuple)):
            names = [u(x).split(".")[-1] for x in a.elts]
            ok = len(names) == len(pushes) and all(LET.get(n) == p or p == "a" or n == "anytype" for n, p in zip(names, pushes))
            # a fixed u/b push must not be declared as the other fixed type
            ok = ok and all(not (p in "ub" and LET.get(n) in "ub" and LET.get(n) != p) for n, p in zip(names, pushes))
            ctx.check(ok, "R05.2", construct, f"output types {names} do not match what '{S.teal_name(op)}' pushes ({pushes})", site.where, fact={"types": names, "pushes": pushes})


def run(ctx):
    r05_1_operand_typing(ctx)
    r05_2_result_typing(ctx)
    return (
        "Every emission site (class-level and factory-level, path-sensitive partial evaluation of constructors and __teal__) is typed "
        "against the op signature of the AVM reference table under the require_type constraints that dominate it; declared result types "
        "equal the op's pushes; literal op lists have the declared stack effect."
    )


# ------------------------------------------------------------------------------------------
def _params_in(e: ast.AST):
    return {n.id[3:].lstrip("*") for n in ast.walk(e) if isinstance(n, ast.Name) and n.id.startswith("$p_")}


# constructor parameters that are lowered without any constructor-time type constraint, accepted
# with one line of reason each
LOWERED_UNCONSTRAINED_OK = {
    ("Nonce", "child"): "wrapper: contributes exactly what the child contributes (type_of/has_return delegate)",
    ("Pragma", "child"): "wrapper: delegates everything to the child",
    ("Comment", "expr"): "wrapper Seq: the commented expression is the last element and keeps its type",
    ("SubroutineDeclaration", "body"): "body type is checked against the declared return type in __info_prepare / evaluate",
    ("SubroutineCall", "args"): "arguments are checked against the declared parameter types in __init__ (types_match / assignability loop)",
    ("MultiValue", "args"): "internal building block; callers constrain the operands (checked at factory level by R05.1)",
    ("MaybeValue", "args"): "internal building block; callers constrain the operands (checked at factory level by R05.1)",
    ("App", "args"): "documented API is the classmethods, which constrain every operand (checked at factory level by R05.1)",
    ("ScratchStackStore", "slot"): "not an expression",
    ("Proto", "mem_layout"): "layout of typed zero values built by the compiler itself",
    ("ProtoStackLayout", "arg_stack_types"): "types, not expressions",
    ("ProtoStackLayout", "local_stack_types"): "TealType values from which typed zero constants are built, not user expressions",
}


def r05_1b_lowered_params(ctx):
    ctx.rule("R05.1b", "every constructor parameter whose expression is lowered in __teal__ is type-constrained at construction (or compile) time")
    S = get_sites(ctx.model)
    n = 0
    for fq, ca in sorted(S.class_analyses.items()):
        cls = ca.cls
        lowered = {}
        for p in ca.paths:
            for ev in p.teal.events:
                if ev.short == "__teal__" and isinstance(ev.call.func, ast.Attribute):
                    for prm in _params_in(ev.call.func.value):
                        lowered.setdefault(prm, ev)
            # operands handed to FromOp are lowered by FromOp
            for ev in p.teal.events:
                if ev.short == "FromOp":
                    for a in ev.call.args[2:]:
                        for prm in _params_in(a):
                            lowered.setdefault(prm, ev)
        if not lowered:
            continue
        constrained = set()
        for p in ca.paths:
            for r in (p.init, p.teal):
                for ev in r.events:
                    if ev.short in ("require_type", "types_match", "type_spec_is_assignable_to") or ev.short == "type_of":
                        subj = ev.call.args[0] if ev.call.args else (ev.call.func.value if isinstance(ev.call.func, ast.Attribute) else None)
                        if ev.short == "type_of" and isinstance(ev.call.func, ast.Attribute):
                            subj = ev.call.func.value
                        if subj is not None:
                            constrained |= _params_in(subj)
        for prm, ev in sorted(lowered.items()):
            construct = f"class {cls.name}.{prm}"
            n += 1
            if (cls.name, prm) in LOWERED_UNCONSTRAINED_OK:
                ctx.ok("R05.1b", construct, {"justified": LOWERED_UNCONSTRAINED_OK[(cls.name, prm)]}, ev.where)
                continue
            ctx.check(prm in constrained, "R05.1b", construct, f"{cls.name}({prm}=...) lowers `{prm}` onto the stack but no require_type/type_of check on it exists in the constructor or __teal__", ev.where, fact={"param": prm})
    ctx.require_min("R05.1b", 60)


_run0 = run


def run(ctx):  # noqa: F811
    r05_1_operand_typing(ctx)
    r05_1b_lowered_params(ctx)
    r05_2_result_typing(ctx)
    return (
        "Every emission site (class-level and factory-level, path-sensitive partial evaluation of constructors and __teal__) is typed "
        "against the op signature of the AVM reference table under the require_type constraints that dominate it; declared result types "
        "equal the op's pushes; literal op lists have the declared stack effect."
    )
