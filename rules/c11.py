"""C11 - compilation is deterministic and independent of process history (structural clauses)."""
from __future__ import annotations

import ast

from sa import q
from sa.astutil import u, walk_local
from sa.model import AnalysisError, ClassInfo

MUTATORS = {"append", "add", "update", "pop", "clear", "extend", "remove", "insert", "setdefault", "discard", "popitem"}

# frozen inventory of process-global mutable state: (function, location) -> why it cannot make output depend on history
INVENTORY = {
    ("ScratchSlot.__init__", "ScratchSlot.nextSlotId"): "monotone id counter; ids are used by relative order only (R11.2)",
    ("ScratchSlot.reset_slot_numbering", "cls.nextSlotId"): "rewind of the counter; who-may-call is frozen (C10 R10.6)",
    ("SubroutineDefinition.__init__", "SubroutineDefinition.nextSubroutineId"): "monotone id counter; used by relative order only (R11.2)",
    ("_frame_pointer_context", "SubroutineEval._current_proto"): "save/restore marker; must be exception-safe (R11.3)",
    ("Tmpl.__init__", "self._session_templates[name]"): "registry read only by Tmpl.session_templates(); never consulted by the compiler (R11.1b)",
    ("Tmpl.clear_session_templates", "cls._session_templates"): "same registry",
    ("TealComponent.Context.ExprEqualityContext.__enter__", "TealComponent.Context.checkExprEquality"): "test-support switch of TealOp.__eq__; restored by __exit__ (context-manager protocol runs __exit__ on exceptions)",
    ("TealComponent.Context.ExprEqualityContext.__exit__", "TealComponent.Context.checkExprEquality"): "restore",
    ("TealComponent.Context.ScratchSlotEqualityContext.__enter__", "TealComponent.Context.checkScratchSlotEquality"): "test-support switch; restored by __exit__",
    ("TealComponent.Context.ScratchSlotEqualityContext.__exit__", "TealComponent.Context.checkScratchSlotEquality"): "restore",
    ("FeatureGates._make_feature", "setattr(cls, ...)"): "class construction at import time (accessor methods), not state",
    ("FeatureGates.set", "setattr(cls._gates, ...)"): "source-map feature switches; non-interference with code generation is C15 R15.1",
}


def _root_is_class(ctx, f, node) -> bool:
    chain = q.attr_chain(node) if hasattr(q, "attr_chain") else None
    from sa.astutil import attr_chain

    chain = attr_chain(node)
    if not chain:
        return False
    head = chain.split(".")[0]
    if head == "cls":
        return True
    r = ctx.model.resolve_in_func(f, head)
    if isinstance(r, ClassInfo):
        return True
    # enclosing class referenced by its own name from a nested class (TealComponent.Context...)
    return any(c.name == head for c in ctx.model.iter_classes()) and head[0].isupper() and head not in [a.arg for a in f.node.args.args]


def _class_level_only(ctx, f, attr) -> bool:
    if f.cls is None:
        return False
    ca = ctx.model.class_attr(f.cls, attr)
    if ca is None:
        return False
    for k in ctx.model.mro(f.cls):
        for mm in k.methods.values():
            for x in ast.walk(mm.node):
                tg = x.targets if isinstance(x, ast.Assign) else ([x.target] if isinstance(x, (ast.AnnAssign, ast.AugAssign)) else [])
                if any(u(t) == f"self.{attr}" for t in tg):
                    return False
    return True


def global_writes(ctx):
    """[(function qualname, location text, where)] for every write to process-global state from inside a function"""
    out = []
    for f in ctx.model.iter_funcs():
        params = {a.arg for a in f.node.args.args + f.node.args.kwonlyargs}
        globals_declared = {n for g in ast.walk(f.node) if isinstance(g, ast.Global) for n in g.names}
        for n in walk_local(f.node):
            tgts = []
            if isinstance(n, ast.Assign):
                tgts = n.targets
            elif isinstance(n, (ast.AugAssign, ast.AnnAssign)):
                tgts = [n.target]
            flat = []
            for t in tgts:
                flat.extend(t.elts if isinstance(t, (ast.Tuple, ast.List)) else [t])
            for tt in flat:
                base = tt
                sub = False
                while isinstance(base, ast.Subscript):
                    base, sub = base.value, True
                where = f"{f.module.rel}:{n.lineno}"
                if isinstance(base, ast.Attribute):
                    if isinstance(base.value, ast.Name) and base.value.id == "self":
                        if sub and _class_level_only(ctx, f, base.attr):
                            out.append((f.qualname, u(tt), where))
                    elif _root_is_class(ctx, f, base):
                        out.append((f.qualname, u(tt), where))
                elif isinstance(base, ast.Name):
                    if base.id in globals_declared:
                        out.append((f.qualname, "global " + u(tt), where))
                    elif sub and base.id in f.module.assigns and base.id not in params and not q.assigns_to(f.node, base.id):
                        out.append((f.qualname, u(tt), where))
            if isinstance(n, ast.Call):
                fn = n.func
                where = f"{f.module.rel}:{n.lineno}"
                if isinstance(fn, ast.Name) and fn.id == "setattr" and n.args:
                    tgt = n.args[0]
                    if _root_is_class(ctx, f, tgt) or (isinstance(tgt, ast.Name) and tgt.id == "cls"):
                        out.append((f.qualname, f"setattr({u(tgt)}, ...)", where))
                if isinstance(fn, ast.Attribute) and fn.attr in MUTATORS:
                    recv = fn.value
                    if isinstance(recv, ast.Attribute):
                        if isinstance(recv.value, ast.Name) and recv.value.id == "self":
                            if _class_level_only(ctx, f, recv.attr):
                                out.append((f.qualname, f"{u(recv)}.{fn.attr}(...)", where))
                        elif _root_is_class(ctx, f, recv):
                            out.append((f.qualname, f"{u(recv)}.{fn.attr}(...)", where))
                    elif isinstance(recv, ast.Name) and recv.id in f.module.assigns and recv.id not in params and not q.assigns_to(f.node, recv.id):
                        out.append((f.qualname, f"{recv.id}.{fn.attr}(...)", where))
    return out


def r11_1_inventory(ctx, only_under=None):
    ctx.rule("R11.1", "the inventory of process-global mutable state written from inside functions is closed: every such write is one of the frozen, individually justified entries")
    writes = global_writes(ctx)
    seen = set()
    if only_under is not None:
        # shared into other properties: only the writes made from the named part of the tree
        n = 0
        for fn, loc, where in writes:
            if not str(where).startswith(only_under):
                continue
            n += 1
            if (fn, loc) in INVENTORY:
                ctx.ok("R11.1", f"{fn}:{loc}", {"reason": INVENTORY[(fn, loc)]}, where)
            else:
                ctx.bad("R11.1", f"{fn}:{loc}", f"new write to process-global state `{loc}` in {fn}: what is computed for one value could now depend on what was built earlier in the process", where)
        ctx.ok("R11.1", f"global-writes-under:{only_under}", {"writes": n, "scanned_functions": sum(1 for _ in ctx.model.iter_funcs())}, only_under)
        return
    for fn, loc, where in writes:
        key = (fn, loc)
        seen.add(key)
        if key in INVENTORY:
            ctx.ok("R11.1", f"{fn}:{loc}", {"reason": INVENTORY[key]}, where)
        else:
            ctx.bad("R11.1", f"{fn}:{loc}", f"new write to process-global state `{loc}` in {fn}: what a program compiles to could now depend on what ran earlier in the process", where)
    missing = set(INVENTORY) - seen
    for key in sorted(missing):
        ctx.uncheck(f"inventory entry {key} no longer exists in the tree")
    ctx.require_min("R11.1", 8)
    # R11.1b: the template registry is never read on a compile path
    readers = []
    for f in ctx.model.iter_funcs():
        for n in walk_local(f.node):
            if isinstance(n, ast.Attribute) and n.attr == "_session_templates" and isinstance(n.ctx, ast.Load):
                readers.append(f.qualname)
    ctx.check(set(readers) <= {"Tmpl.__init__", "Tmpl.session_templates", "Tmpl.zero"}, "R11.1", "Tmpl._session_templates:readers", f"the process-wide template registry is read by {sorted(set(readers))}; only the query helpers Tmpl.session_templates()/Tmpl.zero() may read it (zero() is used for PC maps after compilation)", "pyteal/ast/tmpl.py", fact={"readers": sorted(set(readers))})


def r11_3_exception_safe_restore(ctx):
    ctx.rule("R11.3", "every save/restore of inventory state is exception-safe: a @contextmanager generator restores in a finally block; a function that rewinds a counter does so on every path")
    n = 0
    for f in ctx.model.iter_funcs():
        if not any("contextmanager" in d for d in f.decorators()):
            continue
        yields = [x for x in walk_local(f.node) if isinstance(x, (ast.Yield, ast.YieldFrom))]
        if not yields:
            continue
        writes_before = []
        for s in walk_local(f.node):
            if isinstance(s, ast.Assign):
                for t in s.targets:
                    for tt in (t.elts if isinstance(t, ast.Tuple) else [t]):
                        if isinstance(tt, ast.Attribute) and _root_is_class(ctx, f, tt):
                            writes_before.append((s, u(tt)))
        calls_state = [c for c in q.calls_named(f.node, "reset_slot_numbering", "set_sourcemap_enabled", "set_sourcemap_debug", "set", into_nested=False)]
        if not writes_before and not calls_state:
            continue
        n += 1
        y = yields[0]
        # restores = state writes / state calls positioned after the yield
        after = [(s, t) for s, t in writes_before if s.lineno > y.lineno] + [(c, u(c.func)) for c in calls_state if c.lineno > y.lineno]
        construct = f"{f.qualname}:restore"
        if not after:
            ctx.bad("R11.3", construct, f"{f.fq} changes process-global state before its yield and never restores it", f.where)
            continue
        in_finally = all(any(isinstance(a, ast.Try) and any(s is x or any(s is z for z in ast.walk(x)) for x in a.finalbody) for a in q.ancestors(s)) for s, _t in after)
        y_in_try = any(isinstance(a, ast.Try) and a.finalbody for a in q.ancestors(y))
        ctx.check(in_finally and y_in_try, "R11.3", construct, f"{f.fq} restores {sorted({t for _s, t in after})} after its yield but not in a `finally`: an exception in the with-body (a failing compilation, a user error in a subroutine body) leaves the state changed for every later compilation in the process", f.where, fact={"restores": sorted({t for _s, t in after})})
    ctx.require_min("R11.3", 2)
    # __probe_info / _new_abi_instance_from_storage rewind the slot counter: the rewind must be reached on every normal path
    for qual in ("_SubroutineDeclByOption.__probe_info", "SubroutineEval._new_abi_instance_from_storage"):
        f = ctx.model.find_func(qual, "pyteal.ast.subroutine")
        c = q.one(q.calls_named(f.node, "reset_slot_numbering", into_nested=False), f"{qual}: reset_slot_numbering")
        rets = q.returns_of(f.node)
        ctx.check(not q.nguards(c, ("branch",)) and all(c.lineno < r.lineno for r in rets), "R11.3", f"{qual}:rewind-on-every-path", "the counter rewind must be unconditional and precede every return", f"{f.module.rel}:{c.lineno}", fact={})


# reads of slot / subroutine ids: (function, expression) -> why the absolute value cannot reach the output
ID_READS_OK = {
    "ScratchSlot.__repr__", "ScratchSlot.__str__", "SubroutineDefinition.__str__", "SubroutineDefinition.__eq__", "SubroutineDefinition.__hash__",
    "ScratchSlot.__init__", "SubroutineDefinition.__init__",
}


def r11_2_ids_by_order(ctx):
    ctx.rule("R11.2", "slot and subroutine ids reach the output only through their relative order (sort keys) or, for requested slots, as the number the user asked for")
    n = 0
    for f in ctx.model.iter_funcs():
        if not (f.module.name.startswith("pyteal.compiler") or f.module.name.startswith("pyteal.ir") or f.module.name in ("pyteal.ast.subroutine", "pyteal.ast.scratch", "pyteal.ast.router")):
            continue
        for a in walk_local(f.node, into_nested=True):
            if not (isinstance(a, ast.Attribute) and a.attr == "id" and isinstance(a.ctx, ast.Load)):
                continue
            base = u(a.value)
            if not any(k in base.lower() for k in ("slot", "subroutine", "self")):
                continue
            if base == "self" and (f.cls is None or f.cls.name not in ("ScratchSlot", "SubroutineDefinition")):
                continue
            n += 1
            construct = f"{f.qualname}:{u(a)}"
            where = f"{f.module.rel}:{a.lineno}"
            anc = list(q.ancestors(a))
            in_sort_key = any(isinstance(x, ast.Lambda) and any(isinstance(y, ast.keyword) and y.arg == "key" and y.value is x for y in ast.walk(getattr(x, "parent", x)) if isinstance(y, ast.keyword)) for x in anc)
            in_sorted_gen = any(isinstance(x, ast.Call) and u(x.func) == "sorted" for x in anc)
            in_error = any(isinstance(x, ast.Raise) for x in anc) or any(isinstance(x, ast.Call) and "Error" in u(x.func) for x in anc)
            if f.qualname in ID_READS_OK or in_sort_key or in_sorted_gen or in_error:
                ctx.ok("R11.2", construct, "order-only / diagnostic use", where)
                continue
            gs = q.nguards(a)
            # the two uses of a *requested* id: duplicate detection and the assignment itself
            if f.qualname == "assignScratchSlotsToSubroutines" and (("slot.isReservedSlot", True) in gs or ("slot.isReservedSlot", False) in [(t, not p) for t, p in gs]):
                ctx.ok("R11.2", construct, "requested id (a number the user chose), under isReservedSlot", where)
                continue
            if f.qualname == "TealBlock.validateSlots":
                ctx.ok("R11.2", construct, "memo key of the definite-assignment walk: sorted ids of the slot set, used for equality only", where)
                continue
            ctx.bad("R11.2", construct, f"absolute id `{u(a)}` is used outside a sort key / requested-slot branch / diagnostic: the process-wide counter value could leak into the output", where)
    ctx.require_min("R11.2", 6)


SET_ITER_OK = {
    # (function, "<kind>:<iterated expression, locals resolved>") -> reason it is order-insensitive
    ("assignScratchSlotsToSubroutines", "for:collectScratchSlots(subroutineBlocks)[0] | set().union(*collectScratchSlots(subroutineBlocks)[1].values())"): "the body only raises on duplicate requested ids / fills a set; no output order depends on it",
    ("graph_search", "list:graph[start]"): "seeds a reachability search whose result is a boolean",
    ("graph_search", "list:graph[stack.pop()]"): "same search",
    ("TealBlock.MatchScratchSlotReferences", "DictComp:{slot: slot for slot in set(actual) & set(expected)}"): "builds an identity mapping that is only queried by key; the helper answers a boolean and is used by the test-only equality context",
}


def _set_typed_names(f):
    """local names / parameters of function f known to hold a set (annotation or constructor)"""
    names = set()
    a = f.node.args
    for p in a.posonlyargs + a.args + a.kwonlyargs:
        if p.annotation is not None:
            t = u(p.annotation)
            if t.startswith(("Set[", "set[", "FrozenSet[", "frozenset[")) or t in ("set", "Set"):
                names.add(p.arg)
    dict_of_sets = set()
    for p in a.posonlyargs + a.args + a.kwonlyargs:
        if p.annotation is not None:
            t = u(p.annotation)
            if t.startswith(("Dict[", "dict[")) and ("Set[" in t.split(",", 1)[-1] or "set[" in t.split(",", 1)[-1]):
                dict_of_sets.add(p.arg)
    changed = True
    while changed:
        changed = False
        for n in walk_local(f.node):
            tgt = val = ann = None
            if isinstance(n, ast.Assign) and len(n.targets) == 1 and isinstance(n.targets[0], ast.Name):
                tgt, val = n.targets[0].id, n.value
            elif isinstance(n, ast.AnnAssign) and isinstance(n.target, ast.Name):
                tgt, val, ann = n.target.id, n.value, u(n.annotation)
            if tgt is None or tgt in names:
                continue
            if ann and ann.startswith(("Set[", "set[")):
                names.add(tgt)
                changed = True
            elif ann and ann.startswith(("Dict[", "dict[")) and "Set[" in ann.split(",", 1)[-1]:
                dict_of_sets.add(tgt)
            elif val is not None and _is_set_expr(val, names, dict_of_sets):
                names.add(tgt)
                changed = True
    return names, dict_of_sets


def _is_set_expr(e, names, dict_of_sets) -> bool:
    if isinstance(e, (ast.Set, ast.SetComp)):
        return True
    if isinstance(e, ast.Name):
        return e.id in names
    if isinstance(e, ast.Call):
        fn = u(e.func)
        if fn in ("set", "frozenset"):
            return True
        if isinstance(e.func, ast.Attribute) and e.func.attr in ("intersection", "union", "difference", "symmetric_difference", "copy") and _is_set_expr(e.func.value, names, dict_of_sets):
            return True
        if fn == "cast" and len(e.args) == 2:
            return _is_set_expr(e.args[1], names, dict_of_sets)
    if isinstance(e, ast.BinOp) and isinstance(e.op, (ast.BitAnd, ast.BitOr, ast.Sub, ast.BitXor)):
        # set algebra on dict views (d.keys() - s, d.items() & t) yields a set as well
        view = lambda x: isinstance(x, ast.Call) and isinstance(x.func, ast.Attribute) and x.func.attr in ("keys", "items") and not x.args
        return _is_set_expr(e.left, names, dict_of_sets) or _is_set_expr(e.right, names, dict_of_sets) or view(e.left) or view(e.right)
    if isinstance(e, ast.Subscript) and isinstance(e.value, ast.Name) and e.value.id in dict_of_sets:
        return True
    return False


def r11_4_hash_order(ctx):
    ctx.rule("R11.4", "no hash-order leak: on the compile path a set is never iterated, listed or popped in an order-sensitive way unless wrapped in sorted(); ScratchSlot hashes by identity, so set order varies between processes")
    n = 0
    for f in ctx.model.iter_funcs():
        if not (f.module.name.startswith("pyteal.compiler") or f.module.name.startswith("pyteal.ir") or f.module.name.startswith("pyteal.ast")) or f.module.name.startswith("pyteal.compiler.sourcemap") or f.module.name.endswith("_test"):
            continue
        names, dos = _set_typed_names(f)
        for node in walk_local(f.node):
            expr = None
            text = None
            if isinstance(node, ast.For) and _is_set_expr(node.iter, names, dos):
                expr, text = node.iter, f"for {u(node.target)} in {u(node.iter)}"
            elif isinstance(node, ast.Call) and u(node.func) in ("list", "tuple", "next", "iter", "enumerate") and node.args and _is_set_expr(node.args[0], names, dos):
                expr, text = node.args[0], u(node)
            elif isinstance(node, ast.Call) and isinstance(node.func, ast.Attribute) and node.func.attr == "pop" and _is_set_expr(node.func.value, names, dos):
                expr, text = node.func.value, u(node)
            elif isinstance(node, (ast.ListComp, ast.GeneratorExp, ast.DictComp)) and any(_is_set_expr(g.iter, names, dos) for g in node.generators):
                parent = getattr(node, "parent", None)
                if isinstance(parent, ast.Call) and u(parent.func) in ("sorted", "set", "any", "all", "sum", "len", "frozenset", "min", "max"):
                    continue
                expr, text = node, u(node)
            if expr is None:
                continue
            # wrapped in sorted(...)?
            if any(isinstance(a, ast.Call) and u(a.func) == "sorted" for a in q.ancestors(node)):
                continue
            n += 1
            # spelling-independent key: the iterated expression with single-definition locals resolved
            rexpr = q.rtext(f.node, expr)
            kind_ = "for" if isinstance(node, ast.For) else (u(node.func) if isinstance(node, ast.Call) and isinstance(node.func, ast.Name) else type(node).__name__)
            key = (f.qualname, f"{kind_}:{rexpr}")
            where = f"{f.module.rel}:{node.lineno}"
            if key in SET_ITER_OK:
                ctx.ok("R11.4", f"{f.qualname}:{text}", {"reason": SET_ITER_OK[key]}, where)
            else:
                ctx.bad("R11.4", f"{f.qualname}:{text}", f"`{text}` enumerates a set in hash order on the compile path (not wrapped in sorted()): the result can differ between processes", where)
    # the places whose order reaches the output are sorted with an id key
    for qual, mod in (("compileSubroutine", "pyteal.compiler.compiler"), ("assignScratchSlotsToSubroutines", "pyteal.compiler.scratchslots"), ("resolveSubroutines", "pyteal.compiler.subroutines"), ("spillLocalSlotsDuringRecursion", "pyteal.compiler.subroutines")):
        f = ctx.model.find_func(qual, mod)
        ctx.check(bool(q.calls_named(f.node, "sorted", into_nested=False)), "R11.4", f"{qual}:sorted", f"{qual} orders subroutines/slots: it must do so with sorted()", f.where, fact={})
    ctx.require_min("R11.4", 6)


TEAL_SELF_WRITES_OK = {"_sframes_container", "stack_frames", "_stack_frames", "trace"}


def r11_5_fresh_graph(ctx):
    ctx.rule("R11.5", "every compilation builds a fresh graph: no __teal__ stores state on its expression (other than source-map attributes); CompileOptions is created inside _compile_impl; the router compiles inside its cleaning context, which restores in a finally")
    n = 0
    for c in ctx.model.iter_classes():
        t = c.methods.get("__teal__")
        if t is None or not c.module.name.startswith("pyteal.ast"):
            continue
        # __teal__ and every method of the class it reaches through self.<method>(...) (name-mangled private helpers included)
        reach, todo = {"__teal__": t}, [t]
        while todo:
            fm = todo.pop()
            for call in walk_local(fm.node):
                if isinstance(call, ast.Call) and isinstance(call.func, ast.Attribute) and u(call.func.value) == "self":
                    callee = ctx.model.resolve_method(c, call.func.attr)
                    if callee is not None and call.func.attr not in reach and call.func.attr not in ("type_of", "has_return", "__str__"):
                        reach[call.func.attr] = callee
                        todo.append(callee)
        for mname, fm in reach.items():
            for s in walk_local(fm.node):
                tg = s.targets if isinstance(s, ast.Assign) else ([s.target] if isinstance(s, (ast.AugAssign, ast.AnnAssign)) else [])
                for x in tg:
                    if isinstance(x, ast.Attribute) and u(x.value) == "self":
                        n += 1
                        ctx.check(x.attr in TEAL_SELF_WRITES_OK, "R11.5", f"{c.name}.{mname}:self.{x.attr}", f"{c.name}.{mname} (run by __teal__) stores `self.{x.attr}`: compiling an expression must not change it (a second compilation of the same object - another version, another option set - would differ)", f"{fm.module.rel}:{s.lineno}", fact={})
        ctx.instances["R11.5"] = ctx.instances.get("R11.5", 0) + 1
    f = ctx.model.find_func("Compilation._compile_impl", "pyteal.compiler.compiler")
    co = q.calls_named(f.node, "CompileOptions", into_nested=False)
    ctx.check(len(co) == 1, "R11.5", "_compile_impl:fresh-options", "CompileOptions (loop stacks, current subroutine) must be created per compilation", f.where, fact={})
    cs = q.one(q.calls_named(f.node, "compileSubroutine", into_nested=False), f"{f.fq}: compileSubroutine call")
    for nm in [u(a) for a in cs.args[2:5]]:
        ds = q.assigns_to(f.node, nm)
        ctx.check(len(ds) == 1 and u(ds[0]) in ("dict()", "{}"), "R11.5", f"_compile_impl:fresh-{nm}", f"{nm} must start empty in every compilation", f.where, fact={})
    ctx.require_min("R11.5", 40)


def r11_6_rewind_discards(ctx):
    ctx.rule("R11.6", "ids stay unique among live objects: every site that rewinds the slot id counter also discards what was created since the saved value (otherwise later slots reuse ids of cached ones and the id-sorted order, hence the output, depends on history)")
    # __probe_info: the probed declaration is dropped again unless it pre-existed
    f = ctx.model.find_func("_SubroutineDeclByOption.__probe_info", "pyteal.ast.subroutine")
    rew = q.one(q.calls_named(f.node, "reset_slot_numbering", into_nested=False), "__probe_info: rewind")
    drops = [n for n in walk_local(f.node) if isinstance(n, ast.Assign) and u(n.targets[0]) == "self.option_map[fp_option]" and u(n.value) == "None"]
    ok = len(drops) == 1 and drops[0].lineno < rew.lineno and q.nguards(drops[0]) == [("is_pre_existing", False)]
    ctx.check(ok, "R11.6", "__probe_info:discard-probe", "the declaration evaluated only for probing must be dropped (option_map[fp_option] = None unless it pre-existed) before the counter is rewound", f.where, fact={"guards": q.nguards(drops[0]) if drops else None})
    f = ctx.model.find_func("SubroutineEval._new_abi_instance_from_storage", "pyteal.ast.subroutine")
    rew = q.one(q.calls_named(f.node, "reset_slot_numbering", into_nested=False), "_new_abi_instance_from_storage: rewind")
    repl = [n for n in walk_local(f.node) if isinstance(n, ast.Assign) and u(n.targets[0]) == "instance._stored_value" and u(n.value) == f.params()[1]]
    ctx.check(len(repl) == 1 and repl[0].lineno < rew.lineno, "R11.6", "_new_abi_instance_from_storage:replace-storage", "the scratch storage allocated for the fresh ABI instance must be replaced by the frame storage before the counter is rewound", f.where, fact={})
    # Router._cleaning_context: whatever the build cached must be invalidated with the rewind
    f = ctx.model.find_func("Router._cleaning_context", "pyteal.ast.router")
    clean = ctx.model.find_func("Router._clean", "pyteal.ast.router")
    touched = set()
    stack, seen = [clean], set()
    while stack:
        g = stack.pop()
        if g.fq in seen:
            continue
        seen.add(g.fq)
        for n in ast.walk(g.node):
            if isinstance(n, ast.Attribute):
                touched.add(n.attr)
            if isinstance(n, ast.Call) and isinstance(n.func, ast.Attribute):
                t = ctx.model.try_func(f"ASTBuilder.{n.func.attr}") or ctx.model.try_func(f"Router.{n.func.attr}")
                if t is not None:
                    stack.append(t)
    invalidates_decl_cache = bool(touched & {"option_map", "declarations", "get_declarations"})
    ctx.check(invalidates_decl_cache, "R11.6", "Router._cleaning_context:declaration-caches", "the router rewinds the slot id counter after every build but keeps the method subroutines' cached declarations (and the slots they own): a second compile_program on the same router issues ids that collide with the cached ones, so the id-sorted slot order - and the emitted slot numbers - differ from the first compile", f.where, fact={"cleaned": sorted(touched)[:8]})


def r11_6b_rewind_to_saved_value(ctx):
    ctx.rule("R11.6", "ids stay unique among live objects: every site that rewinds the slot id counter also discards what was created since the saved value (otherwise later slots reuse ids of cached ones and the id-sorted order, hence the output, depends on history)")
    n = 0
    for f in ctx.model.iter_funcs():
        if f.module.name.endswith("_test") or not f.module.name.startswith("pyteal"):
            continue
        for c in q.calls_named(f.node, "reset_slot_numbering", into_nested=True):
            n += 1
            arg = c.args[0] if c.args else next((k.value for k in c.keywords if k.arg == "start_index"), None)
            src = q.rtext(f.node, arg) if arg is not None else None
            ok = src is not None and src.endswith("nextSlotId")
            ctx.check(ok, "R11.6", f"{f.qualname}:rewind-target", f"`{u(c)}` rewinds the counter to {src or 'its initial value'}; it may only go back to the value read from ScratchSlot.nextSlotId when the region began (anything else re-issues ids of slots that are still alive)", f"{f.module.rel}:{c.lineno}", fact={"target": src})
    q.need(n >= 3, f"only {n} rewind sites found")


ENTROPY_MODULES = {"random", "time", "uuid", "secrets", "datetime", "socket", "getpass", "platform", "threading", "multiprocessing"}
ENTROPY_OK = {("pyteal.stack_frame", "os"): "working directory and path arithmetic for source-map file names only (C15); never reaches the TEAL text"}


def r11_7_no_entropy(ctx):
    ctx.rule("R11.7", "nothing that differs between processes reaches the output: the builtin hash() (salted per process for str / bytes) is called only inside __hash__ methods, object addresses (id()) are used only as set / dict keys, and no module of the package imports a source of time, randomness or host state (the one justified use of `os` is recorded)")
    n = 0
    for f in ctx.model.iter_funcs():
        if f.module.name.endswith("_test") or not f.module.name.startswith(("pyteal", "feature_gates")):
            continue
        for c in walk_local(f.node):
            if isinstance(c, ast.Call) and isinstance(c.func, ast.Name) and c.func.id == "hash":
                n += 1
                ctx.check(f.name == "__hash__", "R11.7", f"{f.qualname}:hash()", f"`{u(c)[:60]}` outside a __hash__ method: the hash of a str / bytes differs between processes (PYTHONHASHSEED), so anything derived from it - a label, an order - does too", f"{f.module.rel}:{c.lineno}", fact={})
            if isinstance(c, ast.Call) and isinstance(c.func, ast.Name) and c.func.id == "id" and len(c.args) == 1:
                n += 1
                par = getattr(c, "parent", None)
                # allowed: membership / set / dict keys / equality of identities; not allowed: ordering, formatting, arithmetic
                bad = False
                a = c
                while par is not None and not isinstance(par, ast.stmt):
                    if isinstance(par, ast.Call) and isinstance(par.func, ast.Name) and par.func.id in ("sorted", "min", "max", "str", "format", "repr", "hex"):
                        bad = True
                    if isinstance(par, (ast.JoinedStr, ast.FormattedValue)) or (isinstance(par, ast.BinOp) and not isinstance(par.op, (ast.BitOr, ast.BitAnd))):
                        bad = True
                    if isinstance(par, ast.Compare) and any(isinstance(o, (ast.Lt, ast.LtE, ast.Gt, ast.GtE)) for o in par.ops):
                        bad = True
                    if isinstance(par, ast.keyword) and par.arg == "key":
                        bad = True
                    a, par = par, getattr(par, "parent", None)
                ctx.check(not bad, "R11.7", f"{f.qualname}:id()", f"`{u(c)}` is ordered, formatted or computed with: object addresses differ between processes", f"{f.module.rel}:{c.lineno}", fact={})
    for m in ctx.model.modules.values():
        if m.name.endswith("_test") or not m.name.startswith(("pyteal", "feature_gates")):
            continue
        for st in ast.walk(m.tree):
            names = []
            if isinstance(st, ast.Import):
                names = [a.name.split(".")[0] for a in st.names]
            elif isinstance(st, ast.ImportFrom) and st.module and st.level == 0:
                names = [st.module.split(".")[0]]
            for nm in names:
                if nm in ENTROPY_MODULES or nm == "os":
                    n += 1
                    key = (m.name, nm)
                    if key in ENTROPY_OK:
                        ctx.ok("R11.7", f"{m.name}:import {nm}", {"reason": ENTROPY_OK[key]}, f"{m.rel}:{st.lineno}")
                    else:
                        ctx.bad("R11.7", f"{m.name}:import {nm}", f"`{m.name}` imports `{nm}`: time, randomness or host state must not be available to code that produces the program", f"{m.rel}:{st.lineno}")
    ctx.require_min("R11.7", 5)


_B = "builder method of the fluent construction syntax: completes the expression before it is used"
_G = "wiring of the block graph during lowering / the graph passes (blocks are created per compilation)"
_O = "per-compilation CompileOptions bookkeeping (the object is created in _compile_impl)"
_R = "registration of a method or bare call on a Router (the router's purpose)"
_P = "late binding of placeholders by the slot / subroutine / label passes on per-compilation ops"
_L = "lazy cache of a value derived from immutable inputs of the same object (source-map frames, source mapper results)"
_D = "per-convention declaration cache of a subroutine (R11.6 covers its interaction with the id counter)"
_V = "cycle guard of a recursive __repr__ / __eq__, reset before return"
STATE_MUTATION_OK = {
    ("ASTBuilder", "_clean_bare_calls", "bare_calls"): _R, ("ASTBuilder", "add_method_to_ast", "methods_with_conds"): _R,
    ("CompileOptions", "addLoopBreakBlock", "breakBlocksStack"): _O, ("CompileOptions", "addLoopContinueBlock", "continueBlocksStack"): _O, ("CompileOptions", "enterLoop", "breakBlocksStack"): _O,
    ("CompileOptions", "enterLoop", "continueBlocksStack"): _O, ("CompileOptions", "setSubroutine", "currentSubroutine"): _O,
    ("For", "Do", "doBlock"): _B, ("If", "Else", "elseBranch"): _B, ("If", "ElseIf", "elseBranch"): _B, ("If", "Then", "thenBranch"): _B, ("While", "Do", "doBlock"): _B,
    ("LabelReference", "addPrefix", "label"): _P, ("TealOp", "assignSlot", "args"): _P, ("TealOp", "resolveSubroutine", "args"): _P,
    ("PyTealFrame", "file", "_file"): _L, ("PyTealFrame", "raw_code", "_raw_code"): _L, ("PyTealFrame", "root", "_root"): _L,
    ("_PyTealSourceMapper", "_build_pc_sourcemap", "_cached_pc_sourcemap"): _L, ("_PyTealSourceMapper", "_build_r3sourcemap", "_cached_r3sourcemap"): _L, ("_PyTealSourceMapper", "build", "_best_frames"): _L,
    ("_PyTealSourceMapper", "build", "_cached_tmis"): _L, ("_PyTealSourceMapper", "build", "_inferred_frames_at"): _L,
    ("Router", "add_method_handler", "method_configs"): _R, ("Router", "add_method_handler", "method_selector_to_sig"): _R, ("Router", "add_method_handler", "method_sig_to_selector"): _R, ("Router", "add_method_handler", "methods"): _R,
    ("TealConditionalBlock", "replaceOutgoing", "falseBlock"): _G, ("TealConditionalBlock", "replaceOutgoing", "trueBlock"): _G, ("TealConditionalBlock", "setFalseBlock", "falseBlock"): _G, ("TealConditionalBlock", "setTrueBlock", "trueBlock"): _G,
    ("TealSimpleBlock", "replaceOutgoing", "nextBlock"): _G, ("TealSimpleBlock", "setNextBlock", "nextBlock"): _G, ("TealSimpleBlock", "__eq__", "visited"): _V, ("TealSimpleBlock", "__repr__", "visited"): _V,
    ("_SubroutineDeclByOption", "__info_prepare", "has_return"): _D, ("_SubroutineDeclByOption", "__info_prepare", "type_of"): _D, ("_SubroutineDeclByOption", "__probe_info", "option_map"): _D,
    ("_SubroutineDeclByOption", "get_declaration_by_option", "option_map"): _D, ("_SubroutineDeclByOption", "get_declarations", "option_map"): _D,
}
_MUTATORS = {"append", "extend", "insert", "pop", "remove", "clear", "add", "update", "setdefault", "discard", "popitem", "sort", "reverse", "__setitem__"}


def r11_8_object_state_inventory(ctx):
    ctx.rule("R11.8", "objects are not changed by being used: the methods (other than constructors) that assign, index-assign or call a mutating method on an attribute of their own object form a closed, individually justified inventory - builder methods, graph wiring, per-compilation bookkeeping, placeholder binding, registration on a router, a few lazy caches of immutable inputs. A new entry (a memo, a holder, a 'built on first use' field) makes a later use depend on an earlier one")
    seen = set()
    for c in ctx.model.iter_classes():
        if not c.module.name.startswith("pyteal.") or c.module.name.endswith("_test"):
            continue
        for nm, f in c.methods.items():
            if nm in ("__init__", "__post_init__"):
                continue
            for st in walk_local(f.node):
                hits = []
                tg = st.targets if isinstance(st, ast.Assign) else ([st.target] if isinstance(st, (ast.AugAssign, ast.AnnAssign)) else [])
                for x in tg:
                    base = x
                    while isinstance(base, ast.Subscript):
                        base = base.value
                    if isinstance(base, ast.Attribute) and u(base.value) == "self":
                        hits.append(base.attr)
                if isinstance(st, ast.Expr) and isinstance(st.value, ast.Call) and isinstance(st.value.func, ast.Attribute) and st.value.func.attr in _MUTATORS:
                    b = st.value.func.value
                    while isinstance(b, ast.Subscript):
                        b = b.value
                    if isinstance(b, ast.Attribute) and u(b.value) == "self":
                        hits.append(b.attr)
                for attr in hits:
                    key = (c.name, nm, attr)
                    if key in seen:
                        continue
                    seen.add(key)
                    if key in STATE_MUTATION_OK:
                        ctx.ok("R11.8", f"{c.name}.{nm}:self.{attr}", {"reason": STATE_MUTATION_OK[key]}, f"{f.module.rel}:{st.lineno}")
                    else:
                        ctx.bad("R11.8", f"{c.name}.{nm}:self.{attr}", f"{c.name}.{nm} changes `self.{attr}`: the object now remembers an earlier use (what the next caller gets - an expression with the first call site's identity, a stale list, a cached result - depends on history)", f"{f.module.rel}:{st.lineno}")
    for key in sorted(set(STATE_MUTATION_OK) - seen):
        ctx.uncheck(f"state inventory entry {key} no longer exists")
    ctx.require_min("R11.8", 30)


def r11_9_convention_is_asked_for(ctx):
    ctx.rule("R11.9", "a routine's body is only ever evaluated for the calling convention of the compile in progress: every call of get_declaration_by_option names the convention it wants (none relies on the default), and in the compiler package the argument is the compile's own `use_frame_pointers` option - evaluating the other convention as a side effect caches a declaration and draws slot ids that a later compile of the same objects inherits")
    n = 0
    for f in ctx.model.iter_funcs():
        if f.module.name.endswith("_test") or not f.module.name.startswith("pyteal."):
            continue
        for c in walk_local(f.node):
            if not (isinstance(c, ast.Call) and isinstance(c.func, ast.Attribute) and c.func.attr == "get_declaration_by_option"):
                continue
            n += 1
            args = list(c.args) + [k.value for k in c.keywords]
            construct = f"{f.qualname}:get_declaration_by_option#{sum(1 for x in walk_local(f.node) if isinstance(x, ast.Call) and isinstance(x.func, ast.Attribute) and x.func.attr == 'get_declaration_by_option' and x.lineno <= c.lineno)}"
            if len(args) != 1:
                ctx.bad("R11.9", construct, f"`{u(c)}` does not say which calling convention it wants: the default evaluates (and caches) the frame-pointer body whatever the compile in progress uses", f"{f.module.rel}:{c.lineno}")
                continue
            a = q.resolve_local(f.node, args[0]) if hasattr(q, "resolve_local") else args[0]
            if f.module.name.startswith("pyteal.compiler."):
                ok = isinstance(a, ast.Attribute) and a.attr == "use_frame_pointers"
                ctx.check(ok, "R11.9", construct, f"`{u(c)}` in the compiler asks for a fixed convention instead of the compile's `use_frame_pointers` option", f"{f.module.rel}:{c.lineno}", fact={"argument": u(args[0])})
            else:
                ctx.ok("R11.9", construct, {"argument": u(args[0])}, f"{f.module.rel}:{c.lineno}")
    ctx.require_min("R11.9", 10)


def run(ctx):
    r11_1_inventory(ctx)
    r11_2_ids_by_order(ctx)
    r11_3_exception_safe_restore(ctx)
    r11_4_hash_order(ctx)
    r11_5_fresh_graph(ctx)
    r11_6_rewind_discards(ctx)
    r11_6b_rewind_to_saved_value(ctx)
    r11_7_no_entropy(ctx)
    r11_8_object_state_inventory(ctx)
    r11_9_convention_is_asked_for(ctx)
    from rules import c03 as _c03

    _c03.r03_1_skip_set(ctx)  # optimiser skip set recomputed per compilation (state on a reusable OptimizeOptions object)
    return (
        "Closed inventory of process-global mutable state (who-may-write), ids used by order only, exception-safe restore of saved state (typestate over try/finally), "
        "typed check of set iteration on the compile path, no state stored by __teal__, per-compilation construction of options and graphs."
    )
