"""C02 - subroutine calls behave as function calls (structural, necessary clauses)."""
from __future__ import annotations

import ast
import itertools

from sa import q
from sa.astutil import u, walk_local
from sa.minieval import MiniEval, OpVal, Stack, StackError, Sym, Unknown, run_function
from sa.model import AnalysisError
from sa.tables import op_table


def _teal_type():
    return Sym("TealType", attrs={"none": "none", "uint64": "uint64", "bytes": "bytes", "anytype": "anytype"})


def _op_sym(model):
    tab = op_table(model)
    return Sym("Op", attrs={mem: Sym(f"Op.{mem}", attrs={"min_version": row["v"], "name": mem}) for mem, row in tab.items()})


def _sub(name, ret, abi, nargs, byref=()):
    s = Sym(name)
    # the other descriptions of the routine a SubroutineDefinition carries: the Python signature includes the keyword-only
    # `output` parameter of an ABI-returning routine, the stack arguments do not
    params = {f"a{i}": "param" for i in range(nargs)}
    if abi:
        params["output"] = "kwonly-param"
    s.attrs.update({"return_type": ret, "has_abi_output": abi, "by_ref_args": set(byref), "output_kwarg": ({"output": "spec"} if abi else {}), "id": 1, "implementation_params": params,
                    "expected_arg_types": ["Expr"] * nargs, "abi_args": {}})
    s.methods.update({"argument_count": lambda: nargs, "name": lambda: name, "arguments": lambda: [f"a{i}" for i in range(nargs)]})
    return s


def r02_3_spill(ctx):
    ctx.rule("R02.3", "spill/restore around a re-entrant callsub: for every strategy (dig/cover/uncover), arity, number of local slots and (caller, callee) return kinds, the caller's operands and local slots are unchanged afterwards and exactly the callee's result is on top (bounded partial evaluation of the op-list builder + abstract stack machine)")
    f = ctx.model.find_func("spillLocalSlotsDuringRecursion", "pyteal.compiler.subroutines")
    ctx.analysed(f.fq)
    OpS = _op_sym(ctx.model)
    TT = _teal_type()
    cover_v = OpS.attrs["cover"].attrs["min_version"]
    kinds = [("none", False), ("uint64", False), ("none", True)]  # (return_type, has_abi_output); an ABI-output routine is built with return_type none
    worlds = 0
    failures = {}
    maxk = 3 if ctx.tier == "quick" else 5
    maxn = 3 if ctx.tier == "quick" else 5
    for k, n, version, (cret, cabi), (eret, eabi) in itertools.product(range(1, maxk + 1), range(0, maxn + 1), (cover_v - 1, cover_v), kinds, kinds):
        caller = _sub("caller", cret, cabi, 1)
        callee = _sub("callee", eret, eabi, n)
        leaves = eret != "none" or eabi
        # the routine's statements are ops (an op that is not a load / store, the re-entrant call, another op): which of its
        # local slots the routine happens to load or store itself is irrelevant - a slot reached only through its index
        # (by-reference helper, DynamicScratchVar) is just as much overwritten by the inner invocation
        callsub = Sym("callsub-stmt", attrs={"$isa": {"TealOp", "TealComponent"}, "args": []}, methods={"getSubroutines": lambda callee=callee: [callee], "getOp": lambda: OpS.attrs["callsub"]})
        other = Sym("other-stmt", attrs={"$isa": {"TealOp", "TealComponent"}, "args": []}, methods={"getSubroutines": lambda: [], "getOp": lambda: OpS.attrs["pop"]})
        mapping = {caller: [other, callsub, other], callee: [other], None: [other]}
        slots = list(range(10, 10 + k))
        env = {
            "version": version,
            "subroutineMapping": mapping,
            "subroutineGraph": {caller: {callee}, callee: {caller}},
            "localSlots": {caller: set(slots), callee: set(), None: set()},
        }

        def oracle(e, me, caller=caller, callee=callee):
            t = u(e)
            if t == "Op":
                return OpS
            if t == "TealType":
                return TT
            if isinstance(e, ast.Call) and u(e.func) == "findRecursionPoints":
                return {caller: {callee}, callee: set()}
            raise Unknown()

        def setup(me):
            me.isinstance_hook = lambda v, cname: ((cname.split(".")[-1] in v.attrs["$isa"]) if isinstance(v, Sym) and "$isa" in v.attrs else None)

        _v, me = run_function(f.node, env, oracle, f.fq, setup=setup)
        out = mapping[caller]
        q.need(isinstance(out, list) and any(x is callsub for x in out), f"{f.fq}: the rewritten op list of the caller lost its callsub")
        st = Stack(["B1", "B2"] + [f"a{i}" for i in range(n)])
        construct = f"spill[{'cover' if version >= cover_v else 'dig'},slots={k},args={n},callee={'abi-output' if eabi else eret},caller={'abi-output' if cabi else cret}]"
        worlds += 1
        problem = None
        try:
            for x in out:
                if x is other:
                    continue
                if x is callsub:
                    args = st.s[len(st.s) - n:] if n else []
                    if args != [f"a{i}" for i in range(n)] or len(st.s) < n:
                        raise StackError(f"callsub sees arguments {args} instead of {[f'a{i}' for i in range(n)]}")
                    del st.s[len(st.s) - n:]
                    for s in slots:
                        st.mem[s] = "clobbered-by-reentry"
                    if leaves:
                        st.s.append("R")
                    continue
                q.need(isinstance(x, OpVal), f"{f.fq}: non-op element {x!r} in the rewritten list")
                st.apply(x.op, x.args)
            want = ["B1", "B2"] + (["R"] if leaves else [])
            if st.s != want:
                problem = f"stack after the restore sequence is {st.s}, expected {want}"
            else:
                bad = [s for s in slots if st.mem.get(s, ("init", s)) != ("init", s)]
                if bad:
                    problem = f"local slot(s) {bad} hold {[st.mem[s] for s in bad]} after the call instead of their value before it"
        except StackError as e:
            problem = str(e)
        key = f"spill[callee={'abi-output' if eabi else eret},caller={'abi-output' if cabi else cret}]"
        if problem:
            failures.setdefault(key, (construct, problem, [repr(x) for x in out if x is not other]))
        else:
            ctx.ok("R02.3", construct, {"ops": [repr(x) for x in out if x is not other], "consulted": sorted(set(me.consulted))[:8]}, f.where)
    for key, (construct, problem, ops) in sorted(failures.items()):
        ctx.bad("R02.3", key, f"first failing configuration {construct}: {problem}; emitted {ops}", f.where, {"ops": ops})
    # two re-entrant calls in one routine: callees of the same arity that differ in whether they leave a value
    for k, n, version, ((aret, aabi), (bret, babi)) in itertools.product((1, 2), (0, 1, 2), (cover_v - 1, cover_v), itertools.permutations(kinds, 2)):
        caller = _sub("caller", "none", False, 1)
        ca, cb = _sub("calleeA", aret, aabi, n), _sub("calleeB", bret, babi, n)
        isop = {"$isa": {"TealOp", "TealComponent"}, "args": []}
        stmts = {"A": Sym("callsub-A", attrs=dict(isop), methods={"getSubroutines": lambda ca=ca: [ca], "getOp": lambda: OpS.attrs["callsub"]}), "B": Sym("callsub-B", attrs=dict(isop), methods={"getSubroutines": lambda cb=cb: [cb], "getOp": lambda: OpS.attrs["callsub"]})}
        other = Sym("other-stmt", attrs=dict(isop), methods={"getSubroutines": lambda: [], "getOp": lambda: OpS.attrs["pop"]})
        mapping = {caller: [other, stmts["A"], other, stmts["B"], other], ca: [other], cb: [other], None: [other]}
        slots = list(range(10, 10 + k))
        env = {"version": version, "subroutineMapping": mapping, "subroutineGraph": {caller: {ca, cb}, ca: {caller}, cb: {caller}}, "localSlots": {caller: set(slots), ca: set(), cb: set(), None: set()}}

        def oracle2(e, me, caller=caller, ca=ca, cb=cb):
            t = u(e)
            if t == "Op":
                return OpS
            if t == "TealType":
                return TT
            if isinstance(e, ast.Call) and u(e.func) == "findRecursionPoints":
                return {caller: {ca, cb}, ca: set(), cb: set()}
            raise Unknown()

        run_function(f.node, env, oracle2, f.fq, setup=lambda me: setattr(me, "isinstance_hook", lambda v, cname: ((cname.split(".")[-1] in v.attrs["$isa"]) if isinstance(v, Sym) and "$isa" in v.attrs else None)))
        out = mapping[caller]
        construct = f"spill-two-calls[{'cover' if version >= cover_v else 'dig'},slots={k},args={n},first={'abi-output' if aabi else aret},second={'abi-output' if babi else bret}]"
        worlds += 1
        problem = None
        st = Stack(["B1"])
        try:
            for x in out:
                if x is other:
                    continue
                if x is stmts["A"] or x is stmts["B"]:
                    which = "A" if x is stmts["A"] else "B"
                    leaves = (aret != "none" or aabi) if which == "A" else (bret != "none" or babi)
                    if len(st.s) < n:
                        raise StackError(f"callsub {which} finds {len(st.s)} value(s) for {n} argument(s)")
                    if n:
                        del st.s[len(st.s) - n:]
                    for sl in slots:
                        st.mem[sl] = "clobbered-by-reentry"
                    if leaves:
                        st.s.append(f"R{which}")
                    continue
                q.need(isinstance(x, OpVal), f"{f.fq}: non-op element {x!r} in the rewritten list")
                if x is stmts.get("_never"):
                    continue
                st.apply(x.op, x.args)
                # the routine consumes a call's result and pushes the next call's arguments between the calls
            want_tail = [r for r, (rt, ab) in (("RA", (aret, aabi)), ("RB", (bret, babi))) if rt != "none" or ab]
            bad = [sl for sl in slots if st.mem.get(sl, ("init", sl)) != ("init", sl)]
            if bad:
                problem = f"local slot(s) {bad} hold {[st.mem[sl] for sl in bad]} after the calls instead of their value before"
            elif [v for v in st.s if isinstance(v, str) and v.startswith("R")] != want_tail or st.s[0] != "B1":
                problem = f"stack after both calls is {st.s}; the caller's value B1 must be at the bottom and the results {want_tail} above it"
        except StackError as e:
            problem = str(e)
        if n > 0:
            continue  # with arguments the caller's own pushes between the calls are not modelled here; covered by the single-call worlds
        if problem:
            ctx.bad("R02.3", construct, f"{problem}; emitted {[repr(x) for x in out if x is not other]}", f.where)
        else:
            ctx.ok("R02.3", construct, {"ops": [repr(x) for x in out if x is not other]}, f.where)
    ctx.note_worlds = worlds
    ctx.require_min("R02.3", 100)



# ------------------------------------------------------------------------------------------
# R02.1 / R02.2: symbolic evaluation of SubroutineEval.evaluate / __proto on abstract subroutines
from sa.minieval import Rec, Raised, Closure, model_ctor_fields  # noqa: E402
import re  # noqa: E402


def _strip(x) -> str:
    return re.sub(r"#\d+", "", repr(x))


def _evaluate_world(ctx, use_fp: bool, kinds, ret: str, abi_out: bool, n_locals: int = 0, body_has_return: bool = False):
    """kinds: list of 'value' | 'ref' | 'abi' per parameter.  Returns the recorded
    SubroutineDeclaration(...) term and the arguments handed to the user's implementation."""
    model = ctx.model
    SE = model.find_class("SubroutineEval", "pyteal.ast.subroutine")
    evaluate = q.need(SE.methods.get("evaluate"), "SubroutineEval.evaluate vanished")
    n = len(kinds)
    names = [f"p{i}" for i in range(n)]
    captured = {}

    def impl(*args, **kwargs):
        captured["args"] = list(args)
        captured["kwargs"] = dict(kwargs)
        st_ = captured.get("ctx_stack") or []
        captured["impl_in_context"] = bool(st_)
        captured["impl_context_value"] = st_[-1] if st_ else None
        # the user's function allocates n_locals frame variables (abi.Uint64() etc. inside the body): under frame
        # pointers these are appended to the local types of the proto that is current while the body is built
        proto = captured["impl_context_value"]
        if n_locals and isinstance(proto, Rec) and proto.is_call("Proto"):
            layout = proto.kwargs.get("mem_layout")
            q.need(isinstance(layout, Rec) and layout.is_call("ProtoStackLayout") and isinstance(layout.args[1], list), "Proto's mem_layout is not ProtoStackLayout(args, locals, ...)")
            layout.args[1].extend([TT.attrs["uint64"]] * n_locals)
            captured["allocated"] = n_locals
        return body

    body = Sym("user-body", attrs={"trace": "trace"}, methods={"type_of": lambda: TT.attrs["none" if (abi_out or ret == "none") else ret], "has_return": lambda: body_has_return})
    TT = Sym("TealType", attrs={k: Rec("name", f"TealType.{k}") for k in ("none", "uint64", "bytes", "anytype")})

    def spec(name):
        def new_instance():
            # where an ABI value lives is decided by the proto that is current when it is created
            st_ = captured.get("ctx_stack") or []
            captured.setdefault("instance_contexts", {})[name] = (bool(st_), st_[-1] if st_ else None)
            return Sym(f"abi-instance:{name}", attrs={"_stored_value": Rec("name", f"scratch-storage-of:{name}")})

        return Sym(f"spec:{name}", methods={"new_instance": new_instance, "storage_type": lambda: TT.attrs["uint64"]})

    out_spec = spec("output")
    subroutine = Sym(
        "subroutine",
        attrs={
            "by_ref_args": {nm for nm, k in zip(names, kinds) if k == "ref"},
            "abi_args": {nm: spec(nm) for nm, k in zip(names, kinds) if k == "abi"},
            "expected_arg_types": [Rec("name", "Expr") if k == "value" else Rec("name", "ScratchVar") if k == "ref" else spec("t") for k in kinds],
            "has_abi_output": abi_out,
            "output_kwarg": ({"output": out_spec} if abi_out else {}),
            "return_type": TT.attrs[ret],
            "implementation": impl,
            "stack_frames": Sym("frames", methods={"reframe": lambda *a: None}),
        },
        methods={"arguments": lambda: list(names), "argument_count": lambda: n, "name": lambda: "sub"},
    )

    me_holder = {}

    def interp(fi):
        return lambda *a, **kw: me_holder["me"].call_def(fi.node, list(a), kw, {})

    SE_sym = Sym("SubroutineEval", attrs={"_current_proto": None}, methods={})
    for nm, fi in SE.methods.items():
        if nm != "evaluate":
            SE_sym.methods[nm] = interp(fi)
            SE_sym.methods[f"_SubroutineEval{nm}" if nm.startswith("__") else nm] = interp(fi)
    OK = model.find_class("OutputKwArgInfo", "pyteal.ast.subroutine")
    OK_sym = Sym("OutputKwArgInfo", methods={"from_dict": interp(OK.methods["from_dict"]), "__call__": lambda name, abi_type: Sym("OutputKwArgInfo()", attrs={"name": name, "abi_type": abi_type})})
    self_sym = Sym("self", attrs={"use_frame_pt": use_fp}, methods=dict(SE_sym.methods))
    self_sym.methods["var_n_loaded_method"] = SE_sym.methods["var_n_loaded_fp" if use_fp else "var_n_loaded_scratch"]
    self_sym.methods["__proto"] = SE_sym.methods["__proto"]

    def oracle(e, me):
        t = u(e)
        if t == "TealType":
            return TT
        if t == "SubroutineEval":
            return SE_sym
        if t == "OutputKwArgInfo":
            return OK_sym
        if isinstance(e, ast.Call) and u(e.func) == "_frame_pointer_context" and len(e.args) == 1:
            val = me.ev(e.args[0])
            captured.setdefault("ctx", []).append(val)
            stack = captured.setdefault("ctx_stack", [])
            return Sym("frame-pointer-context", methods={"__enter__": lambda: (stack.append(val), val)[1], "__exit__": lambda *a: stack.pop()})
        raise Unknown()

    def setup(me):
        me_holder["me"] = me
        me.isinstance_hook = lambda v, cname: (True if (v is body and cname == "Expr") else None)
        me.ctor_fields = model_ctor_fields(model)

    val, me = run_function(evaluate.node, {"self": self_sym, "subroutine": subroutine}, oracle, evaluate.fq, permissive=True, setup=setup)
    return val, captured, me


def r02_2_convention(ctx):
    ctx.rule("R02.2", "prologue and argument binding: parameter i is bound to the i-th pushed argument in both conventions (scratch: stores in reverse order; frame pointers: frame index i - argc), the ABI output lives in frame cell 0, proto declares (argc, callee-leaves-a-value)")
    shapes = [[], ["value"], ["value", "value"], ["value", "ref"], ["ref", "value", "abi"], ["abi", "value", "value"], ["value", "abi", "ref", "value"], ["ref", "ref"], ["ref", "value", "ref"], ["abi", "ref", "ref", "ref"]]
    if ctx.tier == "thorough":
        shapes = [list(p) for k in range(0, 5) for p in itertools.product(["value", "ref", "abi"], repeat=k)]
    f = ctx.model.find_func("SubroutineEval.evaluate", "pyteal.ast.subroutine")
    ctx.analysed(f.fq, "pyteal.ast.subroutine.SubroutineEval.__proto", "pyteal.ast.subroutine.SubroutineEval.var_n_loaded_fp", "pyteal.ast.subroutine.SubroutineEval.var_n_loaded_scratch")
    for use_fp in (False, True):
        for kinds in shapes:
            for ret, abi_out in (("none", False), ("uint64", False), ("none", True)):
                n = len(kinds)
                construct = f"evaluate[{'fp' if use_fp else 'scratch'},{'/'.join(kinds) or 'no-params'},{'abi-output' if abi_out else ret}]"
                try:
                    val, cap, me = _evaluate_world(ctx, use_fp, kinds, ret, abi_out)
                except Raised as r:
                    ctx.bad("R02.2", construct, f"evaluate raises {r.exc_text} for this well-formed subroutine", f.where)
                    continue
                q.need(isinstance(val, Rec) and val.is_call("SubroutineDeclaration") and len(val.args) >= 2, f"{f.fq}: result is not SubroutineDeclaration(subroutine, body, deferred) but {val!r}")
                seq = val.args[1]
                q.need(isinstance(seq, Rec) and seq.is_call("Seq") and isinstance(seq.args[0], list), f"{f.fq}: declaration body is not Seq([...])")
                ops = seq.args[0]
                deferred = val.args[2] if len(val.args) > 2 else val.kwargs.get("deferred_expr")
                problems = []
                loaded = cap.get("args")
                if loaded is None or len(loaded) != n:
                    problems.append(f"the implementation receives {0 if loaded is None else len(loaded)} positional arguments for {n} parameters")
                    loaded = loaded or []
                # --- the body is built with the right "current proto": the routine's own under frame pointers, none (explicitly
                # cleared) under the scratch convention - ABI values created by the body take their storage from it
                if not cap.get("impl_in_context"):
                    problems.append("the user's function is called outside any _frame_pointer_context: an evaluation that is itself nested in a frame-pointer routine's evaluation would give the body's ABI values frame cells of that other routine")
                else:
                    cv = cap.get("impl_context_value")
                    if use_fp and not (isinstance(cv, Rec) and cv.is_call("Proto")):
                        problems.append(f"under frame pointers the body must be built with the routine's proto current; it is built with {_strip(cv)}")
                    if not use_fp and cv is not None:
                        problems.append(f"under the scratch convention the body must be built with no proto current; it is built with {_strip(cv)}")
                # --- the output value of an ABI routine is created under the same discipline: under the scratch convention with
                # no proto current (the evaluation may be nested in a frame-pointer routine's evaluation, whose frame it must not use)
                oc = (cap.get("instance_contexts") or {}).get("output")
                if abi_out and oc is not None and not use_fp:
                    if not oc[0]:
                        problems.append("under the scratch convention the output value is created outside any _frame_pointer_context: created while a frame-pointer routine is being evaluated it would live in that routine's frame")
                    elif oc[1] is not None:
                        problems.append(f"under the scratch convention the output value is created with {_strip(oc[1])} current instead of no proto")
                # --- body: prologue then the user body last
                if not ops or not (isinstance(ops[-1], Sym) and ops[-1].name == "user-body"):
                    problems.append("the user's body is not the last element of the routine")
                prologue = ops[:-1]
                leaves = abi_out or ret != "none"
                if not use_fp:
                    # every parameter has a scratch var; stores in reverse parameter order
                    var_of = []
                    for i, (k, la) in enumerate(zip(kinds, loaded)):
                        if k == "value":
                            # loaded = <ScratchVar#k(...)>.load()
                            if isinstance(la, Rec) and la.kind == "call" and la.parts[0].kind == "attr" and la.parts[0].parts[1] == "load":
                                var_of.append(repr(la.parts[0].parts[0]))
                            else:
                                problems.append(f"parameter {i} (by value) is bound to {_strip(la)}, not to <var>.load()")
                                var_of.append("?")
                        elif k == "ref":
                            var_of.append(repr(la))
                        else:
                            if isinstance(la, Sym) and "_stored_value" in la.attrs:
                                var_of.append(repr(la.attrs["_stored_value"]))
                            else:
                                problems.append(f"parameter {i} (ABI) is bound to {_strip(la)}")
                                var_of.append("?")
                    want = [f"{v}.slot.store()" for v in reversed(var_of)]
                    got = [repr(x) for x in prologue]
                    if got != want:
                        problems.append(f"scratch prologue is {[_strip(x) for x in prologue]} but the arguments are on the stack in declaration order, so the stores must be {[re.sub(r'#\\d+', '', w) for w in want]}")
                    if len(set(var_of)) != len(var_of):
                        problems.append("two parameters share a variable")
                    if abi_out:
                        okd = isinstance(deferred, Rec) and repr(deferred).endswith(".load()") and "scratch-storage-of:output" in repr(deferred)
                        if not okd:
                            problems.append(f"ABI output must be loaded before every retsub (deferred expression is {_strip(deferred)})")
                        if "output" not in cap.get("kwargs", {}):
                            problems.append("the implementation does not receive the `output` keyword")
                    elif deferred is not None:
                        problems.append(f"unexpected deferred expression {_strip(deferred)}")
                else:
                    proto = prologue[0] if prologue else None
                    if not (isinstance(proto, Rec) and proto.is_call("Proto")):
                        problems.append(f"frame-pointer routine does not start with its proto (starts with {_strip(proto)})")
                    else:
                        pa = proto.args
                        if not (len(pa) >= 2 and pa[0] == n and pa[1] == (1 if leaves else 0)):
                            problems.append(f"proto declares {pa[:2]} but the routine takes {n} argument(s) and leaves {1 if leaves else 0} value(s)")
                        layout = proto.kwargs.get("mem_layout")
                        if isinstance(layout, Rec) and layout.is_call("ProtoStackLayout"):
                            la_ = layout.args
                            if not (isinstance(la_[0], list) and len(la_[0]) == n):
                                problems.append(f"proto layout lists {len(la_[0]) if isinstance(la_[0], list) else '?'} argument types for {n} arguments")
                            if not (isinstance(la_[1], list) and len(la_[1]) == (1 if abi_out else 0) and la_[2] == (1 if abi_out else 0)):
                                problems.append(f"proto layout locals {la_[1]!r}/{la_[2]!r}: the ABI output (and nothing else) must be pre-allocated as frame cell 0")
                    # loaded args: FrameVar(proto, i - n)
                    ref_stores = []
                    for i, (k, la) in enumerate(zip(kinds, loaded)):
                        want_idx = i - n
                        if k == "value":
                            t = _strip(la)
                            m = re.fullmatch(r"FrameVar\(.*, (-?\d+)\)\.load\(\)", t)
                            if not m or int(m.group(1)) != want_idx:
                                problems.append(f"parameter {i} (by value) is bound to {t}; argument {i} of {n} lives at frame index {want_idx}")
                        elif k == "abi":
                            sv = la.attrs.get("_stored_value") if isinstance(la, Sym) else None
                            t = _strip(sv)
                            m = re.fullmatch(r"FrameVar\(.*, (-?\d+)\)", t)
                            if not m or int(m.group(1)) != want_idx:
                                problems.append(f"parameter {i} (ABI) is stored in {t}; argument {i} of {n} lives at frame index {want_idx}")
                        else:
                            ref_stores.append((i, repr(la)))
                    want = [(v, i - n) for i, v in reversed(ref_stores)]
                    got = []
                    for x in prologue[1:]:
                        m = re.fullmatch(r"(.*)\.slot\.store\(FrameVar#\d+\(.*, (-?\d+)\)\.load\(\)\)", repr(x))
                        if m:
                            got.append((m.group(1), int(m.group(2))))
                        else:
                            problems.append(f"unrecognised prologue element {_strip(x)}")
                    if sorted(got) != sorted(want):
                        problems.append(f"by-reference parameters are initialised from frame indices {[(_strip(a), b) for a, b in got]}; expected {[(re.sub(r'#\\d+', '', a), b) for a, b in want]}")
                    if abi_out:
                        ov = cap.get("kwargs", {}).get("output")
                        sv = ov.attrs.get("_stored_value") if isinstance(ov, Sym) else None
                        if not re.fullmatch(r"FrameVar\(.*, 0\)", _strip(sv)):
                            problems.append(f"ABI output is stored in {_strip(sv)}; it must be frame cell 0 (the cell proto's single return value is taken from)")
                        if deferred is not None:
                            problems.append(f"unexpected deferred expression {_strip(deferred)} for an ABI-output routine under frame pointers")
                    elif deferred is not None:
                        problems.append(f"unexpected deferred expression {_strip(deferred)} (no frame locals exist in this routine)")
                ctx.check(not problems, "R02.2", construct, "; ".join(problems), f.where, fact={"prologue": [_strip(x) for x in prologue], "bound": [_strip(x) for x in loaded]})
    # frame locals allocated by the body: the returned value must be moved to frame cell 0 before every retsub
    for kinds in ([], ["value"], ["value", "ref"]):
        for ret, abi_out in (("none", False), ("uint64", False), ("bytes", False), ("none", True)):
            for n_locals in (0, 1, 3):
                for body_ret in (False, True):
                    construct = f"evaluate[fp,{'/'.join(kinds) or 'no-params'},{'abi-output' if abi_out else ret},{n_locals} body local(s),body {'always returns' if body_ret else 'falls through'}]"
                    try:
                        val, cap, me = _evaluate_world(ctx, True, kinds, ret, abi_out, n_locals, body_ret)
                    except Raised as r:
                        ctx.bad("R02.2", construct, f"evaluate raises {r.exc_text}", f.where)
                        continue
                    deferred = val.args[2] if len(val.args) > 2 else val.kwargs.get("deferred_expr")
                    q.need(n_locals == 0 or cap.get("allocated") == n_locals, f"{f.fq}: the body is no longer built inside _frame_pointer_context(proto)")
                    need_bury = (not abi_out) and ret != "none" and n_locals > 0
                    if need_bury:
                        t = _strip(deferred)
                        ok = isinstance(deferred, Rec) and deferred.is_call("FrameBury") and len(deferred.args) >= 2 and deferred.args[1] == 0
                        why = f"a value-returning routine with {n_locals} frame local(s) must move its result to frame cell 0 before every retsub (retsub hands back cell 0, i.e. the first local); deferred expression is {t}"
                    else:
                        ok = deferred is None
                        why = f"unexpected deferred expression {_strip(deferred)}"
                    ctx.check(ok, "R02.2", construct, why, f.where, fact={"deferred": _strip(deferred)})
    ctx.require_min("R02.2", 80)


def r02_1_call_site(ctx):
    ctx.rule("R02.1", "call site: arguments are pushed in declaration order and followed by callsub; the call's declared type says a value is left exactly when the callee leaves one (return type != none or ABI output)")
    c = ctx.model.find_class("SubroutineCall", "pyteal.ast.subroutine")
    teal = q.need(c.methods.get("__teal__"), "SubroutineCall.__teal__ vanished")
    ctx.analysed(teal.fq)
    fo = q.one([x for x in q.calls_named(teal.node, "FromOp", into_nested=False)], "SubroutineCall.__teal__: FromOp")
    star = [a for a in fo.args if isinstance(a, ast.Starred)]
    ok = len(star) == 1 and isinstance(star[0].value, ast.ListComp) and len(star[0].value.generators) == 1 and u(star[0].value.generators[0].iter) == "self.args" and not star[0].value.generators[0].ifs and len(fo.args) == 3
    ctx.check(ok, "R02.1", "SubroutineCall.__teal__:args-in-order", f"the stack operands of callsub must be exactly one expression per element of self.args, in order; found `{u(fo)}`", f"{teal.module.rel}:{fo.lineno}", fact={"call": u(fo)})
    opx = q.rtext(teal.node, fo.args[1])
    ctx.check(opx.replace(" ", "") == "TealOp(self,Op.callsub,self.subroutine)", "R02.1", "SubroutineCall.__teal__:callsub-target", f"the op must be callsub on self.subroutine, found {opx}", f"{teal.module.rel}:{fo.lineno}", fact={"op": opx})
    # handle_arg is value-preserving per kind: ScratchVar -> index(), Expr -> itself, ABI -> stored load
    ha = [x for x in ctx.model.modules[teal.module.name].all_funcs if x.qualname.endswith("SubroutineCall.__teal__.<locals>.handle_arg")]
    ha = q.one(ha, "handle_arg")
    table = {}
    for st in walk_local(ha.node):
        if isinstance(st, ast.Assign) and u(st.targets[0]) == "ret_expr":
            gs = [t for t, p in q.nguards(st) if p and t.startswith("isinstance(arg, ")]
            if gs:
                table[gs[-1][len("isinstance(arg, "):-1]] = u(st.value)
    want = {"ScratchVar": "arg.index()", "Expr": "arg", "abi.BaseType": "arg._stored_value.load()"}
    ctx.check(table == want, "R02.1", "SubroutineCall.__teal__:argument-forms", f"argument forms {table} differ from {want}", ha.where, fact=table)
    # order of the isinstance tests: ScratchVar is tested before Expr?  ScratchVar is not an Expr, so order is free.
    # type_of: abstract evaluation over the three callee kinds
    tof = q.need(c.methods.get("type_of"), "SubroutineCall.type_of vanished")
    ctx.analysed(tof.fq)
    OK = ctx.model.find_class("OutputKwArgInfo", "pyteal.ast.subroutine")
    for ret, abi in (("none", False), ("uint64", False), ("bytes", False), ("none", True)):
        holder = {}
        spec = Sym("spec", methods={"storage_type": lambda: "storage-type-of-output"})
        sub = Sym("callee", attrs={"return_type": ret, "output_kwarg": ({"output": spec} if abi else {}), "has_abi_output": abi})
        selfs = Sym("self", attrs={"subroutine": sub, "output_kwarg": (Sym("oki", attrs={"abi_type": spec, "name": "output"}) if abi else None)})
        OK_sym = Sym("OutputKwArgInfo", methods={"from_dict": lambda d: holder["me"].call_def(OK.methods["from_dict"].node, [d], {}, {}), "__call__": lambda name, abi_type: Sym("oki", attrs={"name": name, "abi_type": abi_type})})

        def oracle(e, me, OK_sym=OK_sym):
            if u(e) == "OutputKwArgInfo":
                return OK_sym
            raise Unknown()

        val, me = run_function(tof.node, {"self": selfs}, oracle, tof.fq, setup=lambda me: holder.__setitem__("me", me))
        leaves = abi or ret != "none"
        declared_value = val != "none"
        want_v = "storage-type-of-output" if abi else ret
        ctx.check(val == want_v, "R02.1", f"SubroutineCall.type_of[{'abi-output' if abi else ret}]", f"a call to a routine that {'leaves' if leaves else 'does not leave'} a value declares type {val!r}; expected {want_v!r}", tof.where, fact={"declared": repr(val)})
    ctx.require_min("R02.1", 7)


def _recursive_path_on(ctx, f, name, g, reach):
    """R02.4p: find_recursive_path (the call path quoted by the by-reference-in-recursion TealInputError) on one call graph, from
    every routine: it terminates (a depth-first search over at most five routines; running out of host stack or of the evaluation
    budget is a non-terminating search, i.e. a RecursionError instead of the PyTeal error), returns [] exactly when the routine is
    on no cycle, and otherwise a path of call edges from the routine back to itself."""
    from sa.model import AnalysisError as _AE

    for k in g:
        construct = f"find_recursive_path[{name} from {k!r}]"
        try:
            val, _ = run_function(f.node, {"subroutine_graph": g, "subroutine": k}, lambda e, me: (_ for _ in ()).throw(Unknown()), f.fq)
        except RecursionError:
            ctx.bad("R02.4p", construct, "the search does not terminate on this call graph (unbounded recursion: compilation would die with RecursionError instead of the TealInputError)", f.where)
            continue
        except _AE as e:
            if "budget" not in str(e):
                raise
            ctx.bad("R02.4p", construct, "the search does not terminate on this call graph (evaluation budget of a five-routine search exceeded)", f.where)
            continue
        on_cycle = reach(g, k, k)
        if not on_cycle:
            ok = val == []
        else:
            ok = isinstance(val, list) and len(val) >= 2 and val[0] is k and val[-1] is k and all(b in g[a] for a, b in zip(val, val[1:]))
        ctx.check(ok, "R02.4p", construct, f"returns {val!r}; the routine is {'on a cycle: a path of call edges from it back to itself is expected' if on_cycle else 'on no cycle: [] is expected'}", f.where, fact={"path": repr(val)})


def r02_4_recursion_guards(ctx):
    ctx.rule("R02.4", "re-entrancy: a callee is a re-entry point exactly when a call path leads from it back to the caller; by-reference parameters in a recursive cycle are rejected before any spill; spilled slots are the routine's local slots")
    gs = ctx.model.find_func("graph_search", "pyteal.compiler.subroutines")
    frp = ctx.model.find_func("findRecursionPoints", "pyteal.compiler.subroutines")
    frpath = ctx.model.find_func("find_recursive_path", "pyteal.compiler.subroutines")
    ctx.analysed(gs.fq, frp.fq, frpath.fq)
    # evaluate findRecursionPoints on small call graphs and compare with reachability computed here
    nodes = [Sym(n) for n in "ABCD"]
    A, B, C, D = nodes
    graphs = {
        "self": {A: {A}},
        "mutual": {A: {B}, B: {A}},
        "chain-no-cycle": {A: {B}, B: {C}, C: set()},
        "cycle-of-3-plus-tail": {A: {B, D}, B: {C}, C: {A}, D: set()},
        "two-callees-one-reenters": {A: {B, C}, B: {A}, C: {D}, D: set()},
        "inner-cycle-not-through-caller": {A: {B}, B: {C}, C: {B}},
    }

    def reach(g, s, t):
        seen, st = set(), list(g[s])
        while st:
            x = st.pop()
            if x in seen:
                continue
            seen.add(x)
            if x is t:
                return True
            st += list(g[x])
        return False

    # every call graph on three routines, and seeded samples of graphs on four and five
    import random

    rnd = random.Random(20240922)
    tri = nodes[:3]
    for bits in range(1 << 9):
        graphs[f"3-node #{bits}"] = {a: {b for j, b in enumerate(tri) if bits >> (3 * i + j) & 1} for i, a in enumerate(tri)}
    E = Sym("E")
    for n, count in ((4, 150 if ctx.tier == "quick" else 3000), (5, 80 if ctx.tier == "quick" else 1500)):
        ns = (nodes + [E])[:n]
        for t in range(count):
            dens = rnd.choice((0.2, 0.35, 0.5))
            graphs[f"{n}-node sample {t}"] = {a: {b for b in ns if rnd.random() < dens} for a in ns}
    for name, g in graphs.items():
        def resolver(nm, gs=gs):
            return gs.node if nm == "graph_search" else None

        val, me = run_function(frp.node, {"subroutineGraph": g}, lambda e, me: (_ for _ in ()).throw(Unknown()), frp.fq, resolver=resolver)
        want = {k: {c for c in g[k] if reach(g, c, k)} for k in g}
        got = {k: set(v) for k, v in val.items()} if isinstance(val, dict) else None
        _recursive_path_on(ctx, frpath, name, g, reach)
        ctx.check(got == want, "R02.4", f"findRecursionPoints[{name}]", f"re-entry points {got} differ from graph reachability {want}", frp.where, fact={"graph": {repr(k): sorted(map(repr, v)) for k, v in g.items()}, "reentry": {repr(k): sorted(map(repr, v)) for k, v in (got or {}).items()}})
    # by-ref rejection dominates the spill loop
    f = ctx.model.find_func("spillLocalSlotsDuringRecursion", "pyteal.compiler.subroutines")
    raises = [r for r in q.raises_of(f.node) if q.raise_type(r) == "TealInputError"]
    loops = [n for n in f.node.body if isinstance(n, ast.For) and any(isinstance(x, ast.Call) and q.last_name(x) == "TealOp" for x in ast.walk(n))]
    ok = bool(raises) and bool(loops) and all(r.lineno < loops[0].lineno for r in raises)
    ctx.check(ok, "R02.4", "spill:byref-rejected-first", "the by-reference recursion check (TealInputError) must precede the spill rewriting", f.where, fact={"raises": [r.lineno for r in raises]})
    # the rejection condition: a routine with re-entry points and by_ref_args
    conds = [n for n in walk_local(f.node) if isinstance(n, ast.If) and "by_ref_args" in u(n.test)]
    loopt = [a.target for a in q.ancestors(conds[0]) if isinstance(a, ast.For)] if conds else []
    kv = [u(e) for e in loopt[0].elts] if loopt and isinstance(loopt[0], ast.Tuple) and len(loopt[0].elts) == 2 else ["k", "v"]
    ctx.check(len(conds) == 1 and isinstance(conds[0].test, ast.BoolOp) and isinstance(conds[0].test.op, ast.And) and sorted(u(v) for v in conds[0].test.values) == sorted([f"{kv[0]}.by_ref_args", kv[1]]), "R02.4", "spill:byref-condition", f"a routine is rejected iff it has re-entry points and by-reference parameters; found `{u(conds[0].test) if conds else None}`", f.where, fact={})
    # wiring: the spill pass runs for every compilation (both calling conventions keep routine-local scratch variables), on the
    # flattened routines, before subroutine references are resolved
    ci = ctx.model.find_func("Compilation._compile_impl", "pyteal.compiler.compiler")
    sp = q.one(q.calls_named(ci.node, "spillLocalSlotsDuringRecursion", into_nested=False), "_compile_impl: spillLocalSlotsDuringRecursion call")
    rs = q.one(q.calls_named(ci.node, "resolveSubroutines", into_nested=False), "_compile_impl: resolveSubroutines call")
    ssb = q.one(q.calls_named(ci.node, "sort_subroutine_blocks", into_nested=False), "_compile_impl: sort_subroutine_blocks call")
    branchy = q.nguards(sp, ("branch",))
    ctx.check(not branchy and ssb.lineno < sp.lineno < rs.lineno, "R02.4", "_compile_impl:spill-always", f"the recursion spill must run unconditionally between sort_subroutine_blocks and resolveSubroutines; it runs under {branchy}", f"{ci.module.rel}:{sp.lineno}", fact={"guards": branchy})
    ctx.require_min("R02.4", 700)


def _tealtype_sym():
    return Sym("TealType", attrs={k: f"TealType.{k}" for k in ("none", "uint64", "bytes", "anytype")})


def ref_types_match(a: str, b: str) -> bool:
    """reference: `none` matches only `none`; `anytype` matches every value type; otherwise equality"""
    if (a == "none") != (b == "none"):
        return False
    if a == "none":
        return True
    return a == "anytype" or b == "anytype" or a == b


def r02_5_return(ctx):
    ctx.rule("R02.5", "Return lowering decision table: inside a routine `retsub` with exactly the declared value (none: no value allowed; typed: a value of a matching type required), in the main program `return` with a uint64-compatible value; anything else is refused with TealCompileError")
    c = ctx.model.find_class("Return", "pyteal.ast.return_")
    teal = q.need(c.methods.get("__teal__"), "Return.__teal__ vanished")
    tm = ctx.model.find_func("types_match", "pyteal.types")
    ctx.analysed(teal.fq, tm.fq)
    TT = _tealtype_sym()
    OpS = _op_sym(ctx.model)
    types = ["none", "uint64", "bytes", "anytype"]
    # the type-compatibility relation itself
    for a in types:
        for b in types:
            val, _me = run_function(tm.node, {"type1": TT.attrs[a], "type2": TT.attrs[b]}, lambda e, me: TT if u(e) == "TealType" else (_ for _ in ()).throw(Unknown()), tm.fq)
            ctx.check(bool(val) == ref_types_match(a, b), "R02.5", f"types_match[{a},{b}]", f"types_match({a}, {b}) = {val}; the reference relation says {ref_types_match(a, b)}", tm.where, fact={"value": bool(val)})
    for where_ in ("main", "none", "uint64", "bytes", "anytype"):
        for vt in (None, "uint64", "bytes", "anytype", "none"):
            sub = None if where_ == "main" else Sym("current", attrs={"return_type": TT.attrs[where_]})
            value = None if vt is None else Sym("value", methods={"type_of": lambda vt=vt: TT.attrs[vt]})
            selfs = Sym("self", attrs={"value": value})
            options = Sym("options", attrs={"currentSubroutine": sub, "version": 10})

            def oracle(e, me):
                t = u(e)
                if t == "TealType":
                    return TT
                if t == "Op":
                    return OpS
                if isinstance(e, ast.Call) and u(e.func) == "verifyProgramVersion":
                    return None
                raise Unknown()

            construct = f"Return[{where_},value={vt}]"
            if where_ == "main":
                legal = vt is not None and ref_types_match(vt, "uint64")
                want_op, want_args = "return_", 1
            elif where_ == "none":
                legal = vt is None
                want_op, want_args = "retsub", 0
            else:
                legal = vt is not None and ref_types_match(vt, where_)
                want_op, want_args = "retsub", 1
            try:
                val, me = run_function(teal.node, {"self": selfs, "options": options}, oracle, teal.fq, permissive=True, resolver=lambda nm: tm.node if nm == "types_match" else None)
            except Raised as r:
                ctx.check((not legal) and "TealCompileError" in r.exc_text, "R02.5", construct, f"refused with {r.exc_text[:60]} although this Return is legal" if legal else f"refused with {r.exc_text[:60]} instead of TealCompileError", teal.where, fact={"outcome": "raises " + r.exc_text[:40]})
                continue
            if not legal:
                ctx.bad("R02.5", construct, f"an illegal Return ({'no value' if vt is None else 'value of type ' + vt} {'in the main program' if where_ == 'main' else 'in a routine declared ' + where_}) is accepted and lowered to {_strip(val)}", teal.where)
                continue
            ok = isinstance(val, Rec) and val.is_call("FromOp") and len(val.args) == 2 + want_args and isinstance(val.args[1], OpVal) and val.args[1].op == want_op and (want_args == 0 or val.args[2] is value)
            ctx.check(ok, "R02.5", construct, f"lowered to {_strip(val)}; expected FromOp(options, {want_op}{', value' if want_args else ''})", teal.where, fact={"lowered": _strip(val)})
    ctx.require_min("R02.5", 40)


def r02_6_recursive_abi_probe(ctx):
    ctx.rule("R02.6", "a recursive ABI-returning subroutine can be built: ReturnedValue.store_into probes the callee's declaration while that declaration is still being evaluated (store_into -> get_declaration_by_option -> evaluate -> the body -> store_into ...), so the probe ends in the interpreter's RecursionError; the handler around the probe must cover it and the probe result must be optional afterwards")
    rv = ctx.model.find_class("ReturnedValue", "pyteal.ast.abi.type")
    f = q.need(rv.methods.get("store_into"), "ReturnedValue.store_into vanished")
    ctx.analysed(f.fq)
    probes = q.calls_named(f.node, "get_declaration_by_option", into_nested=False)
    if not probes:
        ctx.ok("R02.6", "store_into:no-probe", "the declaration is no longer probed at call-construction time", f.where)
        return
    for c in probes:
        tries = [a for a in q.ancestors(c) if isinstance(a, ast.Try) and any(c in list(ast.walk(b)) for b in a.body)]
        covers = False
        seen = []
        for t in tries:
            for h in t.handlers:
                names = [None] if h.type is None else [u(x) for x in (h.type.elts if isinstance(h.type, ast.Tuple) else [h.type])]
                seen += names
                if any(n is None or n.split(".")[-1] in ("Exception", "BaseException", "RuntimeError", "RecursionError") for n in names):
                    # the handler must not re-raise
                    covers = covers or not any(isinstance(x, ast.Raise) for x in ast.walk(h))
        ctx.check(covers, "R02.6", "store_into:probe-handler", f"the probe `{u(c)}` is guarded by handlers for {seen or 'nothing'}; for a recursive subroutine it fails with RecursionError, which must be absorbed here (otherwise no recursive ABI subroutine with an output can be built)", f"{f.module.rel}:{c.lineno}", fact={"handlers": seen})
    ctx.require_min("R02.6", 1)


def run(ctx):  # noqa: F811
    r02_3_spill(ctx)
    r02_2_convention(ctx)
    r02_1_call_site(ctx)
    r02_4_recursion_guards(ctx)
    from rules import c03 as _c03b

    _c03b.r03_1b_slot_classes(ctx)  # which slots are a routine's own (spilled around re-entrant calls) and which are shared (never spilled)
    r02_5_return(ctx)
    r02_6_recursive_abi_probe(ctx)
    from rules.lowering_sem import r04_9_whole_program
    from rules import c10 as _c10, c04 as _c04

    _c04.r04_1_op_table(ctx)  # the ops of both conventions (proto, frame_dig, frame_bury, callsub, retsub, cover ...) carry the AVM's modes and versions (shared with C04)
    _c04.r04_5_final_sweep(ctx)  # a routine that needs an op the version lacks (loads / stores for by-reference parameters below v5) is refused (shared with C04)
    _c04.r04_8_has_return(ctx)  # a routine gets its closing retsub unless every path of its body returns (shared with C04)
    _c10.r10_1_assignment(ctx)  # a callee's parameter / output variable never shares an index with a caller's variable (shared with C10)

    r04_9_whole_program(ctx)  # every callsub reaches the routine it names and every routine returns to its caller (shared with C04)
    return (
        "Bounded partial evaluation of the spill/restore builder pushed through an abstract stack machine (all strategies x arities x caller/callee kinds); "
        "abstract evaluation of SubroutineEval.evaluate/__proto over parameter-kind shapes in both conventions (argument binding, frame indices, proto, ABI output cell, deferred load); "
        "call-site operand order and declared type; recursion-point computation compared with graph reachability; by-reference recursion rejected before spilling. "
        "Values under recursion at run time are not decided."
    )
