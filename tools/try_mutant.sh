#!/bin/bash
# usage: tools/try_mutant.sh <patch.diff> <PROP> [more props...]
# applies the patch to /repo, runs the named checks (no evidence written), reverts. Prints one line per check.
P="$1"; shift
cd /repo || exit 2
if ! git diff --quiet; then echo "REPO DIRTY - refusing"; exit 2; fi
if ! git apply --check "$P" 2>/dev/null; then echo "PATCH-DOES-NOT-APPLY $P"; exit 3; fi
git apply "$P"
cd /verif
for prop in "$@"; do
  out=$(/venv/bin/python -m sa.check "$prop" --no-evidence 2>&1); rc=$?
  echo "== $prop exit=$rc"
  echo "$out" | grep -E "^  R|ANALYSIS-ERROR" | cut -c1-400 | head -6
done
git -C /repo checkout -- . 
