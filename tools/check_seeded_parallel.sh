#!/bin/bash
# usage: tools/check_seeded_parallel.sh [-j N] [id-glob]     (default: every seeded/*; e.g. 'C*-r4*')
# Like check_seeded.sh but never touches /repo: every change is applied to its own scratch worktree of /repo's HEAD
# under ${TMPDIR:-/tmp} and the target property's check runs there with --root; the worktree is removed afterwards.
J=8; [ "$1" = "-j" ] && { J=$2; shift 2; }
GLOB="${1:-*}"
one() {
  id=$1; prop=${id%%-*}; p=/verif/seeded/$id/patch.diff
  wt=$(mktemp -d ${TMPDIR:-/tmp}/seedchk.XXXXXX); rmdir $wt
  git -C /repo worktree add -q --detach $wt HEAD 2>/dev/null || { echo "$id WORKTREE-FAILED"; return; }
  if git -C $wt apply $p 2>/dev/null; then
    out=$(cd /verif && /venv/bin/python -m sa.check $prop --no-evidence --root $wt 2>&1); rc=$?
    rule=$(echo "$out" | grep -E "^  R" | head -1 | awk '{print $1" "$2}')
    if [ $rc = 1 ]; then echo "$id CAUGHT by $prop: $rule"; else echo "$id MISSED by $prop (exit=$rc) $(echo "$out" | grep ANALYSIS | head -1 | cut -c1-120)"; fi
  else echo "$id NO-APPLY"; fi
  git -C /repo worktree remove --force $wt 2>/dev/null; rm -rf $wt
}
export -f one
cd /verif/seeded && ls -d $GLOB | xargs -P $J -I{} bash -c 'one {}' | sort
git -C /repo worktree prune
