#!/usr/bin/env python3
"""Run the repository's baseline test command and compare with /root/.vp/BASELINE.json's stable_pass set.
usage: baseline_check.py [repo_dir]   (default /repo)"""
import json, os, subprocess, sys, tempfile, xml.etree.ElementTree as ET

repo = sys.argv[1] if len(sys.argv) > 1 else "/repo"
base = json.load(open("/root/.vp/BASELINE.json"))
stable = set(base["stable_pass"])
out = tempfile.mktemp(suffix=".xml")
cmd = f"cd {repo} && /venv/bin/python -m pytest -ra -q -p no:cacheprovider --timeout=900 --continue-on-collection-errors --junitxml={out} -n 8" if os.environ.get("XDIST") else f"cd {repo} && /venv/bin/python -m pytest -ra -q -p no:cacheprovider --timeout=900 --continue-on-collection-errors --junitxml={out}"
r = subprocess.run(cmd, shell=True, capture_output=True, text=True)
print(r.stdout[-600:])
passed = set()
for tc in ET.parse(out).getroot().iter("testcase"):
    ok = not any(ch.tag in ("failure", "error", "skipped") for ch in tc)
    name = f"{tc.get('classname')}::{tc.get('name')}"
    if ok:
        passed.add(name)
os.unlink(out)
missing = sorted(stable - passed)
print(f"stable_pass={len(stable)} passed_now={len(passed)} stable_now_failing={len(missing)}")
for m in missing[:40]:
    print("  REGRESSION", m)
sys.exit(1 if missing else 0)
