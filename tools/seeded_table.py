#!/usr/bin/env python3
"""usage: seeded_table.py <tag e.g. r4> <output of tools/check_seeded_parallel.sh>  -> markdown rows for DESIGN.md section 7"""
import json, os, re, sys
tag, res = sys.argv[1], sys.argv[2]
rule = {}
for line in open(res):
    m = re.match(r"(\S+) CAUGHT by \S+: (\S+)", line)
    if m:
        rule[m.group(1)] = m.group(2)
    elif line.strip():
        rule[line.split()[0]] = "**" + " ".join(line.split()[1:4]) + "**"
for d in sorted(os.listdir("/verif/seeded")):
    if f"-{tag}m" not in d:
        continue
    try:
        s = json.load(open(f"/verif/seeded/{d}/meta.json")).get("summary", "")
    except Exception:
        s = ""
    s = s.replace("|", "/").replace("\n", " ")
    print(f"| {d} | {s[:150]}{'...' if len(s) > 150 else ''} | {rule.get(d, '?')} |")
