#!/bin/bash
# usage: tools/run_twin.sh <transform> [--only substr]   -> builds the twin tree, runs all 20 checks on it (no evidence), prints verdicts, removes it
T=$1; shift
D=${TMPDIR:-/tmp}/twin_$T.$$
/venv/bin/python /verif/tools/twins_auto.py $T $D "$@" || exit 2
cd /verif
for i in $(seq -w 1 20); do echo C$i; done | xargs -P 10 -I{} sh -c "/venv/bin/python -m sa.check {} --no-evidence --root $D > $D/.chk_{}.log 2>&1; echo \"{} exit=\$?\"" | sort | tr '\n' ' '; echo
grep -h -E "^  R|ANALYSIS-ERROR" $D/.chk_*.log | cut -c1-260 | sort | uniq -c | sort -rn | head -150
if [ -n "$KEEP" ]; then echo "kept $D"; else git -C /repo worktree remove --force $D; fi
