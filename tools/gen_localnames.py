#!/usr/bin/env python3
"""Record, per function of /repo, the names of its plain local variables in binding order (sa/localnames.json).
The Model uses the table only to undo consistent renamings (see sa/canon.py); it is never part of a verdict."""
import ast, json, os, sys
sys.path.insert(0, "/verif")
from sa.canon import canonicalise, local_name_table
root = sys.argv[1] if len(sys.argv) > 1 else "/repo"
out = {}
for base in ("pyteal", "feature_gates"):
    for dp, dn, fns in os.walk(os.path.join(root, base)):
        for fn in sorted(fns):
            if not fn.endswith(".py") or fn.endswith("_test.py"):
                continue
            p = os.path.join(dp, fn)
            t = local_name_table(canonicalise(ast.parse(open(p).read())))
            if t:
                out[os.path.relpath(p, root)] = t
json.dump(out, open("/verif/sa/localnames.json", "w"), indent=0, sort_keys=True)
print(len(out), "modules,", sum(len(v) for v in out.values()), "functions")
