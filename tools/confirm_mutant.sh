#!/bin/bash
# usage: [OUTPRE=out2 TAG=r2] tools/confirm_mutant.sh <PROP> <mK>   (reads /tmp/mut/${OUTPRE:-out}_<PROP>/<mK>/, keeps as seeded/<PROP>-${TAG}<mK>)
# Confirms in a scratch worktree of /repo's HEAD: demo passes clean, fails with the patch, the suite has no new failures.
# On success copies patch.diff, demo.py, meta.json (augmented) to /verif/seeded/<PROP>-<mK>/.
PROP="$1"; MK="$2"; SRC=/tmp/mut/${OUTPRE:-out}_$PROP/$MK
WT=/tmp/mut/confirm${TAG}_${PROP}_$MK
LOG=/tmp/mut/confirm${TAG}_${PROP}_$MK.log
[ -f "$SRC/patch.diff" ] || { echo "$PROP $MK NO-PATCH"; exit 2; }
git -C /repo worktree add -q --detach "$WT" HEAD 2>/dev/null || { echo "$PROP $MK WORKTREE-FAILED"; exit 2; }
cleanup() { git -C /repo worktree remove --force "$WT" 2>/dev/null; rm -rf "$WT"; }
trap cleanup EXIT
cd "$WT"
cp "$SRC/demo.py" "$WT/_demo.py"
PYTHONPATH="$WT" timeout 600 /venv/bin/python _demo.py > "$LOG" 2>&1; c0=$?
if ! git apply --check "$SRC/patch.diff" 2>>"$LOG"; then echo "$PROP $MK PATCH-DOES-NOT-APPLY (clean demo exit=$c0)"; exit 3; fi
git apply "$SRC/patch.diff"
PYTHONPATH="$WT" timeout 600 /venv/bin/python _demo.py >> "$LOG" 2>&1; c1=$?
rm -f _demo.py
t=$(/tmp/mut/run_tests.sh "$WT" | tail -n +2 | tr '\n' ' ')
nf=$(echo "$t" | grep -o "NEW_FAILURES=[0-9]*" | cut -d= -f2)
echo "$PROP $MK demo_clean_exit=$c0 demo_patched_exit=$c1 $t"
flaky_only=1
for x in $(echo "$t" | grep -o "NEW-FAIL [^ ]*" | cut -d' ' -f2); do
  case "$x" in *sourcemap_test::test_no_regression_with_sourcemap*|*test_sourcemap_fails_because_not_enabled*|*test_many_ifs*) ;; *) flaky_only=0;; esac
done
if [ "$c0" = 0 ] && [ "$c1" != 0 ] && { [ "$nf" = 0 ] || [ "$flaky_only" = 1 ]; }; then
  D=/verif/seeded/$PROP-${TAG}$MK; mkdir -p "$D"
  cp "$SRC/patch.diff" "$SRC/demo.py" "$D/"
  /venv/bin/python - "$SRC/meta.json" "$D/meta.json" "$c0" "$c1" "$t" <<'PY'
import json,sys
try: m=json.load(open(sys.argv[1]))
except Exception: m={}
m["confirmed"]={"demo_exit_on_clean_tree":int(sys.argv[3]),"demo_exit_with_patch":int(sys.argv[4]),"suite":sys.argv[5].strip(),
  "ran":"scratch worktree of /repo HEAD: `PYTHONPATH=<wt> /venv/bin/python demo.py` before and after `git apply patch.diff`; `/venv/bin/python -m pytest -n 6 ...` compared with the always-failing baseline set (known order-dependent sourcemap_test/test_many_ifs flakes ignored)"}
json.dump(m,open(sys.argv[2],"w"),indent=1)
PY
  echo "$PROP $MK KEPT"
else
  echo "$PROP $MK REJECTED"
fi
