#!/bin/bash
# usage: tools/try_out_parallel.sh <out-prefix e.g. out5> [-j N]  -- each /tmp/mut/<pre>_Cnn/mK/patch.diff on its own scratch worktree; never touches /repo
PRE=$1; J=${3:-8}
one() {
  d=$1; prop=$(basename $(dirname $d) | sed 's/.*_//'); mk=$(basename $d)
  wt=$(mktemp -d /tmp/tryout.XXXXXX); rmdir $wt
  git -C /repo worktree add -q --detach $wt HEAD 2>/dev/null || { echo "$prop $mk WORKTREE-FAILED"; return; }
  if git -C $wt apply $d/patch.diff 2>/dev/null; then
    out=$(cd /verif && /venv/bin/python -m sa.check $prop --no-evidence --root $wt 2>&1); rc=$?
    echo "$prop $mk exit=$rc :: $(echo "$out" | grep -E "^  R|ANALYSIS" | head -1 | cut -c1-170)"
  else echo "$prop $mk NO-APPLY"; fi
  git -C /repo worktree remove --force $wt 2>/dev/null; rm -rf $wt
}
export -f one
ls -d /tmp/mut/${PRE}_C*/m[0-9] 2>/dev/null | xargs -P $J -I{} bash -c 'one {}' | sort
git -C /repo worktree prune
