#!/bin/bash
# usage: tools/try_round.sh <out-prefix e.g. out2> [PROP ...]   -- one line per mutant: caught / MISSED / error
PRE="$1"; shift
PROPS="$@"
[ -z "$PROPS" ] && PROPS=$(ls -d /tmp/mut/${PRE}_C* 2>/dev/null | sed "s/.*${PRE}_//")
for P in $PROPS; do
  for d in /tmp/mut/${PRE}_$P/m*; do
    [ -f "$d/patch.diff" ] || continue
    out=$(/verif/tools/try_mutant.sh "$d/patch.diff" "$P" 2>&1)
    rc=$(echo "$out" | grep -o "exit=[0-9]*" | head -1)
    first=$(echo "$out" | grep -E "^  R|ANALYSIS" | head -1 | cut -c1-160)
    echo "$P $(basename $d) $rc :: $first"
  done
done
