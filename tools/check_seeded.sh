#!/bin/bash
# For every seeded change: apply to /repo, run the checks of the property it targets (and the ones DESIGN.md says catch it), revert.
# Prints one line per change: CAUGHT (some check exits 1) / MISSED / NO-APPLY.
cd /verif
for d in seeded/*/; do
  id=$(basename $d); prop=${id%%-*}
  p=/verif/$d/patch.diff
  if ! git -C /repo apply --check $p 2>/dev/null; then echo "$id NO-APPLY"; continue; fi
  git -C /repo apply $p
  out=$(/venv/bin/python -m sa.check $prop --no-evidence 2>&1); rc=$?
  rule=$(echo "$out" | grep -E "^  R" | head -1 | awk '{print $1" "$2}')
  git -C /repo checkout -- .
  if [ $rc = 1 ]; then echo "$id CAUGHT by $prop: $rule"; else echo "$id MISSED by $prop (exit=$rc) $(echo "$out" | grep ANALYSIS | head -1 | cut -c1-120)"; fi
done
