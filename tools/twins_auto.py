#!/usr/bin/env python3
"""Behaviour-preserving whole-tree twins of /repo, to look for false alarms of the checks.

usage: twins_auto.py <transform> <scratch-dir> [--only <path-substring>]
  transform: unparse | rename | flipif | rettemp | all | splitand | elseafter | argtemps
Creates a git worktree of /repo's HEAD at <scratch-dir> (must not exist, outside /repo and /verif), rewrites every
non-test module under pyteal/ with the transform, and prints the files changed.  The caller runs the checks with
`--root <scratch-dir>` (and the test suite, to confirm the twin really preserves behaviour) and removes the worktree.

Transforms (each is semantics-preserving for Python):
  unparse  - ast.unparse round trip only (comments and layout go, nothing else)
  rename   - every plain local variable of every function (not a parameter, not global/nonlocal, not visible in any
             nested scope, not in a function that calls locals()/vars()/eval/exec) gets the suffix `_r`
  flipif   - `if c: A else: B` becomes `if not (c): B else: A` (only when both branches exist)
  rettemp  - `return E` becomes `ret_value_ = E; return ret_value_` (E not a constant / name)
"""
import ast, os, subprocess, symtable, sys


def rename_locals(src: str, tree: ast.Module) -> ast.Module:
    top = symtable.symtable(src, "<m>", "exec")
    tables = {}

    def collect(t):
        for c in t.get_children():
            if c.get_type() == "function":
                tables.setdefault((c.get_name(), c.get_lineno()), c)
            collect(c)

    collect(top)

    def names_in_subtables(t, acc):
        for c in t.get_children():
            acc.update(c.get_identifiers())
            names_in_subtables(c, acc)
        return acc

    class R(ast.NodeTransformer):
        def visit_FunctionDef(self, node):
            self.generic_visit(node)
            t = tables.get((node.name, node.lineno))
            if t is None:
                return node
            inner = names_in_subtables(t, set())
            calls = {n.func.id for n in ast.walk(node) if isinstance(n, ast.Call) and isinstance(n.func, ast.Name)}
            if calls & {"locals", "vars", "eval", "exec"}:
                return node
            # names bound by match patterns / except handlers / imports / with-as / del are left alone (kept simple)
            special = set()
            for n in ast.walk(node):
                if isinstance(n, ast.ExceptHandler) and n.name:
                    special.add(n.name)
                if isinstance(n, (ast.MatchAs, ast.MatchStar)) and n.name:
                    special.add(n.name)
                if isinstance(n, ast.MatchMapping) and n.rest:
                    special.add(n.rest)
                if isinstance(n, (ast.Import, ast.ImportFrom)):
                    special.update((a.asname or a.name).split(".")[0] for a in n.names)
                if isinstance(n, (ast.Global, ast.Nonlocal)):
                    special.update(n.names)
                if n is not node and isinstance(n, (ast.FunctionDef, ast.AsyncFunctionDef, ast.ClassDef)):
                    special.add(n.name)
            todo = set()
            for s in t.get_symbols():
                nm = s.get_name()
                if s.is_local() and not s.is_parameter() and not s.is_global() and not s.is_nonlocal() and not s.is_free() and nm not in inner and nm not in special and not nm.startswith("__") and nm != "_" and s.is_assigned():
                    todo.add(nm)
            if not todo:
                return node
            nested = [n for n in ast.walk(node) if n is not node and isinstance(n, (ast.FunctionDef, ast.AsyncFunctionDef, ast.Lambda, ast.ClassDef))]
            skip = set()
            for n in nested:
                skip.update(id(x) for x in ast.walk(n))
            for n in ast.walk(node):
                if isinstance(n, ast.Name) and n.id in todo and id(n) not in skip:
                    n.id = n.id + "_r"
            return node

    return R().visit(tree)


class FlipIf(ast.NodeTransformer):
    def visit_If(self, node):
        self.generic_visit(node)
        if node.orelse:
            return ast.If(test=ast.UnaryOp(op=ast.Not(), operand=node.test), body=node.orelse, orelse=node.body)
        return node


class RetTemp(ast.NodeTransformer):
    def visit_Lambda(self, node):
        return node

    def _fix(self, body):
        out = []
        for st in body:
            if isinstance(st, ast.Return) and st.value is not None and not isinstance(st.value, (ast.Constant, ast.Name)):
                out.append(ast.Assign(targets=[ast.Name(id="ret_value_", ctx=ast.Store())], value=st.value, lineno=st.lineno))
                out.append(ast.Return(value=ast.Name(id="ret_value_", ctx=ast.Load())))
            else:
                out.append(st)
        return out

    def generic_visit(self, node):
        super().generic_visit(node)
        for fld in ("body", "orelse", "finalbody"):
            v = getattr(node, fld, None)
            if isinstance(v, list) and v and isinstance(v[0], ast.stmt):
                setattr(node, fld, self._fix(v))
        return node


class SplitAnd(ast.NodeTransformer):
    """`if a and b: X` (no else) -> `if a: if b: X`"""

    def visit_If(self, node):
        self.generic_visit(node)
        if not node.orelse and isinstance(node.test, ast.BoolOp) and isinstance(node.test.op, ast.And) and len(node.test.values) == 2:
            inner = ast.If(test=node.test.values[1], body=node.body, orelse=[])
            return ast.If(test=node.test.values[0], body=[inner], orelse=[])
        return node


class DeMorgan(ast.NodeTransformer):
    """in the test of an if / while / assert: `a or b` -> `not (not a and not b)`; `a and b` -> `not (not a or not b)`"""

    def _flip(self, t):
        if isinstance(t, ast.BoolOp):
            other = ast.And() if isinstance(t.op, ast.Or) else ast.Or()
            return ast.UnaryOp(op=ast.Not(), operand=ast.BoolOp(op=other, values=[ast.UnaryOp(op=ast.Not(), operand=v) for v in t.values]))
        return t

    def visit_If(self, node):
        self.generic_visit(node)
        node.test = self._flip(node.test)
        return node

    def visit_While(self, node):
        self.generic_visit(node)
        node.test = self._flip(node.test)
        return node


class RangeCmp(ast.NodeTransformer):
    """`x < LO or x > HI` (same plain name x, integer literals) -> `not LO <= x <= HI`;  `LO <= x <= HI` -> `x >= LO and x <= HI`"""

    @staticmethod
    def _lit(e):
        if isinstance(e, ast.Constant) and type(e.value) is int:
            return True
        return isinstance(e, ast.UnaryOp) and isinstance(e.op, ast.USub) and isinstance(e.operand, ast.Constant) and type(e.operand.value) is int

    def visit_BoolOp(self, node):
        self.generic_visit(node)
        if isinstance(node.op, ast.Or) and len(node.values) == 2:
            a, b = node.values
            if all(isinstance(c, ast.Compare) and len(c.ops) == 1 and isinstance(c.left, ast.Name) and self._lit(c.comparators[0]) for c in (a, b)) and a.left.id == b.left.id and isinstance(a.ops[0], ast.Lt) and isinstance(b.ops[0], ast.Gt):
                return ast.UnaryOp(op=ast.Not(), operand=ast.Compare(left=a.comparators[0], ops=[ast.LtE(), ast.LtE()], comparators=[ast.Name(id=a.left.id, ctx=ast.Load()), b.comparators[0]]))
        return node

    def visit_Compare(self, node):
        self.generic_visit(node)
        if len(node.ops) == 2 and all(isinstance(o, ast.LtE) for o in node.ops) and isinstance(node.comparators[0], ast.Name) and self._lit(node.left) and self._lit(node.comparators[1]):
            x = node.comparators[0].id
            return ast.BoolOp(op=ast.And(), values=[ast.Compare(left=ast.Name(id=x, ctx=ast.Load()), ops=[ast.GtE()], comparators=[node.left]), ast.Compare(left=ast.Name(id=x, ctx=ast.Load()), ops=[ast.LtE()], comparators=[node.comparators[1]])])
        return node


class InlineTemps(ast.NodeTransformer):
    """`t = E` directly followed by the only statement that reads t -> that statement with E in place of t (E built from
    names, attributes, constants, subscripts and operators only, so evaluation order does not matter)"""

    @staticmethod
    def _pure(e):
        return all(isinstance(x, (ast.Name, ast.Attribute, ast.Constant, ast.Subscript, ast.BinOp, ast.Compare, ast.UnaryOp, ast.BoolOp, ast.operator, ast.cmpop, ast.unaryop, ast.boolop, ast.expr_context, ast.Tuple)) for x in ast.walk(e))

    def _fix(self, fnode, body):
        out = []
        i = 0
        while i < len(body):
            st = body[i]
            nxt = body[i + 1] if i + 1 < len(body) else None
            if isinstance(st, ast.Assign) and len(st.targets) == 1 and isinstance(st.targets[0], ast.Name) and nxt is not None and not isinstance(nxt, (ast.FunctionDef, ast.ClassDef, ast.For, ast.While, ast.With, ast.Try, ast.If, ast.Match)) and self._pure(st.value):
                name = st.targets[0].id
                uses = [x for x in ast.walk(fnode) if isinstance(x, ast.Name) and x.id == name]
                here = [x for x in ast.walk(nxt) if isinstance(x, ast.Name) and x.id == name and isinstance(x.ctx, ast.Load)]
                free = {x.id for x in ast.walk(st.value) if isinstance(x, ast.Name)}
                rebinds = any(isinstance(x, ast.Name) and not isinstance(x.ctx, ast.Load) and x.id in free for x in ast.walk(nxt))
                if len(uses) == 2 and len(here) == 1 and not rebinds and not any(isinstance(x, (ast.Lambda, ast.ListComp, ast.SetComp, ast.DictComp, ast.GeneratorExp)) for x in ast.walk(nxt)):
                    class Sub(ast.NodeTransformer):
                        def visit_Name(self, n):
                            return st.value if n is here[0] else n
                    out.append(Sub().visit(nxt))
                    i += 2
                    continue
            out.append(st)
            i += 1
        return out

    def generic_visit(self, node):
        super().generic_visit(node)
        if isinstance(node, (ast.FunctionDef, ast.AsyncFunctionDef)):
            for holder in ast.walk(node):
                if holder is not node and isinstance(holder, (ast.FunctionDef, ast.AsyncFunctionDef, ast.ClassDef, ast.Lambda)):
                    continue
                for fld in ("body", "orelse", "finalbody"):
                    v = getattr(holder, fld, None)
                    if isinstance(v, list) and v and isinstance(v[0], ast.stmt):
                        setattr(holder, fld, self._fix(node, v))
        return node


class ReorderMethods(ast.NodeTransformer):
    """the undecorated methods of a class (other than __init__-like dunders used during class creation) in reverse order;
    every other statement of the class body stays where it is"""

    def visit_ClassDef(self, node):
        self.generic_visit(node)
        idx = [i for i, st in enumerate(node.body) if isinstance(st, ast.FunctionDef) and not st.decorator_list and st.name not in ("__init_subclass__", "__class_getitem__")]
        # only when nothing but functions refers to them at class-creation time: no non-function statement after the first method
        if len(idx) >= 2 and all(isinstance(st, (ast.FunctionDef, ast.Expr, ast.Pass)) or i < idx[0] for i, st in enumerate(node.body)):
            funcs = [node.body[i] for i in idx][::-1]
            for i, f in zip(idx, funcs):
                node.body[i] = f
        return node


class LastArgKeyword(ast.NodeTransformer):
    """`f(a, b)` -> `f(a, <param>=b)` for calls by plain name of a function / class that this repository defines exactly once
    (module-level def, or class with an __init__), when the callee has no *args and the argument is not starred"""

    SIGS = None

    @classmethod
    def load(cls, root):
        sigs, seen = {}, {}
        for dp, _dn, fns in os.walk(os.path.join(root, "pyteal")):
            for fn in fns:
                if not fn.endswith(".py") or fn.endswith("_test.py"):
                    continue
                try:
                    t = ast.parse(open(os.path.join(dp, fn)).read())
                except SyntaxError:
                    continue
                for st in t.body:
                    f, skip = None, 0
                    if isinstance(st, ast.FunctionDef):
                        f = st
                    elif isinstance(st, ast.ClassDef):
                        f = next((x for x in st.body if isinstance(x, ast.FunctionDef) and x.name == "__init__"), None)
                        skip = 1
                        if any(isinstance(b, ast.Name) and b.id in ("Enum", "IntEnum", "Flag", "NamedTuple") for b in st.bases) or st.decorator_list:
                            f = None
                    if f is None:
                        if isinstance(st, (ast.FunctionDef, ast.ClassDef)):
                            seen[st.name] = seen.get(st.name, 0) + 1
                        continue
                    seen[st.name] = seen.get(st.name, 0) + 1
                    a = f.args
                    if a.vararg or a.posonlyargs or (isinstance(st, ast.FunctionDef) and st.decorator_list):
                        continue
                    sigs[st.name] = [x.arg for x in a.args][skip:]
        cls.SIGS = {k: v for k, v in sigs.items() if seen.get(k) == 1}

    def visit_Call(self, node):
        self.generic_visit(node)
        if isinstance(node.func, ast.Name) and node.func.id in (self.SIGS or {}) and node.args and not any(isinstance(a, ast.Starred) for a in node.args) and not any(k.arg is None for k in node.keywords):
            params = self.SIGS[node.func.id]
            i = len(node.args) - 1
            if i < len(params) and params[i] not in {k.arg for k in node.keywords}:
                v = node.args.pop()
                node.keywords.insert(0, ast.keyword(arg=params[i], value=v))
        return node


class PadStatements(ast.NodeTransformer):
    """a `pass` at the start of every function body (after the docstring) and after every if statement"""

    def generic_visit(self, node):
        super().generic_visit(node)
        if isinstance(node, (ast.FunctionDef, ast.AsyncFunctionDef)):
            k = 1 if node.body and isinstance(node.body[0], ast.Expr) and isinstance(node.body[0].value, ast.Constant) and isinstance(node.body[0].value.value, str) else 0
            node.body.insert(k, ast.Pass())
        for fld in ("body", "orelse", "finalbody"):
            v = getattr(node, fld, None)
            if isinstance(v, list) and v and isinstance(v[0], ast.stmt) and not isinstance(node, ast.ClassDef):
                out = []
                for st in v:
                    out.append(st)
                    if isinstance(st, ast.If):
                        out.append(ast.Pass())
                setattr(node, fld, out)
        return node


class ElseAfterReturn(ast.NodeTransformer):
    """`if c: ...return/raise` followed by the rest of the block -> the rest moves into an else branch"""

    def _fix(self, body):
        for i, st in enumerate(body):
            if isinstance(st, ast.If) and not st.orelse and st.body and isinstance(st.body[-1], (ast.Return, ast.Raise)) and i + 1 < len(body):
                rest = self._fix(body[i + 1:])
                return body[:i] + [ast.If(test=st.test, body=st.body, orelse=rest)]
        return body

    def generic_visit(self, node):
        super().generic_visit(node)
        if isinstance(node, (ast.FunctionDef, ast.AsyncFunctionDef)):
            node.body = self._fix(node.body)
        return node


class ArgTemps(ast.NodeTransformer):
    """`name = f(g(x))` -> `arg_tmp_N = g(x); name = f(arg_tmp_N)` for a call whose single positional argument is a call"""

    def __init__(self):
        self.n = 0

    def _fix(self, body):
        out = []
        for st in body:
            if isinstance(st, ast.Assign) and isinstance(st.value, ast.Call) and len(st.value.args) == 1 and not st.value.keywords and isinstance(st.value.args[0], ast.Call) and isinstance(st.value.func, (ast.Name, ast.Attribute)) and not any(isinstance(x, (ast.Lambda, ast.NamedExpr, ast.Await, ast.Yield)) for x in ast.walk(st.value)) and (isinstance(st.value.func, ast.Name) or isinstance(st.value.func.value, ast.Name)):
                self.n += 1
                t = f"arg_tmp_{self.n}"
                out.append(ast.Assign(targets=[ast.Name(id=t, ctx=ast.Store())], value=st.value.args[0], lineno=st.lineno))
                st.value.args[0] = ast.Name(id=t, ctx=ast.Load())
            out.append(st)
        return out

    def generic_visit(self, node):
        super().generic_visit(node)
        if isinstance(node, (ast.FunctionDef, ast.AsyncFunctionDef)):
            for holder in ast.walk(node):
                for fld in ("body", "orelse", "finalbody"):
                    v = getattr(holder, fld, None)
                    if isinstance(v, list) and v and isinstance(v[0], ast.stmt) and not isinstance(holder, ast.ClassDef):
                        setattr(holder, fld, self._fix(v))
        return node


def transform(src: str, which: str) -> str:
    tree = ast.parse(src)
    if which in ("rename", "all"):
        tree = rename_locals(src, tree)
    if which in ("flipif", "all"):
        tree = FlipIf().visit(tree)
    if which in ("rettemp", "all"):
        tree = RetTemp().visit(tree)
    if which == "splitand":
        tree = SplitAnd().visit(tree)
    if which == "elseafter":
        tree = ElseAfterReturn().visit(tree)
    if which == "lastkw":
        if LastArgKeyword.SIGS is None:
            LastArgKeyword.load("/repo")
        tree = LastArgKeyword().visit(tree)
    if which == "padstmts":
        tree = PadStatements().visit(tree)
    if which == "reorder":
        tree = ReorderMethods().visit(tree)
    if which == "inlinetemps":
        tree = InlineTemps().visit(tree)
    if which == "demorgan":
        tree = DeMorgan().visit(tree)
    if which == "rangecmp":
        tree = RangeCmp().visit(tree)
    if which == "argtemps":
        tree = ArgTemps().visit(tree)
    ast.fix_missing_locations(tree)
    out = ast.unparse(tree) + "\n"
    compile(out, "<twin>", "exec")
    return out


def main():
    which, dest = sys.argv[1], sys.argv[2]
    only = sys.argv[sys.argv.index("--only") + 1] if "--only" in sys.argv else None
    assert not dest.startswith(("/repo", "/verif")) and not os.path.exists(dest)
    subprocess.run(["git", "-C", "/repo", "worktree", "add", "-q", "--detach", dest, "HEAD"], check=True)
    n = 0
    for root, _d, files in os.walk(os.path.join(dest, "pyteal")):
        for fn in sorted(files):
            p = os.path.join(root, fn)
            if not fn.endswith(".py") or fn.endswith("_test.py") or (only and only not in p):
                continue
            src = open(p).read()
            new = transform(src, which)
            if new != src:
                open(p, "w").write(new)
                n += 1
    print(f"twin '{which}' written to {dest}: {n} modules rewritten")


if __name__ == "__main__":
    main()
