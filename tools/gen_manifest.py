#!/usr/bin/env python3
"""Regenerate /verif/MANIFEST.json from the table below (only properties whose rule module exists
are claimed; the rest are listed under not_applicable with the reason)."""
import json
import os

VERIF = os.path.dirname(os.path.dirname(os.path.abspath(__file__)))

PY = "/venv/bin/python"

CLAIMS = {
    "C01": dict(
        text="Decides the structural, necessary part of 'compiled TEAL computes what the expression denotes': block wiring of every control construct (def-use edge facts of each __teal__ against a reference lowering, including the order in which aliased edges are written), operand order/arity at every emission site and factory, a frozen API->opcode table and the operator overloads, a finite abstract evaluation of flattenBlocks' branch emission over all successor configurations, the invariants of sortBlocks / NormalizeBlocks / replaceOutgoing, the loop-stack LIFO discipline, the implicit Return and the terminator set. It does not decide arithmetic meaning or outcome equality over inputs.",
        note="Trusted: CPython ast, /verif/sa resolution and evaluators, reference lowering (spec/lowering.py), op signatures (spec/avm.py), API table (spec/api_ops.py).",
        technique="def-use edge facts vs reference lowering; emission-site extraction by partial evaluation; finite abstract evaluation of branch emission; table comparison",
        ref="4/C01",
    ),
    "C02": dict(
        text="Decides that the calling convention is implemented consistently: the spill/restore builder is evaluated (bounded, by our own evaluator over its syntax tree) for every strategy, arity, slot count and caller/callee return kind and pushed through an abstract stack machine (caller's operands and locals unchanged, exactly the callee's result on top); SubroutineEval.evaluate/__proto are evaluated over parameter-kind shapes in both conventions (binding order, frame indices, proto, ABI output cell, deferred load); call-site operand order and declared type; recursion points vs graph reachability; Return's decision table. Values under recursion at run time are not decided.",
        note="Trusted: ast, sa.minieval (bounded partial evaluation of analysed source, nothing of PyTeal executed), the abstract stack machine, op table.",
        technique="bounded partial evaluation of op-list builders + abstract stack machine; abstract evaluation of constructors over symbolic objects; decision-table comparison",
        ref="4/C02",
    ),
    "C03": dict(
        text="Decides the soundness conditions of the slot optimiser on its own code: skip-set construction on an abstract program (exactly reserved, dynamically indexed and shared slots), dependency scan over branch/loop shaped graphs, cancellation+deletion over all short op sequences compared through an abstract stack machine, freshness of the skip set per compilation, and the documented defaults table of OptimizeOptions. Equivalence of whole programs over inputs is not decided.",
        note="Trusted: ast, sa.minieval, docs/compiler_optimization.rst as transcribed in the rule.",
        technique="abstract evaluation of the optimiser's source on abstract block graphs; bounded enumeration of op sequences; dominance",
        ref="4/C03",
    ),
    "C04": dict(
        text="Decides target legality structurally: PyTeal's op and field tables equal an independent AVM reference; field immediates are version-gated and integer immediates bounded at every emission site; the final version/mode sweep is evaluated and lies on every path before assembly; placeholders are refused / totally rewritten; labels are unique (sanitised name + index, per-routine prefixes, label iff referenced); has_return() is sound for every class over all child combinations.",
        note="Trusted: ast, resolution code, evaluators, the hand-written AVM table (spec/avm.py).",
        technique="table comparison, dominance/must-pass-through, provenance of immediates, abstract evaluation",
        ref="4/C04",
    ),
    "C05": dict(
        text="Decides stack/type discipline on the compiler's own code: each emission site is typed against the op signature under the require_type constraints that dominate it; declared result types equal the op's pushes; hand-written op lists (WideRatio, Suffix, DupN, frame layout, MultiValue stores, recursion spill) are pushed through a typed abstract stack machine; the construct typing table and the require_type relation itself; optimiser deletions are stack-neutral over all short sequences.",
        note="Trusted: ast, evaluators, op signatures in spec/avm.py. Programs using raw ScratchSlot.store() are excluded by the property.",
        technique="type-level emission-site check; abstract stack/term machine over literal op lists",
        ref="4/C05",
    ),
    "C06": dict(
        text="Decides ABI type descriptors (signature string, dynamic-ness, static length) for a bounded nested universe by interpreting the repository's own TypeSpec classes against an ARC-4 reference model; _encode_tuple on all short member-kind sequences with symbolic values (head order, bool runs, running tail offsets as linear forms, tail order); uint range checks and big-endian narrowing; bool packing; dynamic-array length prefix. Bytes produced at run time are not executed.",
        note="Trusted: ast, sa.minieval, spec/arc4.py.",
        technique="abstract evaluation over symbolic ABI values; linear-form comparison; table comparison",
        ref="4/C06",
    ),
    "C07": dict(
        text="Decides _index_tuple addressing for all short member-kind sequences and long bool runs against ARC-4 positions, decoder selection tables (substring_for_decoding, uint_decode, Bool.decode), array element addressing terms, a per-path audit of out-of-range behaviour, and the immediate ranges of extract/substring forms. Extraction on real bytes is not executed.",
        note="Trusted: ast, sa.minieval, spec/arc4.py.",
        technique="abstract evaluation, position comparison, path classification",
        ref="4/C07",
    ),
    "C08": dict(
        text="Decides router dispatch at the level of the constructed expression trees: MethodConfig.approval_cond for all 4^5 configurations, bare-call construction, to_cond_node, program_construction and _build_program are evaluated on symbolic handlers and the resulting Cond/Seq/Assert trees are interpreted by a small reference semantics over all call contexts and compared with the registration; registration checks dominate registration; clear-state wrapping. Run-time evaluation of the compiled TEAL is C01.",
        note="Trusted: ast, sa.minieval, the reference semantics of Cond/Seq/Assert in rules/c08.py, OnCompletion numbering.",
        technique="abstract evaluation of construction code + reference interpretation of the built decision trees (exhaustive over configurations)",
        ref="4/C08",
    ),
    "C09": dict(
        text="Decides the ARC-4 argument plumbing: the decoding and glue builders are evaluated on symbolic parameter lists (0..20 plain parameters, transactions anywhere, with/without output, both conventions) - application-argument indices, the 15-argument tuple cutoff, transaction index arithmetic and type asserts, frame cells, exactly one MethodReturn before Approve; the return prefix constant (read statically from algosdk); contract name vs selector name.",
        note="Trusted: ast, sa.minieval, ARC-4 constants.",
        technique="abstract evaluation over symbolic parameter lists; provenance",
        ref="4/C09",
    ),
    "C10": dict(
        text="Decides the slot allocator: evaluated on programs mixing requested and automatic slots (injective, requested ids honoured, total rewrite, duplicate/257 refused, 256 accepted), the ScratchSlot constructor, the frame-local allocator around the 128 boundary, and who may rewind the id counter. Run-time isolation of values is not decided.",
        note="Trusted: ast, sa.minieval.",
        technique="abstract evaluation on abstract programs; who-may-call",
        ref="4/C10",
    ),
    "C11": dict(
        text="Decides determinism structurally: closed inventory of process-global mutable state, ids used by order only, exception-safe restore of saved state, no hash-ordered iteration on the compile path, no state stored by __teal__, per-compilation options/graphs/skip set, and that every rewind of the id counter discards what was created since.",
        note="Trusted: ast, resolution code; completeness rests on the closed inventory which the rule enforces.",
        technique="who-may-write/read inventory, typestate (try/finally), typed iteration check",
        ref="4/C11",
    ),
    "C12": dict(
        text="Decides createConstantBlocks by abstract evaluation on op lists mixing repeated/unique, small/large, named, template and differently spelled constants: every load site of the result is resolved through the emitted block and compared with an independent decoder of the TEAL literal grammar; reader/emitter form tables; index range; option plumbing.",
        note="Trusted: ast, sa.minieval, spec/teal_literals.py.",
        technique="abstract evaluation + independent literal decoder; exhaustiveness tables",
        ref="4/C12",
    ),
    "C13": dict(
        text="Decides literal handling by abstract evaluation of escapeStr, the validators and the Bytes/Int/Addr/MethodSignature constructors+lowerings on systematically generated literals, each result read back by an independent implementation of the TEAL literal grammar (one token, one line, denoted bytes) or compared with an RFC 4648 reference.",
        note="Trusted: ast, sa.minieval (string operations are Python's own), spec/teal_literals.py.",
        technique="abstract evaluation over generated literal families + independent grammar",
        ref="4/C13",
    ),
    "C14": dict(
        text="Decides InnerTxnBuilder.MethodCall by abstract evaluation on symbolic signatures: selector first, argument order, reference index conventions and one-byte encoding, foreign arrays, preceding transactions followed by itxn_next, field set, refusal guards, and the assignability relation (shared with C19).",
        note="Trusted: ast, sa.minieval, spec/arc4.py.",
        technique="abstract evaluation over symbolic signatures; ordering",
        ref="4/C14",
    ),
    "C15": dict(
        text="Decides the base64-VLQ codec and R3SourceMap.to_json/from_json against an independent Revision-3 encoder/decoder; non-interference of source-map state with code generation (closed list of branch conditions); must-pass-through of the self-validators. Correctness of each line attribution is not decided.",
        note="Trusted: ast, sa.minieval, the reference codec in rules/c15.py.",
        technique="abstract evaluation vs reference codec; non-interference inventory; must-pass-through",
        ref="4/C15",
    ),
    "C16": dict(
        text="Decides the structural clause of WideRatio exactness: for all factor counts up to a bound the emitted op lists, pushed through a term-level stack machine driven by the AVM op signatures, compute exactly the reference 128-bit recurrences (whose arithmetic identity is proved on paper in DESIGN.md), return the low quotient word of divmodw with the high word asserted zero, and use failing ops wherever a step can overflow. No numeric value is computed.",
        note="Trusted: ast, sa.minieval, term machine, op signatures; the paper proof of the recurrence.",
        technique="term-level abstract stack machine over literal op lists vs reference recurrences",
        ref="4/C16",
    ),
    "C17": dict(
        text="Decides the definite-assignment check by abstract evaluation of validateSlots/isTerminal on branch, join, loop, break and early-exit shaped graphs and random small graphs against an independent path-sensitive reference, and its wiring (every routine, only shared slots assumed, before numbering, after the optimiser, error chained).",
        note="Trusted: ast, sa.minieval, the reference analysis in rules/c17.py. Completeness beyond the explored shapes is not decided.",
        technique="abstract evaluation on abstract graphs vs reference dataflow; must-pass-through",
        ref="4/C17",
    ),
    "C18": dict(
        text="Decides that annotations only add comment lines: Comment/Assert(comment)/Pragma/Nonce lowering evaluated for texts with line breaks, comment markers, separators and quotes; comment ops inserted at every position of optimiser inputs; assembly of labels and comment ops; label sanitisation.",
        note="Trusted: ast, sa.minieval.",
        technique="abstract evaluation, delegation check",
        ref="4/C18",
    ),
    "C19": dict(
        text="Finite abstract evaluation of type_spec_is_assignable_to over every ordered pair of a bounded universe of nested ARC-4 shapes (class membership from the repository's own hierarchy) against ARC-4 layout classes; the documented table; callers check the relation in the right direction before passing storage.",
        note="Trusted: ast, sa.minieval, layout classes in spec/arc4.py.",
        technique="finite abstract evaluation of one pure function over all pairs",
        ref="4/C19",
    ),
    "C20": dict(
        text="Decides crash-freedom structurally: every assert and non-PyTeal raise in compile-time code is an obligation discharged by a recorded reason or reported; no recursion along block successors; no structural block comparison on the compile path; the graph-rewrite invariants; acceptance of legal programs by the slot allocator and the definite-assignment walk.",
        note="Trusted: ast, resolution code. Acceptance of every well-typed program is not decided.",
        technique="exception-escape obligations, recursion-shape check, shared abstract-evaluation rules",
        ref="4/C20",
    ),
}


# additions of the third working round (appended to the claim text / technique of each property)
ADDENDA = {
    "C01": (" Third round: the graph passes are evaluated on block graphs built from the repository's own block classes (interpreted): NormalizeBlocks and flattenBlocks preserve the bounded executions of branch/loop/empty-block shaped graphs (flat code read by a small reference machine); compileSubroutine puts the deferred code before every retsub, appends the implicit return and closes the call graph; every control construct, built through its own constructor/builder methods and lowered by its own __teal__, has exactly the executions of an independent reference CFG; isTerminal over all terminator positions. Seventh round: the field tables (R04.2: name, type and minimum version of every field row against the AVM reference) are part of the claim.", "; trace equivalence of interpreted graph passes / construct lowerings against reference machines"),
    "C02": (" Third round: findRecursionPoints on all 3-node call graphs and sampled 4/5-node graphs; slot classification over routine-subset families; frame-pointer routines with body-allocated locals (deferred frame_bury 0); probe handler for recursive ABI subroutines. Sixth round: the context in which the scratch convention creates an ABI output value; the spill worlds model a routine's statements as ops. Eighth round: find_recursive_path terminates and returns a genuine call cycle on every 3-node call graph and sampled 4/5-node graphs (R02.4p).", "; exhaustive small-graph enumeration"),
    "C03": (" Third round: both calling conventions (R02.2) and the allocator (R10.1) are part of the option-independence argument; slot classification families; dependency scan with loads before the pair. Seventh round: the ScratchSlot constructor sets isReservedSlot for every requested id, 0 included (R10.2).", ""),
    "C04": (" Third round: slot-count limit with requested slots, flattenBlocks label discipline decided on flattened graphs, isTerminal, one-line comment ops (shared rules).", ""),
    "C05": (" Third round: ScratchVar and FrameVar (the two AbstractVar implementations) are interpreted from their class definitions and must refuse exactly the values the reference relation refuses; skip-set and prologue rules shared in. Fourth round: If chains built through the repository's own Then/ElseIf/Else methods are typed like the positional form (found and fixed a defect); asset/app/holding accessors agree with their field tables. Fifth round: every control construct and every operator factory is built from operands of each type and what is accepted (construction and lowering together) is compared with the discipline - found and fixed Eq/Neq over operands that leave nothing.", "; sibling cross-check of interpreted classes"),
    "C06": (" Third round: reference types in the descriptor universe; optimiser dependency scan and exception-safe proto restore shared in.", ""),
    "C07": (" Third round: Substring/Extract/Suffix lowering evaluated for every version and operand range and read as byte ranges under the AVM meaning of extract/extract3/substring/substring3; all member sequences between two dynamic members; ABI-layer global-state inventory. Later rounds: named-field positions of NamedTuple (R07.9); element access with compile-time constant indices (R07.3).", "; denotational comparison of slice terms"),
    "C08": (" Third round: Router.method keyword semantics over all assignments of {omitted, NEVER, CALL, CREATE, ALL}; build / register / build history; named-integer table (resolved through the SDK source if not literal).", ""),
    "C09": (" Third round: ownership of the Method object renamed by the router (method_spec returns a fresh object); reference-type descriptors; named-integer table.", "; ownership/escape rule"),
    "C10": (" Third round: slot classification families. Seventh round: duplicate requested ids are refused for every placement of the two variables (main, subroutine-local, shared between routines).", ""),
    "C11": (" Third round: hash-order rule extended to pyteal.ast and to set algebra on dict views.", ""),
    "C12": (" Third round: same operand text under different pseudo-ops, signatures differing in blanks (injective digest stand-in), templates ranked below the top four, op attribution and one op object per site; Op table spelling.", ""),
    "C13": (" Third round: module-level hoisted patterns are resolved; the constants pass (R12.1) is part of the literal round trip.", ""),
    "C14": (" Third round: SetField/SetFields pass every list element on, in order, repeated objects included.", ""),
    "C15": (" Third round: PyTealFrame.file evaluated over a pure path model (sibling directories sharing a prefix); op attribution through the constants pass. Later rounds: router results pair each program with its own text and map (R15.10); the comparison compile behind a source map is made with the compilation's own settings, derived from the constructor and compileTeal (R15.11 - found and fixed a defect).", ""),
    "C16": (" Third round: WideRatio objects are built by the repository's own constructor (factors kept as given, shared factors included) and lowered by its own __teal__; expressions constructed inside __teal__ (Int, Div, Mul ...) are interpreted from their classes, so a 64-bit shortcut is seen as a different term.", "; interpreted constructors"),
    "C17": (" Third round: same-size-different-set joins, index-taken locals, and a poison test on every argument _compile_impl passes to the allocator.", ""),
    "C18": (" Third round: isTerminal with comment ops behind a terminator.", ""),
    "C19": (" Third round: x.set(y) over all ordered pairs of a universe of ABI value types, with the repository's own value classes interpreted; the invoke check may not be memoised.", "; interpreted value classes"),
    "C20": (" Third round: flattenBlocks / NormalizeBlocks / the constants pass / the skip-set wiring raise nothing on well-formed inputs (shared semantic rules).", ""),
}

NOT_APPLICABLE = {}


def main():
    checks = []
    na = [{"property_id": k, "reason": v} for k, v in NOT_APPLICABLE.items()]
    for pid, c in sorted(CLAIMS.items()):
        if not os.path.exists(os.path.join(VERIF, "rules", pid.lower() + ".py")):
            na.append({"property_id": pid, "reason": "static check under construction in this round (designed in DESIGN.md section " + c["ref"] + "); not claimed until the rule module is committed"})
            continue
        checks.append(
            {
                "property_id": pid,
                "quick_cmd": f"{PY} -m sa.check {pid} --tier quick",
                "thorough_cmd": f"{PY} -m sa.check {pid} --tier thorough",
                "evidence_file": f"/verif/evidence/{pid}.json",
                "replay_cmd_template": f"{PY} -m sa.check {pid} --explain {{path}}",
                "engine": "sa",
                "level_claimed": {"category": "other", "text": c["text"] + ADDENDA.get(pid, ("", ""))[0], "design_ref": "DESIGN.md section " + c["ref"]},
                "level_note": c["note"],
                "technique": "static analysis: " + c["technique"] + ADDENDA.get(pid, ("", ""))[1],
            }
        )
    man = {
        "version": 1,
        "setup_cmd": "true",
        "hooks": {
            "guard": "ALGORAND_PYTEAL_VERIF",
            "enable": "no hooks are needed: the checks only parse /repo's sources",
            "baseline_off_cmd": "cd /repo && /venv/bin/python -m pytest -ra -q -p no:cacheprovider --timeout=900 --continue-on-collection-errors",
            "source_commits": [],
            "add_only": True,
        },
        "engines": [
            {
                "name": "sa",
                "path": "/verif/sa",
                "serves_properties": sorted(c["property_id"] for c in checks),
                "kind_free_text": "stdlib-ast static analysis of /repo: source model, structured dominance, partial evaluation of constructors, def-use edge facts, table extraction, and bounded abstract evaluation of the analysed source by /verif/sa/minieval.py (nothing of PyTeal is imported or executed), compared with reference tables and reference semantics in /verif/spec",
            }
        ],
        "checks": checks,
        "not_applicable": sorted(na, key=lambda x: x["property_id"]),
        "notes": "All checks parse /repo's working tree afresh on every run with /venv/bin/python (stdlib only) and never import or execute PyTeal. Exit 2 + 'ANALYSIS-ERROR' means the analysis could not be carried out (anchor vanished); it is never reported as a violation.",
    }
    with open(os.path.join(VERIF, "MANIFEST.json"), "w") as fh:
        json.dump(man, fh, indent=1)
    print("claimed:", [c["property_id"] for c in checks])


if __name__ == "__main__":
    main()
