#!/usr/bin/env python3
"""Regenerate /verif/MANIFEST.json from the table below (only properties whose rule module exists
are claimed; the rest are listed under not_applicable with the reason)."""
import json
import os

VERIF = os.path.dirname(os.path.dirname(os.path.abspath(__file__)))

PY = "/venv/bin/python"

CLAIMS = {
    "C01": dict(
        text="Decides the structural, necessary part of 'compiled TEAL computes what the expression denotes': operand order and arity at every emission site and factory, the block wiring of every control construct (edge facts from a def-use analysis of each __teal__ compared with a reference lowering), and the local invariants of the block passes (NormalizeBlocks, sortBlocks, flattenBlocks, replaceOutgoing). It does not decide arithmetic meaning or outcome equality over inputs.",
        note="Trusted: CPython ast, /verif/sa resolution, reference lowering in spec/lowering.py and op signatures in spec/avm.py. Behaviour over inputs is not decided.",
        technique="def-use edge-fact extraction vs reference lowering; emission-site operand order; pattern rules on graph passes",
        ref="4/C01",
    ),
    "C02": dict(
        text="Decides that the calling convention is consistent across the sites that implement it: the 'callee leaves a value' fact is computed from the callee at every site, argument and frame indices use the same linear forms, the spill code around re-entrant calls is height-neutral with paired load/store, and recursion guards precede spilling. Values under recursion are not decided.",
        note="Trusted: ast, resolution code, the stack-effect table in spec/avm.py.",
        technique="sibling cross-check, symbolic stack-effect (linear forms), dominance",
        ref="4/C02",
    ),
    "C03": dict(
        text="Decides the guards that make the slot optimiser sound (skip set, load-dependency scan over the whole routine, paired deletions) and the version-default table of OptimizeOptions. Equivalence over inputs is not decided.",
        note="Trusted: ast, resolution code, docs/compiler_optimization.rst defaults as transcribed in the rule.",
        technique="dominance and who-guards-what over the optimiser; table extraction",
        ref="4/C03",
    ),
    "C04": dict(
        text="Decides target legality structurally: PyTeal's op and field tables equal an independent AVM reference table; every field immediate is version-gated and every integer immediate bounded at its emission site; the final op sweep lies on every path to assembly; placeholders are refused by assemble and rewritten for every op; labels are unique per routine; has_return() is sound per class.",
        note="Trusted: ast, resolution code, the hand-written AVM table (spec/avm.py).",
        technique="table comparison, dominance/must-pass-through, provenance of immediates",
        ref="4/C04",
    ),
    "C05": dict(
        text="Decides stack/type discipline at the level of the compiler's own code: each emission site is typed against the op signature under constructor-time require_type constraints, declared result types equal the op's pushes, literal op lists have the declared stack effect, construct typing rules are enforced in constructors.",
        note="Trusted: ast, resolution code, op signatures in spec/avm.py. Programs using raw ScratchSlot.store() are excluded by the property.",
        technique="type-level emission-site check; abstract stack effect of literal op lists",
        ref="4/C05",
    ),
    "C06": dict(
        text="Decides ABI descriptor tables against the ARC-4 reference, agreement of all tuple layout walkers, and presence and bound of integer/length range checks. Byte-for-byte encodings over values are not decided.",
        note="Trusted: ast, resolution code, spec/arc4.py.",
        technique="table comparison, sibling cross-check, must-pass-through",
        ref="4/C06",
    ),
    "C07": dict(
        text="Decides decoder selection tables, layout-walker agreement shared with C06, and classifies each element-access path by whether an out-of-range index is made to fail. Round-trip equality over values is not decided.",
        note="Trusted: ast, resolution code, spec/arc4.py.",
        technique="sibling cross-check, path classification",
        ref="4/C07",
    ),
    "C08": dict(
        text="Decides the dispatch decision tables (CallConfig conditions, field/OnComplete pairing, disjunction shape), that guards precede handlers, reject defaults, and that registration checks dominate registration. Run-time evaluation of the generated Cond is C01.",
        note="Trusted: ast, resolution code, OnCompletion numbering in spec/avm.py.",
        technique="table extraction from match/if chains, ordering (dominance)",
        ref="4/C08",
    ),
    "C09": dict(
        text="Decides the ARC-4 argument plumbing structurally: cutoff partition and index arithmetic as linear forms, transaction-parameter index relation and type asserts, return prefix provenance, exactly-one log on non-void paths, and contract/selector name provenance.",
        note="Trusted: ast, resolution code, ARC-4 constants in spec/avm.py.",
        technique="linear-form comparison, provenance, must-pass-through",
        ref="4/C09",
    ),
    "C10": dict(
        text="Decides the slot allocator's structure: fresh-index idiom, 256 limit and duplicate-id rejection before numbering, identity keying of slots, total rewrite of placeholders, frame-local bound, who may rewind the id counter.",
        note="Trusted: ast, resolution code.",
        technique="dominance, who-may-call, interval extraction from guards",
        ref="4/C10",
    ),
    "C11": dict(
        text="Decides determinism structurally: the inventory of process-global mutable state is closed, ids are used only by order, save/restore is exception-safe, no iteration over hash-ordered sets reaches output, and each compilation builds a fresh graph.",
        note="Trusted: ast, resolution code; completeness rests on the closed inventory which the rule enforces.",
        technique="who-may-write/read inventory, typestate (try/finally), typed iteration check",
        ref="4/C11",
    ),
    "C12": dict(
        text="Decides that constant-block indices and block contents come from the same ordering, that the literal readers are exhaustive and agree with the emitters, enum tables equal the AVM's, and the option plumbing guards the version.",
        note="Trusted: ast, resolution code, spec/avm.py enums.",
        technique="sibling cross-check, exhaustiveness, provenance",
        ref="4/C12",
    ),
    "C13": dict(
        text="Decides that every user-supplied string reaches TEAL text only through a validator or escaper, that validator alphabets/tables equal RFC 4648's, and that the escape pipeline mirrors its inverse. The byte value per code point is not decided.",
        note="Trusted: ast, re._parser regex ASTs, resolution code.",
        technique="taint with sanitisers, regex-AST comparison",
        ref="4/C13",
    ),
    "C14": dict(
        text="Decides reference index conventions per arm (append/len ordering), group ordering (transaction arguments then itxn_next, before the call's own fields), assignability guards, and whether both sides of the calling convention reference the argument cutoff.",
        note="Trusted: ast, resolution code.",
        technique="ordering (must-precede), sibling cross-check",
        ref="4/C14",
    ),
    "C15": dict(
        text="Decides non-interference of source-map state with code generation and that the self-validation steps lie on every path when a source map is requested. Correctness of each line attribution is not decided.",
        note="Trusted: ast, resolution code.",
        technique="non-interference taint, must-pass-through",
        ref="4/C15",
    ),
    "C17": dict(
        text="Decides that the definite-assignment walk has the shape a sound path-sensitive analysis must have (memo key over block and slot set, ordered scan, all successors explored) and that it is wired so its errors stop compilation before slots are numbered.",
        note="Trusted: ast, resolution code. Completeness on arbitrary graphs is not decided.",
        technique="data dependence, must-pass-through",
        ref="4/C17",
    ),
    "C18": dict(
        text="Decides that annotation constructs delegate to their child, that the comment op is inert in every pass, and that comment/label text is made single-line and sanitised.",
        note="Trusted: ast, resolution code.",
        technique="delegation check, taint",
        ref="4/C18",
    ),
    "C19": dict(
        text="Finite abstract evaluation of the assignability relation over every ordered pair of ABI TypeSpec classes against ARC-4 layout classes; wherever the relation can hold the two classes must share a layout class. Callers must test the relation before passing storage.",
        note="Trusted: ast, resolution code, layout classes in spec/arc4.py.",
        technique="finite abstract evaluation of one pure function over all class pairs",
        ref="4/C19",
    ),
    "C20": dict(
        text="Decides crash-freedom structurally: every raise of a non-PyTeal exception type and every assert reachable from the compile entry points is an obligation discharged by a recorded reason or reported; recursion along block successors and unguarded structural recursion are reported.",
        note="Trusted: ast, call-graph resolution with override fan-out. Acceptance of every well-typed program is not decided.",
        technique="call-graph reachability, SCC, exception-escape analysis",
        ref="4/C20",
    ),
}

NOT_APPLICABLE = {
    "C16": "WideRatio exactness is a numerical identity over all uint64 factor values; no structural clause of it is decidable statically beyond the stack shape of two literal op lists (decided under C05) - establishing the arithmetic needs symbolic or concrete evaluation, which is another family.",
}


def main():
    checks = []
    na = [{"property_id": k, "reason": v} for k, v in NOT_APPLICABLE.items()]
    for pid, c in sorted(CLAIMS.items()):
        if not os.path.exists(os.path.join(VERIF, "rules", pid.lower() + ".py")):
            na.append({"property_id": pid, "reason": "static check under construction in this round (designed in DESIGN.md section " + c["ref"] + "); not claimed until the rule module is committed"})
            continue
        checks.append(
            {
                "property_id": pid,
                "quick_cmd": f"{PY} -m sa.check {pid} --tier quick",
                "thorough_cmd": f"{PY} -m sa.check {pid} --tier thorough",
                "evidence_file": f"/verif/evidence/{pid}.json",
                "replay_cmd_template": f"{PY} -m sa.check {pid} --explain {{path}}",
                "engine": "sa",
                "level_claimed": {"category": "other", "text": c["text"], "design_ref": "DESIGN.md section " + c["ref"]},
                "level_note": c["note"],
                "technique": "static analysis: " + c["technique"],
            }
        )
    man = {
        "version": 1,
        "setup_cmd": "true",
        "hooks": {
            "guard": "ALGORAND_PYTEAL_VERIF",
            "enable": "no hooks are needed: the checks only parse /repo's sources",
            "baseline_off_cmd": "cd /repo && /venv/bin/python -m pytest -ra -q -p no:cacheprovider --timeout=900 --continue-on-collection-errors",
            "source_commits": [],
            "add_only": True,
        },
        "engines": [
            {
                "name": "sa",
                "path": "/verif/sa",
                "serves_properties": sorted(c["property_id"] for c in checks),
                "kind_free_text": "stdlib-ast static analysis of /repo (source model, structured dominance, partial evaluation of constructors, def-use edge facts, table extraction) compared with reference tables in /verif/spec",
            }
        ],
        "checks": checks,
        "not_applicable": sorted(na, key=lambda x: x["property_id"]),
        "notes": "All checks parse /repo's working tree afresh on every run with /venv/bin/python (stdlib only) and never import or execute PyTeal. Exit 2 + 'ANALYSIS-ERROR' means the analysis could not be carried out (anchor vanished); it is never reported as a violation.",
    }
    with open(os.path.join(VERIF, "MANIFEST.json"), "w") as fh:
        json.dump(man, fh, indent=1)
    print("claimed:", [c["property_id"] for c in checks])


if __name__ == "__main__":
    main()
