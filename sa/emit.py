"""E4 - emission-site extractor built on sa.pe.

For a class with a `__teal__` method: partial evaluation of `__init__` (symbolic or bound to the
arguments of one factory call), then of `__teal__` with the resulting attribute environment, then
of `type_of`.  Every `TealOp(...)` construction passed on the way becomes an Emission:
op alternatives, immediates, stack operands (arguments of the enclosing TealBlock.FromOp), guards,
version checks that dominate it, and the require_type constraints known for each operand.
"""
from __future__ import annotations

import ast
from dataclasses import dataclass, field
from typing import Dict, List, Optional, Set, Tuple

from .astutil import u
from .model import AnalysisError, ClassInfo, FuncInfo, Model
from .pe import PE, Event, Result, alts, is_phi, _site_of, is_param, show, clone


@dataclass
class Emission:
    cls: Optional[ClassInfo]
    func: FuncInfo  # function whose text holds the TealOp(...) call
    event: Event
    op_alts: List[str]  # Op member names; '?<text>' if unresolved
    immediates: List[ast.AST]
    operands: Optional[List[ast.AST]]  # None when not passed to FromOp
    container: str  # 'FromOp' | 'SimpleBlock' | 'other'
    guards: List[Tuple[ast.AST, bool]]
    version_checks: List[Event]  # verifyProgramVersion / verifyFieldVersion events before it (same guards prefix)
    res: Result

    @property
    def where(self):
        return self.event.where


@dataclass
class PathAnalysis:
    init: Result
    teal: Result
    type_of: Optional[Result]
    has_return: Optional[Result]
    emissions: List[Emission]
    entry_res: Optional[Result] = None

    def constraints(self) -> List[Tuple[ast.AST, ast.AST, Event]]:
        """(subject expr, type expr, event) for every require_type seen in factory, ctor, __teal__"""
        out = []
        for r in (self.entry_res, self.init, self.teal):
            if r is None:
                continue
            for ev in r.events:
                if ev.short == "require_type" and len(ev.call.args) == 2:
                    out.append((ev.call.args[0], ev.call.args[1], ev))
        return out

    def init_raised(self) -> bool:
        return bool(self.init.raises) and not self.init.returns and getattr(self.init, "ended_by_raise", False)


@dataclass
class ClassAnalysis:
    cls: ClassInfo
    paths: List[PathAnalysis]
    entry: Optional[FuncInfo] = None
    entry_res: Optional[Result] = None

    @property
    def emissions(self) -> List[Emission]:
        out, seen = [], set()
        for p in self.paths:
            for em in p.emissions:
                k = (em.event.node.lineno, em.event.node.col_offset, tuple(em.op_alts), tuple(ast.dump(x) for x in em.immediates), None if em.operands is None else tuple(ast.dump(x) for x in em.operands))
                if k in seen:
                    continue
                seen.add(k)
                em.path = p  # type: ignore[attr-defined]
                out.append(em)
        return out

    @property
    def type_of(self) -> Optional[Result]:
        return self.paths[0].type_of if self.paths else None

    @property
    def teal(self) -> Result:
        return self.paths[0].teal

    @property
    def init(self) -> Result:
        return self.paths[0].init


def op_alternatives(e: ast.AST) -> List[str]:
    out = []
    for a in alts(e):
        t = u(a)
        if t.startswith("Op.") and t.count(".") == 1:
            out.append(t[3:])
        elif isinstance(a, ast.Constant) and a.value is None:
            out.append("?None")
        else:
            out.append("?" + t)
    return out


def extract_emissions(res: Result, cls: Optional[ClassInfo], init_guards=None) -> List[Emission]:
    out: List[Emission] = []
    from_ops = [ev for ev in res.events if ev.short == "FromOp"]
    simple_blocks = [ev for ev in res.events if ev.short in ("TealSimpleBlock", "TealConditionalBlock")]
    verifies = [(i, ev) for i, ev in enumerate(res.events) if ev.short in ("verifyProgramVersion", "verifyFieldVersion")]
    for i, ev in enumerate(res.events):
        if ev.short != "TealOp" or ev.name not in ("TealOp", "pyteal.TealOp", "ir.TealOp"):
            continue
        if len(ev.call.args) < 2:
            continue
        ops = op_alternatives(ev.call.args[1])
        # narrow by guards of the form  <phi> == Op.X  (polarity True)
        for g, pol in ev.guards:
            if isinstance(g, ast.Compare) and len(g.ops) == 1 and isinstance(g.ops[0], ast.Eq) and pol:
                rhs = u(g.comparators[0])
                if rhs.startswith("Op.") and rhs[3:] in ops and ast.dump(g.left) == ast.dump(ev.call.args[1]):
                    ops = [rhs[3:]]
        operands = None
        container = "other"
        sid = ev.site
        for fo in from_ops:
            if len(fo.call.args) >= 2 and _site_of(fo.call.args[1]) == sid and sid is not None:
                operands = list(fo.call.args[2:])
                container = "FromOp"
                break
        if operands is None:
            for sb in simple_blocks:
                if sb.call.args and isinstance(sb.call.args[0], ast.List) and any(_site_of(x) == sid for x in sb.call.args[0].elts):
                    container = "SimpleBlock"
                    break
        vc = [v for j, v in verifies if j < i and _guards_prefix(v.guards, ev.guards)]
        out.append(Emission(cls, ev.func, ev, ops, list(ev.call.args[2:]), operands, container, list(init_guards or []) + list(ev.guards), vc, res))
    return out


def _path_ended_by_raise(r: Result) -> bool:
    return getattr(r, "ended_by_raise", False)


def _guards_prefix(a, b) -> bool:
    """every guard of a is also a guard of b (a dominates b in the structured sense)"""
    kb = {(ast.dump(g), p) for g, p in b}
    return all((ast.dump(g), p) in kb for g, p in a)


class Emit:
    def __init__(self, model: Model):
        self.model = model
        self.pe = PE(model)

    def analyse_class(self, cls: ClassInfo, call: Optional[ast.Call] = None, entry: Optional[FuncInfo] = None, entry_res: Optional[Result] = None) -> ClassAnalysis:
        init = self.model.resolve_method(cls, "__init__")
        teal = self.model.resolve_method(cls, "__teal__")
        if teal is None:
            raise AnalysisError(f"{cls.fq}: no __teal__")
        seed = Result()
        if entry_res is not None:
            seed.sites.update(entry_res.sites)
            seed.closures.update(entry_res.closures)
        if init is not None:
            env = self.pe.bind(init, call.args, call.keywords, True) if call is not None else self.pe.symbolic_env(init, True)
            inits = self.pe.run_paths(init, env, attrs={}, self_cls=cls, seed=seed, max_paths=24, guards=list(entry_res.guards_at_end) if entry_res is not None else None)
        else:
            inits = [Result()]
        paths: List[PathAnalysis] = []
        for r1 in inits:
            if r1.raises and _path_ended_by_raise(r1):
                continue  # the constructor refuses these arguments on this path
            for r2 in self.pe.run_paths(teal, self.pe.symbolic_env(teal, True), attrs=dict(r1.attrs), self_cls=cls, seed=r1, max_paths=48, guards=r1.guards_at_end):
                # the path condition of the constructor holds in __teal__ as well
                r3 = r4 = None
                paths.append(PathAnalysis(r1, r2, None, None, extract_emissions(r2, cls), entry_res))
        # type_of / has_return: joining walk per constructor path (first surviving one is representative for the class)
        for pa in paths:
            t = self.model.resolve_method(cls, "type_of")
            if t is not None:
                sd = Result()
                sd.sites.update(pa.init.sites)
                pa.type_of = self.pe.run(t, self.pe.symbolic_env(t, True), attrs=dict(pa.init.attrs), self_cls=cls, result=sd)
            h = self.model.resolve_method(cls, "has_return")
            if h is not None:
                sd = Result()
                sd.sites.update(pa.init.sites)
                pa.has_return = self.pe.run(h, self.pe.symbolic_env(h, True), attrs=dict(pa.init.attrs), self_cls=cls, result=sd)
        if not paths:
            raise AnalysisError(f"{cls.fq}: no feasible constructor path")
        return ClassAnalysis(cls, paths, entry, entry_res)

    def expr_classes(self) -> List[ClassInfo]:
        """every class of the package that defines or inherits __teal__ and is not abstract"""
        out = []
        for c in self.model.iter_classes():
            t = self.model.resolve_method(c, "__teal__")
            if t is None:
                continue
            if _is_abstract(t):
                continue
            out.append(c)
        return out

    def factories(self, module_prefix: str = "pyteal.ast") -> List[Tuple[FuncInfo, Result, List[Tuple[ast.Call, ClassInfo]]]]:
        """functions/classmethods that return a freshly constructed Expr instance - directly or
        inside a returned lambda (TxnObject(lambda field: GtxnExpr(txnIndex, field), ...)):
        (function, PE result of one path through it, [(constructor call, class)]) per path"""
        expr_cls = {c.fq for c in self.expr_classes()}
        out = []
        for f in self.model.iter_funcs():
            if "<locals>" in f.qualname or not f.module.name.startswith(module_prefix):
                continue
            if f.name.startswith("__") and f.name not in ("__call__", "__getitem__"):
                continue
            if not any(isinstance(n, ast.Return) and n.value is not None for n in ast.walk(f.node)):
                continue
            try:
                paths = self.pe.run_paths(f, self.pe.symbolic_env(f, f.cls is not None and "staticmethod" not in f.decorators()), max_paths=16)
            except RecursionError:
                continue
            for res in paths:
                hits = []
                for val, _g in res.returns:
                    for a in alts(val):
                        for c, lam_params in _ctor_calls_in(a, res):
                            target = self._resolve_ctor(f, c, res)
                            if target is not None and target.fq in expr_cls:
                                if lam_params:
                                    c = _rename_names(c, lam_params)
                                hits.append((c, target))
                if hits:
                    out.append((f, res, hits))
        return out

    def _resolve_ctor(self, f: FuncInfo, c: ast.Call, res: Result) -> Optional[ClassInfo]:
        fn = c.func
        if isinstance(fn, ast.Name):
            if fn.id in ("cls",) and f.cls is not None:
                return f.cls
            r = self.model.resolve_in_func(f, fn.id)
            if isinstance(r, ClassInfo):
                return r
        if isinstance(fn, ast.Name) and fn.id.startswith("$p_") and f.cls is not None and f.params() and fn.id == "$p_" + f.params()[0]:
            return f.cls
        return None


def _ctor_calls_in(a: ast.AST, res: Result):
    """constructor-looking calls in a returned value: the value itself (a site) and calls nested in
    lambdas / call arguments of it; yields (call, lambda parameter names in scope)"""
    out = []
    seen = set()

    def visit(e, lam):
        k = _site_of(e)
        if k is not None:
            if k in seen or k not in res.sites:
                return
            seen.add(k)
            c = res.sites[k]
            if isinstance(c, ast.Call):
                out.append((c, lam))
                for x in list(c.args) + [kw.value for kw in c.keywords]:
                    visit(x, lam)
            return
        if isinstance(e, ast.Lambda):
            names = tuple(x.arg for x in e.args.args)
            visit(e.body, lam + names)
            return
        if isinstance(e, ast.Call):
            if lam:
                out.append((e, lam))
            for x in list(e.args) + [kw.value for kw in e.keywords]:
                visit(x, lam)
            return
        for ch in ast.iter_child_nodes(e):
            visit(ch, lam)

    visit(a, ())
    return out


def _rename_names(c: ast.Call, names) -> ast.Call:
    c = clone(c)
    for n in ast.walk(c):
        if isinstance(n, ast.Name) and n.id in names:
            n.id = "$p_" + n.id
    return c


def _is_abstract(f: FuncInfo) -> bool:
    if any("abstractmethod" in d for d in f.decorators()):
        return True
    return False
