"""Canonical form of a module's syntax tree, applied by the Model before any rule looks at it.

Two purely syntactic rewrites, each an equivalence of Python programs, so that a rule never sees the difference between
two spellings of the same code:

* `if not C: A else: B`  ->  `if C: B else: A`      (only when both branches exist)
* `x = E; return x`      ->  `return E`              (x a plain name that occurs nowhere else in the function)
* `if a: if b: X`        ->  `if a and b: X`         (no else on either)
* a `pass` next to other statements is dropped
* tests of if / while / assert / conditional expressions are put into negation normal form (De Morgan, `not not`,
  `not a in b` -> `a not in b`, `not a is b` -> `a is not b`)
* `if c: ..return/raise else: R`  ->  `if c: ..return/raise` followed by R

Positions are kept (copy_location), so reports still name the right line.
"""
from __future__ import annotations

import ast


def _nnf(e: ast.expr, neg: bool = False) -> ast.expr:
    """negation normal form of an expression used for its truth value: `not` is pushed through and / or / not and
    the membership / identity comparisons (the only comparisons whose negation is an operator of the same protocol)"""
    if isinstance(e, ast.UnaryOp) and isinstance(e.op, ast.Not):
        return _nnf(e.operand, not neg)
    if isinstance(e, ast.BoolOp):
        op = e.op if not neg else (ast.Or() if isinstance(e.op, ast.And) else ast.And())
        return ast.copy_location(ast.BoolOp(op=op, values=[_nnf(v, neg) for v in e.values]), e)
    if neg and isinstance(e, ast.Compare) and len(e.ops) == 1 and isinstance(e.ops[0], (ast.In, ast.NotIn, ast.Is, ast.IsNot)):
        swap = {ast.In: ast.NotIn, ast.NotIn: ast.In, ast.Is: ast.IsNot, ast.IsNot: ast.Is}[type(e.ops[0])]
        return ast.copy_location(ast.Compare(left=e.left, ops=[swap()], comparators=e.comparators), e)
    return ast.copy_location(ast.UnaryOp(op=ast.Not(), operand=e), e) if neg else e


class _Canon(ast.NodeTransformer):
    def visit_While(self, node: ast.While):
        self.generic_visit(node)
        node.test = _nnf(node.test)
        return node

    def visit_Assert(self, node: ast.Assert):
        self.generic_visit(node)
        node.test = _nnf(node.test)
        return node

    def visit_IfExp(self, node: ast.IfExp):
        self.generic_visit(node)
        node.test = _nnf(node.test)
        return node

    def visit_If(self, node: ast.If):
        self.generic_visit(node)
        node.test = _nnf(node.test)
        ends = lambda b: bool(b) and isinstance(b[-1], (ast.Return, ast.Raise))
        # (an `if not c: ...return` keeps its polarity: its else branch is hoisted instead)
        negative = lambda t: (isinstance(t, ast.UnaryOp) and isinstance(t.op, ast.Not)) or (isinstance(t, ast.Compare) and len(t.ops) == 1 and isinstance(t.ops[0], (ast.IsNot, ast.NotIn)))
        while node.orelse and negative(node.test) and not ends(node.body):
            new = ast.If(test=_nnf(node.test, True), body=node.orelse, orelse=node.body)
            node = ast.copy_location(new, node)
        # `if a: if b: X` (no else anywhere) is `if a and b: X`
        while not node.orelse and len(node.body) == 1 and isinstance(node.body[0], ast.If) and not node.body[0].orelse:
            inner = node.body[0]
            lhs = node.test.values if isinstance(node.test, ast.BoolOp) and isinstance(node.test.op, ast.And) else [node.test]
            rhs = inner.test.values if isinstance(inner.test, ast.BoolOp) and isinstance(inner.test.op, ast.And) else [inner.test]
            test = ast.copy_location(ast.BoolOp(op=ast.And(), values=list(lhs) + list(rhs)), node.test)
            node = ast.copy_location(ast.If(test=test, body=inner.body, orelse=[]), node)
        return node

    @staticmethod
    def _hoist_else(body):
        """`if c: ...; return/raise  else: REST` is `if c: ...; return/raise` followed by REST"""
        out = []
        for st in body:
            if isinstance(st, ast.If) and st.orelse and st.body and isinstance(st.body[-1], (ast.Return, ast.Raise)):
                out.append(ast.copy_location(ast.If(test=st.test, body=st.body, orelse=[]), st))
                out.extend(_Canon._hoist_else(st.orelse))
            else:
                out.append(st)
        return out

    def _fix_body(self, fnode, body):
        body = self._hoist_else(body)
        out = []
        i = 0
        while i < len(body):
            st = body[i]
            nxt = body[i + 1] if i + 1 < len(body) else None
            if (
                isinstance(st, ast.Assign)
                and len(st.targets) == 1
                and isinstance(st.targets[0], ast.Name)
                and isinstance(nxt, ast.Return)
                and isinstance(nxt.value, ast.Name)
                and nxt.value.id == st.targets[0].id
                and self._only_returned(fnode, st.targets[0].id)
            ):
                out.append(ast.copy_location(ast.Return(value=st.value), st))
                i += 2
                continue
            out.append(st)
            i += 1
        return out

    @staticmethod
    def _only_returned(fnode, name: str) -> bool:
        """every store of `name` is an `name = E` directly followed by `return name`, and those returns are its only reads"""
        if any(isinstance(n, (ast.Global, ast.Nonlocal)) and name in n.names for n in ast.walk(fnode)):
            return False
        loads = sum(1 for n in ast.walk(fnode) if isinstance(n, ast.Name) and n.id == name and isinstance(n.ctx, ast.Load))
        stores = sum(1 for n in ast.walk(fnode) if isinstance(n, ast.Name) and n.id == name and not isinstance(n.ctx, ast.Load))
        pairs = 0
        for holder in ast.walk(fnode):
            for fld in ("body", "orelse", "finalbody"):
                v = getattr(holder, fld, None)
                if isinstance(v, list):
                    for a, b in zip(v, v[1:]):
                        if isinstance(a, ast.Assign) and len(a.targets) == 1 and isinstance(a.targets[0], ast.Name) and a.targets[0].id == name and isinstance(b, ast.Return) and isinstance(b.value, ast.Name) and b.value.id == name:
                            pairs += 1
        params = {x.arg for x in fnode.args.posonlyargs + fnode.args.args + fnode.args.kwonlyargs} | {x.arg for x in (fnode.args.vararg, fnode.args.kwarg) if x}
        return name not in params and loads == stores == pairs > 0

    def _fix_block(self, fnode, stmts):
        if len(stmts) > 1:
            kept = [st for st in stmts if not isinstance(st, ast.Pass)]
            real = [st for st in kept if not (isinstance(st, ast.Expr) and isinstance(st.value, ast.Constant))]
            if real:
                stmts = kept  # `pass` next to other statements does nothing (a body of docstring + pass stays as it is)
            else:
                stmts = kept + [st for st in stmts if isinstance(st, ast.Pass)][:1]  # ... with a single pass
        out = self._fix_body(fnode, stmts)
        for st in out:
            if isinstance(st, (ast.FunctionDef, ast.AsyncFunctionDef, ast.ClassDef)):
                continue
            for fld in ("body", "orelse", "finalbody"):
                v = getattr(st, fld, None)
                if isinstance(v, list) and v and isinstance(v[0], ast.stmt):
                    setattr(st, fld, self._fix_block(fnode, v))
            for h in getattr(st, "handlers", []) or []:
                h.body = self._fix_block(fnode, h.body)
            for c in getattr(st, "cases", []) or []:
                c.body = self._fix_block(fnode, c.body)
        return out

    def _visit_func(self, node):
        self.generic_visit(node)
        node.body = self._fix_block(node, node.body)
        return node

    visit_FunctionDef = _visit_func
    visit_AsyncFunctionDef = _visit_func


def canonicalise(tree: ast.Module) -> ast.Module:
    tree = _Canon().visit(tree)
    ast.fix_missing_locations(tree)
    return tree


# ---------------------------------------------------------------------------------------------------------------------
# Local variable names.  Consistently renaming the plain locals of a function is an equivalence of programs, so the
# Model may pick the names.  It picks the ones recorded in sa/localnames.json (the names the functions had when the rules
# were written) whenever a function has the same number of plain locals, bound in the same order; otherwise the function
# is left as it is.  The choice has no influence on soundness (any capture-free bijection is an equivalent program), only
# on whether rules that mention a local by name recognise the code after someone renamed it.

# comprehensions are entered: renaming an identifier in the function and in its comprehensions alike renames the function's
# variable and the comprehension's own variable of that name consistently, which is again an equivalent program
_SCOPES = (ast.FunctionDef, ast.AsyncFunctionDef, ast.Lambda, ast.ClassDef)


def _own_nodes(fnode):
    """nodes of the function's own scope, in source order; nested scopes are returned as single nodes (not entered)"""
    out = []

    def rec(n):
        for c in ast.iter_child_nodes(n):
            out.append(c)
            if not isinstance(c, _SCOPES):
                rec(c)

    rec(fnode)
    out.sort(key=lambda n: (getattr(n, "lineno", 0), getattr(n, "col_offset", 0)))
    return out


def plain_locals(fnode) -> list:
    """the function's plain local variables in order of first binding: assigned in its own scope, not a parameter, not
    global/nonlocal, not mentioned in any nested scope, not bound by except/import/match/def"""
    a = fnode.args
    params = {x.arg for x in a.posonlyargs + a.args + a.kwonlyargs} | {x.arg for x in (a.vararg, a.kwarg) if x}
    own = _own_nodes(fnode)
    special, nested_names = set(), set()
    for n in own:
        if isinstance(n, ast.ExceptHandler) and n.name:
            special.add(n.name)
        if isinstance(n, (ast.MatchAs, ast.MatchStar)) and n.name:
            special.add(n.name)
        if isinstance(n, ast.MatchMapping) and n.rest:
            special.add(n.rest)
        if isinstance(n, (ast.Import, ast.ImportFrom)):
            special.update((al.asname or al.name).split(".")[0] for al in n.names)
        if isinstance(n, (ast.Global, ast.Nonlocal)):
            special.update(n.names)
        if isinstance(n, (ast.FunctionDef, ast.AsyncFunctionDef, ast.ClassDef)):
            special.add(n.name)
        if isinstance(n, _SCOPES):
            nested_names.update(x.id for x in ast.walk(n) if isinstance(x, ast.Name))
            nested_names.update(x.arg for x in ast.walk(n) if isinstance(x, ast.arg))
        if isinstance(n, ast.Call) and isinstance(n.func, ast.Name) and n.func.id in ("locals", "vars", "eval", "exec"):
            return []
    order = []
    for n in own:
        if isinstance(n, ast.Name) and not isinstance(n.ctx, ast.Load):
            nm = n.id
            if nm not in params and nm not in special and nm not in nested_names and not nm.startswith("__") and nm not in order:
                order.append(nm)
    return order


def _functions(tree):
    """(key, node) for every function of the module; key = dotted path of enclosing classes/functions + ordinal"""
    seen = {}
    out = []

    def rec(n, prefix):
        for c in ast.iter_child_nodes(n):
            if isinstance(c, (ast.FunctionDef, ast.AsyncFunctionDef)):
                q = f"{prefix}{c.name}"
                k = seen.get(q, 0)
                seen[q] = k + 1
                out.append((f"{q}#{k}", c))
                rec(c, q + ".")
            elif isinstance(c, ast.ClassDef):
                rec(c, f"{prefix}{c.name}.")
            else:
                rec(c, prefix)

    rec(tree, "")
    return out


def local_name_table(tree) -> dict:
    return {key: plain_locals(f) for key, f in _functions(tree) if plain_locals(f)}


def alpha_normalise(tree: ast.Module, reference: dict) -> int:
    """rename the plain locals of each function to the reference names where that is a capture-free bijection; returns
    the number of functions renamed"""
    n = 0
    for key, f in _functions(tree):
        want = reference.get(key)
        have = plain_locals(f)
        if not want or have == want or len(have) != len(want) or len(set(want)) != len(want):
            continue
        others = {x.id for x in ast.walk(f) if isinstance(x, ast.Name)} | {x.arg for x in ast.walk(f) if isinstance(x, ast.arg)}
        others -= set(have)
        if others & set(want):
            continue  # a reference name is in use for something else here: leave the function alone
        mapping = dict(zip(have, want))
        for x in _own_nodes(f):
            if isinstance(x, ast.Name) and x.id in mapping:
                x.id = mapping[x.id]
        n += 1
    return n
