"""Canonical form of a module's syntax tree, applied by the Model before any rule looks at it.

Two purely syntactic rewrites, each an equivalence of Python programs, so that a rule never sees the difference between
two spellings of the same code:

* `if not C: A else: B`  ->  `if C: B else: A`      (only when both branches exist)
* `x = E; return x`      ->  `return E`              (x a plain name that occurs nowhere else in the function)

Positions are kept (copy_location), so reports still name the right line.
"""
from __future__ import annotations

import ast


class _Canon(ast.NodeTransformer):
    def visit_If(self, node: ast.If):
        self.generic_visit(node)
        while node.orelse and isinstance(node.test, ast.UnaryOp) and isinstance(node.test.op, ast.Not):
            new = ast.If(test=node.test.operand, body=node.orelse, orelse=node.body)
            node = ast.copy_location(new, node)
        return node

    def _fix_body(self, fnode, body):
        out = []
        i = 0
        while i < len(body):
            st = body[i]
            nxt = body[i + 1] if i + 1 < len(body) else None
            if (
                isinstance(st, ast.Assign)
                and len(st.targets) == 1
                and isinstance(st.targets[0], ast.Name)
                and isinstance(nxt, ast.Return)
                and isinstance(nxt.value, ast.Name)
                and nxt.value.id == st.targets[0].id
                and self._only_returned(fnode, st.targets[0].id)
            ):
                out.append(ast.copy_location(ast.Return(value=st.value), st))
                i += 2
                continue
            out.append(st)
            i += 1
        return out

    @staticmethod
    def _only_returned(fnode, name: str) -> bool:
        """every store of `name` is an `name = E` directly followed by `return name`, and those returns are its only reads"""
        if any(isinstance(n, (ast.Global, ast.Nonlocal)) and name in n.names for n in ast.walk(fnode)):
            return False
        loads = sum(1 for n in ast.walk(fnode) if isinstance(n, ast.Name) and n.id == name and isinstance(n.ctx, ast.Load))
        stores = sum(1 for n in ast.walk(fnode) if isinstance(n, ast.Name) and n.id == name and not isinstance(n.ctx, ast.Load))
        pairs = 0
        for holder in ast.walk(fnode):
            for fld in ("body", "orelse", "finalbody"):
                v = getattr(holder, fld, None)
                if isinstance(v, list):
                    for a, b in zip(v, v[1:]):
                        if isinstance(a, ast.Assign) and len(a.targets) == 1 and isinstance(a.targets[0], ast.Name) and a.targets[0].id == name and isinstance(b, ast.Return) and isinstance(b.value, ast.Name) and b.value.id == name:
                            pairs += 1
        params = {x.arg for x in fnode.args.posonlyargs + fnode.args.args + fnode.args.kwonlyargs} | {x.arg for x in (fnode.args.vararg, fnode.args.kwarg) if x}
        return name not in params and loads == stores == pairs > 0

    def _visit_func(self, node):
        self.generic_visit(node)
        self._cur = node
        for holder in ast.walk(node):
            if holder is not node and isinstance(holder, (ast.FunctionDef, ast.AsyncFunctionDef, ast.Lambda, ast.ClassDef)):
                continue
            for fld in ("body", "orelse", "finalbody"):
                v = getattr(holder, fld, None)
                if isinstance(v, list) and v and isinstance(v[0], ast.stmt) and self._owner(node, holder):
                    setattr(holder, fld, self._fix_body(node, v))
        return node

    @staticmethod
    def _owner(fnode, holder) -> bool:
        # the statement list belongs to fnode itself, not to a function nested in it
        stack = [fnode]
        while stack:
            n = stack.pop()
            if n is holder:
                return True
            for c in ast.iter_child_nodes(n):
                if c is not fnode and isinstance(c, (ast.FunctionDef, ast.AsyncFunctionDef, ast.Lambda, ast.ClassDef)) and c is not holder:
                    continue
                stack.append(c)
        return False

    visit_FunctionDef = _visit_func
    visit_AsyncFunctionDef = _visit_func


def canonicalise(tree: ast.Module) -> ast.Module:
    tree = _Canon().visit(tree)
    ast.fix_missing_locations(tree)
    return tree
