"""E1 - source model: parse every non-test module of the repository, build symbol tables,
resolve imports, class hierarchy (linearised MRO), attribute -> method lookup.

Nothing is imported from the repository; only `ast.parse` on the text.
"""
from __future__ import annotations

import ast
import hashlib
import os
from dataclasses import dataclass, field
from typing import Dict, Iterator, List, Optional, Tuple


class AnalysisError(Exception):
    """The analysis itself could not be carried out (anchor vanished, idiom not recognised,
    instance count below the confirmed minimum).  Never reported as a violation."""


PACKAGES = ("pyteal", "feature_gates")


def _is_test_file(fn: str) -> bool:
    return fn.endswith("_test.py") or fn.startswith("test_") or fn == "conftest.py"


@dataclass
class FuncInfo:
    name: str
    qualname: str  # module-relative: "Class.method" or "func" or "outer.<locals>.inner"
    module: "ModuleInfo"
    node: ast.AST  # FunctionDef | AsyncFunctionDef
    cls: Optional["ClassInfo"] = None

    @property
    def fq(self) -> str:
        return f"{self.module.name}.{self.qualname}"

    @property
    def where(self) -> str:
        return f"{self.module.rel}:{self.node.lineno}"

    def params(self) -> List[str]:
        a = self.node.args
        return [x.arg for x in a.posonlyargs + a.args]

    def all_params(self) -> List[str]:
        a = self.node.args
        out = [x.arg for x in a.posonlyargs + a.args]
        if a.vararg:
            out.append("*" + a.vararg.arg)
        out += [x.arg for x in a.kwonlyargs]
        if a.kwarg:
            out.append("**" + a.kwarg.arg)
        return out

    def decorators(self) -> List[str]:
        return [ast.unparse(d) for d in self.node.decorator_list]


@dataclass
class ClassInfo:
    name: str
    qualname: str
    module: "ModuleInfo"
    node: ast.ClassDef
    base_exprs: List[str] = field(default_factory=list)
    methods: Dict[str, FuncInfo] = field(default_factory=dict)
    class_attrs: Dict[str, ast.AST] = field(default_factory=dict)  # name -> value expr
    nested: Dict[str, "ClassInfo"] = field(default_factory=dict)

    @property
    def fq(self) -> str:
        return f"{self.module.name}.{self.qualname}"

    @property
    def where(self) -> str:
        return f"{self.module.rel}:{self.node.lineno}"


@dataclass
class ModuleInfo:
    name: str  # dotted
    path: str
    rel: str  # path relative to the root
    src: str
    tree: ast.Module
    is_pkg: bool
    functions: Dict[str, FuncInfo] = field(default_factory=dict)  # top-level functions
    classes: Dict[str, ClassInfo] = field(default_factory=dict)  # top-level classes
    imports: Dict[str, str] = field(default_factory=dict)  # local name -> dotted target
    assigns: Dict[str, ast.AST] = field(default_factory=dict)  # module-level NAME = expr
    all_funcs: List[FuncInfo] = field(default_factory=list)  # incl. methods and nested
    all_classes: List[ClassInfo] = field(default_factory=list)


def set_parents(tree: ast.AST) -> None:
    for node in ast.walk(tree):
        for child in ast.iter_child_nodes(node):
            child.parent = node  # type: ignore[attr-defined]
    tree.parent = None  # type: ignore[attr-defined]


_LOCAL_NAMES = None


def _local_names() -> dict:
    global _LOCAL_NAMES
    if _LOCAL_NAMES is None:
        import json

        p = os.path.join(os.path.dirname(os.path.abspath(__file__)), "localnames.json")
        try:
            with open(p) as fh:
                _LOCAL_NAMES = json.load(fh)
        except OSError:
            _LOCAL_NAMES = {}
    return _LOCAL_NAMES


class Model:
    def __init__(self, root: str):
        self.root = os.path.abspath(root)
        self.modules: Dict[str, ModuleInfo] = {}
        self._mro_cache: Dict[str, List[ClassInfo]] = {}
        self._load()
        self._index()

    # ------------------------------------------------------------------ loading
    def _load(self) -> None:
        for pkg in PACKAGES:
            base = os.path.join(self.root, pkg)
            if not os.path.isdir(base):
                raise AnalysisError(f"package directory missing: {base}")
            for dirpath, dirnames, filenames in os.walk(base):
                dirnames[:] = sorted(d for d in dirnames if d != "__pycache__")
                for fn in sorted(filenames):
                    if not fn.endswith(".py") or _is_test_file(fn):
                        continue
                    path = os.path.join(dirpath, fn)
                    rel = os.path.relpath(path, self.root)
                    parts = rel[:-3].split(os.sep)
                    is_pkg = parts[-1] == "__init__"
                    if is_pkg:
                        parts = parts[:-1]
                    name = ".".join(parts)
                    with open(path, encoding="utf-8") as fh:
                        src = fh.read()
                    try:
                        tree = ast.parse(src, filename=path)
                    except SyntaxError as e:  # the tree does not "compile": analysis error
                        raise AnalysisError(f"cannot parse {rel}: {e}")
                    from sa.canon import canonicalise

                    tree = canonicalise(tree)  # one spelling for `if not c: A else: B` and `x = E; return x`
                    ref = _local_names().get(rel)
                    if ref:
                        from sa.canon import alpha_normalise

                        alpha_normalise(tree, ref)  # consistently renamed locals get the names the rules know
                    set_parents(tree)
                    self.modules[name] = ModuleInfo(name, path, rel, src, tree, is_pkg)

    def digest(self) -> str:
        h = hashlib.sha256()
        for name in sorted(self.modules):
            h.update(name.encode())
            h.update(self.modules[name].src.encode())
        return h.hexdigest()[:16]

    # ------------------------------------------------------------------ indexing
    def _index(self) -> None:
        from sa.minieval import MiniEval

        MiniEval.repo_modules = {m.name: m.tree for m in self.modules.values()}
        for m in self.modules.values():
            self._index_module(m)

    def _index_module(self, m: ModuleInfo) -> None:
        pkg_parts = m.name.split(".") if m.is_pkg else m.name.split(".")[:-1]

        def visit_body(body, cls: Optional[ClassInfo], prefix: str, top: bool):
            for st in body:
                if isinstance(st, (ast.FunctionDef, ast.AsyncFunctionDef)):
                    fi = FuncInfo(st.name, prefix + st.name, m, st, cls)
                    m.all_funcs.append(fi)
                    if cls is not None and prefix == cls.qualname + ".":
                        # keep the last definition (overloads come first)
                        cls.methods[st.name] = fi
                    elif top:
                        m.functions[st.name] = fi
                    visit_nested(st, prefix + st.name + ".<locals>.")
                elif isinstance(st, ast.ClassDef):
                    ci = ClassInfo(
                        st.name,
                        prefix + st.name,
                        m,
                        st,
                        [ast.unparse(b) for b in st.bases],
                    )
                    m.all_classes.append(ci)
                    if top:
                        m.classes[st.name] = ci
                    if cls is not None:
                        cls.nested[st.name] = ci
                    for s2 in st.body:
                        if isinstance(s2, ast.Assign):
                            for t in s2.targets:
                                if isinstance(t, ast.Name):
                                    ci.class_attrs[t.id] = s2.value
                        elif isinstance(s2, ast.AnnAssign) and isinstance(
                            s2.target, ast.Name
                        ):
                            if s2.value is not None:
                                ci.class_attrs[s2.target.id] = s2.value
                            else:
                                ci.class_attrs.setdefault(s2.target.id, s2.annotation)
                    visit_body(st.body, ci, ci.qualname + ".", False)
                elif top and isinstance(st, (ast.If, ast.Try)):
                    # TYPE_CHECKING blocks etc: imports only
                    for sub in ast.walk(st):
                        if isinstance(sub, (ast.Import, ast.ImportFrom)):
                            self._index_import(m, sub, pkg_parts)

        def visit_nested(fn, prefix):
            for sub in ast.iter_child_nodes(fn):
                self._visit_nested_defs(m, sub, prefix)

        for st in m.tree.body:
            if isinstance(st, (ast.Import, ast.ImportFrom)):
                self._index_import(m, st, pkg_parts)
            elif isinstance(st, ast.Assign):
                for t in st.targets:
                    if isinstance(t, ast.Name):
                        m.assigns[t.id] = st.value
            elif isinstance(st, ast.AnnAssign) and isinstance(st.target, ast.Name):
                if st.value is not None:
                    m.assigns[st.target.id] = st.value
        visit_body(m.tree.body, None, "", True)
        # function-level imports (very common in this code base) are resolved lazily per function

    def _visit_nested_defs(self, m: ModuleInfo, node: ast.AST, prefix: str) -> None:
        """nested functions/classes inside a function body"""
        stack = [node]
        while stack:
            n = stack.pop()
            if isinstance(n, (ast.FunctionDef, ast.AsyncFunctionDef)):
                fi = FuncInfo(n.name, prefix + n.name, m, n, None)
                m.all_funcs.append(fi)
                for sub in ast.iter_child_nodes(n):
                    self._visit_nested_defs(m, sub, prefix + n.name + ".<locals>.")
                continue
            if isinstance(n, ast.ClassDef):
                ci = ClassInfo(
                    n.name, prefix + n.name, m, n, [ast.unparse(b) for b in n.bases]
                )
                m.all_classes.append(ci)
                for s2 in n.body:
                    if isinstance(s2, (ast.FunctionDef, ast.AsyncFunctionDef)):
                        fi = FuncInfo(s2.name, ci.qualname + "." + s2.name, m, s2, ci)
                        ci.methods[s2.name] = fi
                        m.all_funcs.append(fi)
                continue
            stack.extend(ast.iter_child_nodes(n))

    def _index_import(self, m: ModuleInfo, st, pkg_parts: List[str]) -> None:
        if isinstance(st, ast.Import):
            for a in st.names:
                m.imports[a.asname or a.name.split(".")[0]] = (
                    a.name if a.asname else a.name.split(".")[0]
                )
        else:
            if st.level:
                base = pkg_parts[: len(pkg_parts) - (st.level - 1)]
                mod = ".".join(base + ([st.module] if st.module else []))
            else:
                mod = st.module or ""
            for a in st.names:
                if a.name == "*":
                    continue
                m.imports[a.asname or a.name] = f"{mod}.{a.name}"

    # ------------------------------------------------------------------ lookup
    def module(self, name: str) -> ModuleInfo:
        if name not in self.modules:
            raise AnalysisError(f"module vanished: {name}")
        return self.modules[name]

    def iter_funcs(self) -> Iterator[FuncInfo]:
        for m in self.modules.values():
            yield from m.all_funcs

    def iter_classes(self) -> Iterator[ClassInfo]:
        for m in self.modules.values():
            yield from m.all_classes

    def find_class(self, name: str, prefer_module: Optional[str] = None) -> ClassInfo:
        """Find a class by simple name; tolerant to the class having moved to another module."""
        c = self.try_class(name, prefer_module)
        if c is None:
            raise AnalysisError(f"class vanished: {name}")
        return c

    def try_class(self, name: str, prefer_module: Optional[str] = None) -> Optional[ClassInfo]:
        if prefer_module and prefer_module in self.modules:
            m = self.modules[prefer_module]
            for c in m.all_classes:
                if c.qualname == name or c.name == name:
                    return c
        hits = [c for c in self.iter_classes() if c.qualname == name]
        if not hits:
            hits = [c for c in self.iter_classes() if c.name == name]
        if len(hits) == 1:
            return hits[0]
        if len(hits) > 1:
            # prefer top-level
            tops = [c for c in hits if "." not in c.qualname]
            if len(tops) == 1:
                return tops[0]
            raise AnalysisError(f"class name ambiguous: {name}: {[c.fq for c in hits]}")
        return None

    def find_func(self, qual: str, prefer_module: Optional[str] = None) -> FuncInfo:
        f = self.try_func(qual, prefer_module)
        if f is None:
            raise AnalysisError(f"function vanished: {qual} (looked in {prefer_module or 'all modules'})")
        return f

    def try_func(self, qual: str, prefer_module: Optional[str] = None) -> Optional[FuncInfo]:
        """qual = 'func' or 'Class.method' (module-relative qualname)."""
        if prefer_module and prefer_module in self.modules:
            for f in self.modules[prefer_module].all_funcs:
                if f.qualname == qual:
                    return f
        hits = [f for f in self.iter_funcs() if f.qualname == qual]
        if len(hits) == 1:
            return hits[0]
        if len(hits) > 1:
            raise AnalysisError(f"function name ambiguous: {qual}: {[f.fq for f in hits]}")
        # method inherited? Class.method through the MRO
        if "." in qual and "<locals>" not in qual:
            cname, meth = qual.rsplit(".", 1)
            c = self.try_class(cname, prefer_module)
            if c is not None:
                return self.resolve_method(c, meth)
        return None

    # ------------------------------------------------------------------ hierarchy
    def resolve_name(self, m: ModuleInfo, name: str, depth: int = 0):
        """Resolve a (possibly dotted) name used in module m to a ClassInfo / FuncInfo /
        ('const', module, ast) / None, following imports and package re-exports."""
        if depth > 12:
            return None
        head, _, rest = name.partition(".")
        if head in m.classes:
            obj = m.classes[head]
            while rest:
                h2, _, rest = rest.partition(".")
                if isinstance(obj, ClassInfo) and h2 in obj.nested:
                    obj = obj.nested[h2]
                elif isinstance(obj, ClassInfo) and h2 in obj.methods:
                    obj = obj.methods[h2]
                elif isinstance(obj, ClassInfo) and h2 in obj.class_attrs:
                    return ("classattr", obj, h2)
                else:
                    return None
            return obj
        if head in m.functions and not rest:
            return m.functions[head]
        if head in m.assigns and not rest:
            return ("const", m, m.assigns[head])
        if head in m.imports:
            target = m.imports[head]
            full = target + ("." + rest if rest else "")
            return self.resolve_dotted(full, depth + 1)
        return None

    def resolve_dotted(self, dotted: str, depth: int = 0):
        parts = dotted.split(".")
        for i in range(len(parts), 0, -1):
            modname = ".".join(parts[:i])
            if modname in self.modules:
                rest = ".".join(parts[i:])
                if not rest:
                    return self.modules[modname]
                return self.resolve_name(self.modules[modname], rest, depth + 1)
        return None

    def bases(self, c: ClassInfo) -> List[ClassInfo]:
        out = []
        for b in c.base_exprs:
            b = b.split("[")[0]
            r = self.resolve_name(c.module, b)
            if isinstance(r, ClassInfo):
                out.append(r)
            else:
                # nested-function classes, or same-module class defined later
                hit = [k for k in c.module.all_classes if k.name == b.split(".")[-1]]
                if len(hit) == 1:
                    out.append(hit[0])
        return out

    def mro(self, c: ClassInfo) -> List[ClassInfo]:
        key = c.fq
        if key in self._mro_cache:
            return self._mro_cache[key]
        # C3 linearisation
        def merge(seqs):
            res = []
            seqs = [list(s) for s in seqs if s]
            while seqs:
                for s in seqs:
                    cand = s[0]
                    if not any(cand in t[1:] for t in seqs):
                        break
                else:
                    # inconsistent; fall back to first
                    cand = seqs[0][0]
                res.append(cand)
                seqs = [[x for x in s if x is not cand] for s in seqs]
                seqs = [s for s in seqs if s]
            return res

        bs = self.bases(c)
        lin = [c] + merge([self.mro(b) for b in bs] + [bs])
        self._mro_cache[key] = lin
        return lin

    def resolve_method(self, c: ClassInfo, name: str) -> Optional[FuncInfo]:
        for k in self.mro(c):
            if name in k.methods:
                return k.methods[name]
        return None

    def is_subclass(self, c: ClassInfo, base_name: str) -> bool:
        return any(k.name == base_name for k in self.mro(c))

    def subclasses(self, base_name: str, strict: bool = False) -> List[ClassInfo]:
        out = []
        for c in self.iter_classes():
            if self.is_subclass(c, base_name) and not (strict and c.name == base_name):
                out.append(c)
        return out

    def class_attr(self, c: ClassInfo, name: str):
        for k in self.mro(c):
            if name in k.class_attrs:
                return k, k.class_attrs[name]
        return None

    # ------------------------------------------------------------------ names inside a function
    def local_imports(self, f: FuncInfo) -> Dict[str, str]:
        cache = self.__dict__.setdefault("_li_cache", {})
        k = id(f.node)
        if k not in cache:
            cache[k] = self._local_imports(f)
        return cache[k]

    def _local_imports(self, f: FuncInfo) -> Dict[str, str]:
        out: Dict[str, str] = {}
        m = f.module
        pkg_parts = m.name.split(".") if m.is_pkg else m.name.split(".")[:-1]
        tmp = ModuleInfo("", "", "", "", ast.Module(body=[], type_ignores=[]), False)
        for n in ast.walk(f.node):
            if isinstance(n, (ast.Import, ast.ImportFrom)):
                self._index_import(tmp, n, pkg_parts)
        out.update(tmp.imports)
        return out

    def resolve_in_func(self, f: FuncInfo, name: str):
        """Resolve a name as seen from inside function f (function-level imports first)."""
        head, _, rest = name.partition(".")
        li = self.local_imports(f)
        if head in li:
            return self.resolve_dotted(li[head] + ("." + rest if rest else ""))
        # enclosing function-level imports
        return self.resolve_name(f.module, name)
