"""Static-analysis engines for the PyTeal property checks (stdlib `ast` only).

Nothing under /repo is ever imported or executed by this package: every module
of the repository is read as text and parsed with `ast.parse` on every run.
"""
