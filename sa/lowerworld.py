"""Abstract world for evaluating a `__teal__` method with sa.minieval: block objects whose wiring is
recorded, child expressions that lower to a single symbolic push, and a term-level stack machine
driven by the op signatures of the AVM reference table."""
from __future__ import annotations

import ast
import itertools
from typing import Any, Dict, List, Optional, Tuple

from .astutil import u
from .minieval import MiniEval, OpVal, Raised, Rec, Stack, StackError, Sym, Unknown, run_function
from .model import AnalysisError, Model
from .tables import op_table


class World:
    def __init__(self, model: Model, real_exprs: bool = False, real_blocks: bool = False):
        """real_exprs: expressions constructed inside the analysed code (Int(0), Div(a, b), TernaryExpr(...)) are
        built from the repository's own classes and factories and lowered by their own __teal__"""
        self.model = model
        self.objs = None
        self.real_blocks = real_blocks and real_exprs  # blocks are instances of the repository's block classes
        if real_exprs:
            from .objworld import ObjWorld

            mods = [n for n in model.modules if n.startswith("pyteal.ast.") and not n.endswith("_test") and ".abi." not in n] + ["pyteal.types", "pyteal.errors"]
            self.objs = ObjWorld(model, mods, where="lower-world")
        self.optab = op_table(model)
        self.OpS = Sym("Op", attrs={mem: Sym(f"Op.{mem}", attrs={"min_version": row["v"], "name": mem, "teal": row["teal"]}) for mem, row in self.optab.items()})
        self.TT = Sym("TealType", attrs={k: f"TealType.{k}" for k in ("none", "uint64", "bytes", "anytype")})
        self.blocks: List[Sym] = []
        self.me: Optional[MiniEval] = None
        self._fromop = model.find_func("TealBlock.FromOp", "pyteal.ir.tealblock")
        self.verify = model.find_func("verifyProgramVersion", "pyteal.errors")

    # ------------------------------------------------------------------ objects
    def simple_block(self, ops, *a, **k):
        b = Sym(f"block#{len(self.blocks)}", attrs={"ops": list(ops), "nextBlock": None, "$isa": {"TealSimpleBlock", "TealBlock"}, "_sframes_container": None, "incoming": []})
        b.methods["setNextBlock"] = lambda x, b=b: b.attrs.__setitem__("nextBlock", x)
        b.methods["getOutgoing"] = lambda b=b: [] if b.attrs["nextBlock"] is None else [b.attrs["nextBlock"]]
        self.blocks.append(b)
        return b

    def cond_block(self, ops, *a, **k):
        b = Sym(f"cblock#{len(self.blocks)}", attrs={"ops": list(ops), "trueBlock": None, "falseBlock": None, "$isa": {"TealConditionalBlock", "TealBlock"}, "_sframes_container": None, "incoming": []})
        b.methods["setTrueBlock"] = lambda x, b=b: b.attrs.__setitem__("trueBlock", x)
        b.methods["setFalseBlock"] = lambda x, b=b: b.attrs.__setitem__("falseBlock", x)
        b.methods["getOutgoing"] = lambda b=b: [x for x in (b.attrs["trueBlock"], b.attrs["falseBlock"]) if x is not None]
        self.blocks.append(b)
        return b

    def child(self, name: str, ttype: str = "uint64", has_return: bool = False, isa=("Expr",)):
        c = Sym(f"expr:{name}", attrs={"$isa": set(isa), "stack_frames": None, "trace": None})

        def teal(options, c=c, name=name):
            ops = [OpVal("$push", [name, ttype])] if ttype != "none" else [OpVal("$effect", [name])]
            if self.real_blocks:
                b = self.objs.construct("TealSimpleBlock", [ops], {})
            else:
                b = self.simple_block(ops)
            return (b, b)

        c.methods.update({"__teal__": teal, "type_of": lambda: self.TT.attrs[ttype], "has_return": lambda: has_return})
        return c

    def options(self, version=10, **extra):
        attrs = {"version": version, "currentSubroutine": None, "use_frame_pointers": version >= 8}
        attrs.update(extra)
        return Sym("options", attrs=attrs)

    # ------------------------------------------------------------------ oracle
    def oracle(self, extra=None):
        def o(e, me):
            t = u(e)
            if t == "Op":
                return self.OpS
            if t == "TealType":
                return self.TT
            if self.real_blocks and t in ("TealSimpleBlock", "TealConditionalBlock", "TealBlock"):
                self.objs.me = me
                return self.objs.class_sym(t)
            if t == "TealSimpleBlock":
                return self.simple_block
            if t == "TealConditionalBlock":
                return self.cond_block
            if t == "TealBlock":
                return Sym("TealBlock", methods={"FromOp": lambda *a: me.call_def(self._fromop.node, [None] + list(a), {}, {})})
            if isinstance(e, ast.Call) and t.startswith("verifyProgramVersion("):
                a = [me.ev(x) for x in e.args]
                return me.call_def(self.verify.node, a, {}, {})
            if isinstance(e, ast.Call) and t.startswith("NatalStackFrame."):
                return None
            if extra is not None:
                try:
                    return extra(e, me)
                except Unknown:
                    pass
            if self.objs is not None:
                try:
                    return self.objs.oracle()(e, me)
                except Unknown:
                    pass
                if isinstance(e, ast.Call) and isinstance(e.func, ast.Name):
                    nm = e.func.id
                    c = self.model.try_class(nm)
                    if c is not None and any(k.name == "Expr" for k in self.model.mro(c)):
                        args, kwargs = me._args(e)
                        self.objs.me = me
                        return self.objs.construct(nm, args, kwargs)
                    fn = self.objs.helpers.get(nm)
                    if fn is not None:
                        args, kwargs = me._args(e)
                        return me.call_def(fn, args, kwargs, {})
                raise Unknown()
            if isinstance(e, ast.Call) and u(e.func) == "Int" and len(e.args) == 1 and not e.keywords:
                v = me.ev(e.args[0])
                if isinstance(v, int) and not isinstance(v, bool):
                    return self.int_literal(v)
            if isinstance(e, ast.Call) and u(e.func) == "TernaryExpr" and len(e.args) == 6:
                a = [me.ev(x) for x in e.args]
                t = Sym("expr:ternary", attrs={"$isa": {"Expr", "TernaryExpr"}})
                t.methods["__teal__"] = lambda options, a=a: self.run_teal("TernaryExpr", {"op": a[0], "outputType": a[2], "firstArg": a[3], "secondArg": a[4], "thirdArg": a[5]}, options)[0]
                t.methods["type_of"] = lambda a=a: a[2]
                t.methods["has_return"] = lambda: False
                return t
            raise Unknown()

        return o

    def construct(self, cname: str, args: list, kwargs: Optional[dict] = None):
        """an instance of the repository's class `cname` built by its own constructor (needs real_exprs)"""
        if self.objs is None:
            raise AnalysisError("World.construct needs real_exprs=True")
        me = MiniEval(self.oracle(), f"construct {cname}", permissive=True, resolver=self.objs.resolver)
        me.isinstance_hook = lambda v, cn: ((cn.split(".")[-1] in v.attrs["$isa"]) if isinstance(v, Sym) and "$isa" in v.attrs else None)
        self.me = me
        self.objs.me = me
        return self.objs.construct(cname, list(args), dict(kwargs or {}))

    def call(self, fname: str, args: list, kwargs: Optional[dict] = None):
        """the result of the repository's module-level factory function `fname` (needs real_exprs)"""
        if self.objs is None or fname not in self.objs.helpers:
            raise AnalysisError(f"World.call: no factory function {fname}")
        me = MiniEval(self.oracle(), f"call {fname}", permissive=True, resolver=self.objs.resolver)
        me.isinstance_hook = lambda v, cn: ((cn.split(".")[-1] in v.attrs["$isa"]) if isinstance(v, Sym) and "$isa" in v.attrs else None)
        self.me = me
        self.objs.me = me
        return me.call_def(self.objs.helpers[fname], list(args), dict(kwargs or {}), {})

    def int_literal(self, v: int):
        """an Int(v) child: lowers to `int v`, carries .value, is an instance of Int"""
        c = Sym(f"expr:Int({v})", attrs={"$isa": {"Expr", "Int", "LeafExpr"}, "value": v, "stack_frames": None, "trace": None})

        def teal(options, v=v):
            b = self.simple_block([OpVal("int", [v])])
            return (b, b)

        c.methods.update({"__teal__": teal, "type_of": lambda: self.TT.attrs["uint64"], "has_return": lambda: False})
        return c

    def run_teal(self, cls_name: str, self_attrs: Dict[str, Any], options: Sym, module: Optional[str] = None, extra=None, method: str = "__teal__", self_methods: Optional[Dict[str, Any]] = None):
        c = self.model.find_class(cls_name, module)
        f = self.model.resolve_method(c, method)
        if f is None:
            raise AnalysisError(f"{c.fq}.{method} vanished")
        selfs = Sym("self:" + cls_name, attrs=dict(self_attrs))
        selfs.attrs.setdefault("$isa", {cls_name, "Expr"})
        selfs.attrs.setdefault("_sframes_container", None)
        holder: Dict[str, MiniEval] = {}
        # private helpers (name-mangled) and plain methods of the class are interpreted on demand
        for k in self.model.mro(c):
            for nm, fi in k.methods.items():
                if nm in (method,) or nm in selfs.methods:
                    continue
                call = (lambda fi: lambda *a, **kw: holder["me"].call_def(fi.node, [selfs] + list(a), kw, {}))(fi)
                selfs.methods[nm] = call
        if self_methods:
            selfs.methods.update(self_methods)

        def setup(me):
            holder["me"] = me
            self.me = me
            if self.objs is not None:
                self.objs.me = me
                me.isinstance_hook = lambda v, cname: ((cname.split(".")[-1] in v.attrs["$isa"]) if isinstance(v, Sym) and "$isa" in v.attrs else None)

        val, me = run_function(f.node, {f.params()[0]: selfs, **({f.params()[1]: options} if len(f.params()) > 1 else {})}, self.oracle(extra), f.fq, permissive=True, setup=setup, resolver=(self.objs.resolver if self.objs is not None else None))
        return val, me, f

    # ------------------------------------------------------------------ reading the result
    def chain(self, start: Sym, end: Sym) -> List[OpVal]:
        """ops along the unique path start -> end through simple blocks"""
        out, b, seen = [], start, 0
        while True:
            seen += 1
            if seen > 500:
                raise AnalysisError("block chain does not reach its end block")
            if "nextBlock" not in b.attrs:
                raise AnalysisError(f"block chain passes through a conditional block {b.name}")
            out.extend(b.attrs["ops"])
            if b is end:
                return out
            b = b.attrs["nextBlock"]
            if b is None:
                raise AnalysisError("block chain ends before reaching the declared end block")


def op_sig(world: World, opname: str):
    from spec import avm

    row = world.optab.get(opname)
    teal = row["teal"] if row else opname
    return avm.OPS.get(teal), teal


def norm_term(t):
    """normal form of a term: commutative ops have sorted operands"""
    COMM = {"+", "*", "&&", "||", "==", "!=", "&", "|", "^", "addw", "mulw", "b+", "b*", "b&", "b|", "b^", "b==", "b!="}
    if isinstance(t, tuple) and len(t) == 3 and isinstance(t[1], tuple):
        op, args, i = t
        args = tuple(norm_term(a) for a in args)
        if op in COMM:
            args = tuple(sorted(args, key=repr))
        return (op, args, i)
    return t


def term_run(world: World, ops: List[OpVal], initial: List[Any] = ()) -> Tuple[List[Any], List[Any], List[str]]:
    """push the op list through the abstract machine; cells are terms (tealop, (operand terms), result index).
    Returns (stack, asserted terms, types of the stack cells)."""
    from spec import avm

    st = Stack(list(initial))
    types: Dict[int, str] = {}
    asserted: List[Any] = []
    tstack: List[str] = ["?"] * len(initial)

    for o in ops:
        if o.op == "$push":
            st.s.append(o.args[0])
            tstack.append({"uint64": "u", "bytes": "b", "anytype": "a"}.get(o.args[1], "?"))
            continue
        if o.op == "$effect":
            continue
        sig, teal = op_sig(world, o.op)
        if teal in ("int", "byte", "addr", "method", "pushint", "pushbytes"):
            st.s.append((teal, tuple(o.args), 0))
            tstack.append(sig["pushes"][0] if sig else "?")
            continue
        if teal in ("cover", "uncover", "dig", "bury", "swap", "pop", "dup", "dup2", "dupn", "popn"):
            before = len(st.s)
            # keep the type stack in step by applying the same permutation to a shadow stack
            sh = Stack(list(tstack))
            st.apply(teal, o.args)
            sh.apply(teal, o.args)
            tstack = sh.s
            continue
        if teal == "assert":
            st.need(1, "assert")
            asserted.append(st.s.pop())
            tstack.pop()
            continue
        if sig is None:
            raise AnalysisError(f"no AVM signature for op {teal}")
        k = len(sig["pops"])
        st.need(k, teal)
        popped = tuple(st.s[len(st.s) - k:]) if k else ()
        ptypes = tstack[len(tstack) - k:] if k else []
        for want, got in zip(sig["pops"], ptypes):
            if want in "ub" and got in "ub" and want != got:
                raise StackError(f"{teal} pops a {'uint64' if want == 'u' else 'bytes'} but the operand on the stack is {'uint64' if got == 'u' else 'bytes'}")
        if k:
            del st.s[len(st.s) - k:]
            del tstack[len(tstack) - k:]
        for i, t in enumerate(sig["pushes"]):
            st.s.append((teal, popped + tuple(o.args), i) if o.args else (teal, popped, i))
            tstack.append(t)
    return st.s, asserted, tstack
