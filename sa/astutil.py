"""Small syntax-tree helpers shared by the rules: structured dominance, guards, constant
evaluation of the literal sub-language used in the repository's tables."""
from __future__ import annotations

import ast
from typing import Callable, Dict, Iterable, Iterator, List, Optional, Sequence, Set, Tuple

from .model import AnalysisError, FuncInfo, Model, ModuleInfo

FUNC_NODES = (ast.FunctionDef, ast.AsyncFunctionDef, ast.Lambda)


def u(node: Optional[ast.AST]) -> str:
    return "" if node is None else ast.unparse(node)


def walk_local(node: ast.AST, into_nested: bool = False) -> Iterator[ast.AST]:
    """ast.walk that does not descend into nested function/class definitions (lambdas are
    descended into: they are expressions of the enclosing function)."""
    stack = [node]
    first = True
    while stack:
        n = stack.pop()
        if not first and not into_nested and isinstance(
            n, (ast.FunctionDef, ast.AsyncFunctionDef, ast.ClassDef)
        ):
            continue
        first = False
        yield n
        stack.extend(reversed(list(ast.iter_child_nodes(n))))


def calls_in(node: ast.AST, into_nested: bool = False) -> Iterator[ast.Call]:
    for n in walk_local(node, into_nested):
        if isinstance(n, ast.Call):
            yield n


def call_name(c: ast.Call) -> str:
    return u(c.func)


def attr_chain(node: ast.AST) -> Optional[str]:
    """'a.b.c' for Name/Attribute chains, else None"""
    parts = []
    while isinstance(node, ast.Attribute):
        parts.append(node.attr)
        node = node.value
    if isinstance(node, ast.Name):
        parts.append(node.id)
        return ".".join(reversed(parts))
    return None


def ancestors(node: ast.AST) -> Iterator[ast.AST]:
    p = getattr(node, "parent", None)
    while p is not None:
        yield p
        p = getattr(p, "parent", None)


def enclosing_function(node: ast.AST) -> Optional[ast.AST]:
    for a in ancestors(node):
        if isinstance(a, (ast.FunctionDef, ast.AsyncFunctionDef)):
            return a
    return None


def enclosing_stmt(node: ast.AST) -> ast.stmt:
    n = node
    while not isinstance(n, ast.stmt):
        n = n.parent  # type: ignore[attr-defined]
    return n


def _body_lists(st: ast.AST) -> List[Tuple[str, List[ast.stmt]]]:
    out = []
    for fld in ("body", "orelse", "finalbody"):
        v = getattr(st, fld, None)
        if isinstance(v, list) and v and isinstance(v[0], ast.stmt):
            out.append((fld, v))
    if isinstance(st, ast.Try):
        for h in st.handlers:
            out.append(("handler", h.body))
    if isinstance(st, ast.Match):
        for c in st.cases:
            out.append(("case", c.body))
    return out


def stmt_always_exits(st: ast.stmt) -> bool:
    """True if executing st never falls through to the next statement (raise/return/continue/
    break, or an if/else whose both arms always exit)."""
    if isinstance(st, (ast.Raise, ast.Return, ast.Continue, ast.Break)):
        return True
    if isinstance(st, ast.If):
        return bool(st.orelse) and block_always_exits(st.body) and block_always_exits(st.orelse)
    if isinstance(st, ast.With):
        return block_always_exits(st.body)
    return False


def block_always_exits(body: Sequence[ast.stmt]) -> bool:
    return any(stmt_always_exits(s) for s in body)


def block_always_raises(body: Sequence[ast.stmt]) -> bool:
    for s in body:
        if isinstance(s, ast.Raise):
            return True
        if isinstance(s, ast.If) and s.orelse and block_always_raises(s.body) and block_always_raises(s.orelse):
            return True
        if isinstance(s, (ast.Return, ast.Continue, ast.Break)):
            return False
    return False


class Guard:
    """A condition known to hold when control reaches a node.
    expr: the test expression; polarity: True if `expr` holds, False if `not expr` holds;
    kind: 'branch' (node is inside the arm) or 'exit' (an earlier `if expr: raise/return/continue`
    dominates the node so `not expr` holds)"""

    __slots__ = ("expr", "polarity", "kind", "stmt", "exit_kind")

    def __init__(self, expr, polarity, kind, stmt, exit_kind=None):
        self.expr = expr
        self.polarity = polarity
        self.kind = kind
        self.stmt = stmt
        self.exit_kind = exit_kind

    def text(self) -> str:
        return ("" if self.polarity else "not ") + "(" + u(self.expr) + ")"

    def __repr__(self):
        return f"Guard[{self.kind}:{self.text()}]"


def _exit_kind(body) -> Optional[str]:
    for s in body:
        if isinstance(s, ast.Raise):
            return "raise"
        if isinstance(s, ast.Return):
            return "return"
        if isinstance(s, ast.Continue):
            return "continue"
        if isinstance(s, ast.Break):
            return "break"
        if isinstance(s, ast.If) and s.orelse and block_always_exits(s.body) and block_always_exits(s.orelse):
            return _exit_kind(s.body)
    return None


def dominating(node: ast.AST, stop: Optional[ast.AST] = None) -> Tuple[List[ast.stmt], List[Guard]]:
    """Structured dominance inside one function.

    Returns (stmts, guards): `stmts` are the statements that are executed on every path from the
    function entry to `node` (earlier siblings in every enclosing statement list, outermost
    first, in order) and `guards` the conditions known to hold at `node` (branch arms the node
    lies in, and earlier `if c: <always exits>` statements).  Python has no goto, so this
    syntactic notion is exact for the statement kinds the repository uses, except that an
    earlier sibling inside a loop body dominates only later statements of the same iteration
    (which is what is wanted) and `try` bodies are treated as possibly interrupted: statements of
    a `try` body do not dominate its handlers/finalbody.
    """
    stmts: List[ast.stmt] = []
    guards: List[Guard] = []
    chain = []
    n = node
    while n is not None and n is not stop:
        chain.append(n)
        if isinstance(n, (ast.FunctionDef, ast.AsyncFunctionDef)):
            break
        n = getattr(n, "parent", None)
    chain.reverse()  # outermost first
    for parent, child in zip(chain, chain[1:]):
        # which list of the parent holds child?
        for fld, lst in _body_lists(parent):
            if any(child is s for s in lst):
                idx = [i for i, s in enumerate(lst) if s is child][0]
                if isinstance(parent, ast.If):
                    guards.append(Guard(parent.test, fld == "body", "branch", parent))
                elif isinstance(parent, ast.While) and fld == "body":
                    guards.append(Guard(parent.test, True, "branch", parent))
                for s in lst[:idx]:
                    stmts.append(s)
                    if isinstance(s, ast.If) and block_always_exits(s.body) and not s.orelse:
                        guards.append(Guard(s.test, False, "exit", s, _exit_kind(s.body)))
                    elif isinstance(s, ast.If) and s.orelse and block_always_exits(s.orelse) and not block_always_exits(s.body):
                        guards.append(Guard(s.test, True, "exit", s, _exit_kind(s.orelse)))
                    elif isinstance(s, ast.If) and s.orelse and block_always_exits(s.body) and not block_always_exits(s.orelse):
                        guards.append(Guard(s.test, False, "exit", s, _exit_kind(s.body)))
                    elif isinstance(s, ast.Assert):
                        guards.append(Guard(s.test, True, "assert", s, "raise"))
                break
        else:
            if isinstance(parent, ast.IfExp):
                if child is parent.body:
                    guards.append(Guard(parent.test, True, "branch", parent))
                elif child is parent.orelse:
                    guards.append(Guard(parent.test, False, "branch", parent))
            elif isinstance(parent, ast.BoolOp):
                idx = [i for i, v in enumerate(parent.values) if v is child]
                if idx:
                    for v in parent.values[: idx[0]]:
                        guards.append(Guard(v, isinstance(parent.op, ast.And), "branch", parent))
            elif isinstance(parent, ast.match_case):
                pass
    return stmts, guards


def dominating_calls(node: ast.AST) -> List[ast.Call]:
    """all calls inside statements that dominate `node` (statement-level, unconditional parts only
    are not distinguished: a call nested in an earlier `if` body is NOT included)."""
    stmts, _ = dominating(node)
    out = []
    for s in stmts:
        out.extend(unconditional_calls(s))
    return out


def unconditional_calls(st: ast.stmt) -> List[ast.Call]:
    """calls that are evaluated whenever statement st is executed and completes normally"""
    out: List[ast.Call] = []

    def visit(n, cond):
        if isinstance(n, (ast.FunctionDef, ast.AsyncFunctionDef, ast.ClassDef, ast.Lambda)):
            return
        if isinstance(n, ast.If):
            visit(n.test, cond)
            return
        if isinstance(n, (ast.For, ast.AsyncFor)):
            visit(n.iter, cond)
            return
        if isinstance(n, ast.While):
            visit(n.test, cond)
            return
        if isinstance(n, ast.Try):
            for s in n.finalbody:
                visit(s, cond)
            return
        if isinstance(n, ast.IfExp):
            visit(n.test, cond)
            return
        if isinstance(n, ast.BoolOp):
            visit(n.values[0], cond)
            return
        if isinstance(n, (ast.ListComp, ast.SetComp, ast.DictComp, ast.GeneratorExp)):
            visit(n.generators[0].iter, cond)
            return
        if isinstance(n, ast.Call):
            out.append(n)
        for c in ast.iter_child_nodes(n):
            visit(c, cond)

    visit(st, False)
    return out


# ------------------------------------------------------------------------------- const eval
class NotConst(Exception):
    pass


def const_eval(model: Model, m: ModuleInfo, node: ast.AST, env: Optional[Dict[str, object]] = None, depth: int = 0):
    """Evaluate the literal sub-language: ints, strs, bytes, tuples, lists, dicts, arithmetic,
    names bound at module level to such expressions (following imports)."""
    env = env or {}
    if depth > 20:
        raise NotConst("depth")
    if isinstance(node, ast.Constant):
        return node.value
    if isinstance(node, ast.Name):
        if node.id in env:
            return env[node.id]
        r = model.resolve_name(m, node.id)
        if isinstance(r, tuple) and r[0] == "const":
            return const_eval(model, r[1], r[2], None, depth + 1)
        raise NotConst(node.id)
    if isinstance(node, ast.Attribute):
        ch = attr_chain(node)
        if ch:
            r = model.resolve_name(m, ch)
            if isinstance(r, tuple) and r[0] == "const":
                return const_eval(model, r[1], r[2], None, depth + 1)
            if isinstance(r, tuple) and r[0] == "classattr":
                return const_eval(model, r[1].module, r[1].class_attrs[r[2]], None, depth + 1)
        raise NotConst(u(node))
    if isinstance(node, ast.UnaryOp):
        v = const_eval(model, m, node.operand, env, depth + 1)
        if isinstance(node.op, ast.USub):
            return -v
        if isinstance(node.op, ast.UAdd):
            return +v
        if isinstance(node.op, ast.Not):
            return not v
        if isinstance(node.op, ast.Invert):
            return ~v
    if isinstance(node, ast.BinOp):
        a = const_eval(model, m, node.left, env, depth + 1)
        b = const_eval(model, m, node.right, env, depth + 1)
        ops = {
            ast.Add: lambda x, y: x + y,
            ast.Sub: lambda x, y: x - y,
            ast.Mult: lambda x, y: x * y,
            ast.FloorDiv: lambda x, y: x // y,
            ast.Mod: lambda x, y: x % y,
            ast.Pow: lambda x, y: x**y if abs(y) < 4096 else (_ for _ in ()).throw(NotConst("pow")),
            ast.LShift: lambda x, y: x << y,
            ast.RShift: lambda x, y: x >> y,
            ast.BitOr: lambda x, y: x | y,
            ast.BitAnd: lambda x, y: x & y,
            ast.BitXor: lambda x, y: x ^ y,
        }
        f = ops.get(type(node.op))
        if f is None:
            raise NotConst(u(node))
        try:
            return f(a, b)
        except NotConst:
            raise
        except Exception as e:
            raise NotConst(str(e))
    if isinstance(node, ast.Tuple):
        return tuple(const_eval(model, m, e, env, depth + 1) for e in node.elts)
    if isinstance(node, ast.List):
        return [const_eval(model, m, e, env, depth + 1) for e in node.elts]
    if isinstance(node, ast.Set):
        return {const_eval(model, m, e, env, depth + 1) for e in node.elts}
    if isinstance(node, ast.Dict):
        return {
            const_eval(model, m, k, env, depth + 1): const_eval(model, m, v, env, depth + 1)
            for k, v in zip(node.keys, node.values)
        }
    if isinstance(node, ast.Call) and isinstance(node.func, ast.Name) and node.func.id in ("int", "len", "bytes", "str") and len(node.args) == 1 and not node.keywords:
        v = const_eval(model, m, node.args[0], env, depth + 1)
        try:
            return {"int": int, "len": len, "bytes": bytes, "str": str}[node.func.id](v)
        except Exception as e:
            raise NotConst(str(e))
    if isinstance(node, ast.Call) and isinstance(node.func, ast.Attribute) and node.func.attr == "fromhex" and u(node.func.value) == "bytes" and len(node.args) == 1:
        return bytes.fromhex(const_eval(model, m, node.args[0], env, depth + 1))
    raise NotConst(u(node))


def try_const(model: Model, m: ModuleInfo, node: ast.AST, env=None):
    try:
        return True, const_eval(model, m, node, env)
    except NotConst:
        return False, None


# ------------------------------------------------------------------------------- intervals
INF = float("inf")


def allowed_interval(model: Model, m: ModuleInfo, guards: Iterable[Guard], var: str, env=None, extra_names: Sequence[str] = ()) -> Tuple[float, float, List[str]]:
    """From the guards known to hold, derive the integer interval [lo, hi] the expression whose
    unparsed text is `var` is confined to.  Only comparisons between `var` and constant
    expressions are used; everything else is ignored (sound: the interval only gets wider).
    Returns (lo, hi, used guard texts)."""
    lo, hi = -INF, INF
    used: List[str] = []

    def cmp_bounds(test: ast.AST, pol: bool) -> Optional[Tuple[float, float]]:
        """interval of var for which `test` has truth value pol; None if not about var"""
        if isinstance(test, ast.UnaryOp) and isinstance(test.op, ast.Not):
            return cmp_bounds(test.operand, not pol)
        if isinstance(test, ast.BoolOp):
            subs = [cmp_bounds(v, pol) for v in test.values]
            is_and = isinstance(test.op, ast.And)
            # (A and B) true -> intersection ; (A or B) false -> intersection of the falses
            if (is_and and pol) or ((not is_and) and not pol):
                l, h = -INF, INF
                hit = False
                for s in subs:
                    if s is not None:
                        hit = True
                        l, h = max(l, s[0]), min(h, s[1])
                return (l, h) if hit else None
            # disjunctive knowledge: hull, only if every part constrains var
            if all(s is not None for s in subs):
                return (min(s[0] for s in subs), max(s[1] for s in subs))
            return None
        if isinstance(test, ast.Compare):
            operands = [test.left] + list(test.comparators)
            l, h = -INF, INF
            hit = False
            if len(test.ops) > 1 and not pol:
                # not (a <= x < b): disjunction, no single interval unless one side only
                return None
            for a, op, b in zip(operands, test.ops, operands[1:]):
                r = one_cmp(a, op, b, pol)
                if r is not None:
                    hit = True
                    l, h = max(l, r[0]), min(h, r[1])
            return (l, h) if hit else None
        return None

    def one_cmp(a, op, b, pol):
        ta, tb = u(a), u(b)
        if ta == var:
            ok, c = try_const(model, m, b, env)
            side = "L"
        elif tb == var:
            ok, c = try_const(model, m, a, env)
            side = "R"
        else:
            return None
        if not ok or not isinstance(c, int) or isinstance(c, bool):
            return None
        t = type(op)
        if side == "R":
            t = {ast.Lt: ast.Gt, ast.Gt: ast.Lt, ast.LtE: ast.GtE, ast.GtE: ast.LtE}.get(t, t)
        if not pol:
            t = {ast.Lt: ast.GtE, ast.GtE: ast.Lt, ast.Gt: ast.LtE, ast.LtE: ast.Gt, ast.Eq: ast.NotEq, ast.NotEq: ast.Eq}.get(t)
        if t is ast.Lt:
            return (-INF, c - 1)
        if t is ast.LtE:
            return (-INF, c)
        if t is ast.Gt:
            return (c + 1, INF)
        if t is ast.GtE:
            return (c, INF)
        if t is ast.Eq:
            return (c, c)
        return None

    for g in guards:
        # special-case `not (a <= x <= b)` exits: polarity False on a chained compare with pol False
        test, pol = g.expr, g.polarity
        r = None
        if isinstance(test, ast.UnaryOp) and isinstance(test.op, ast.Not):
            test, pol = test.operand, not pol
        if isinstance(test, ast.Compare) and len(test.ops) > 1 and pol:
            r = cmp_bounds(test, True)
        else:
            r = cmp_bounds(test, pol)
        if r is not None:
            lo, hi = max(lo, r[0]), min(hi, r[1])
            used.append(g.text())
    return lo, hi, used


def func_returns(fn: ast.AST) -> List[ast.Return]:
    return [n for n in walk_local(fn) if isinstance(n, ast.Return)]


def find_calls_to(fn: ast.AST, names: Iterable[str], into_nested: bool = True) -> List[ast.Call]:
    names = set(names)
    out = []
    for c in calls_in(fn, into_nested):
        nm = call_name(c)
        if nm in names or nm.split(".")[-1] in names:
            out.append(c)
    return out


def kwarg(c: ast.Call, name: str) -> Optional[ast.AST]:
    for k in c.keywords:
        if k.arg == name:
            return k.value
    return None


def arg_or_kw(c: ast.Call, pos: int, name: str) -> Optional[ast.AST]:
    if pos < len(c.args) and not any(isinstance(a, ast.Starred) for a in c.args[: pos + 1]):
        return c.args[pos]
    return kwarg(c, name)


def assigned_names(target: ast.AST) -> List[str]:
    out = []
    for n in ast.walk(target):
        if isinstance(n, ast.Name):
            out.append(n.id)
    return out


def is_docstring(st: ast.stmt) -> bool:
    return isinstance(st, ast.Expr) and isinstance(st.value, ast.Constant) and isinstance(st.value.value, str)
